"""Line protocol between the Python harness and the Lean driver (`mirdriver`).

One case per line: `<id> <fn> <arg> ...`, tokens separated by one blank.
  rational      p/q  or  p
  string        s:<6 hex digits per code point>
  bool          T / F
  None          none
  list / tuple  [ v v v ]
Driver answers `<id> ok <value>` | `<id> err <Class>` | `<id> bad-op`.
Float model outputs come back as `f:<uint64 bits>`; nan / inf / -inf as words.
"""
from fractions import Fraction
import struct
import math
import numbers

import numpy as np


class Err:
    """An exception class observed on either side (message never compared)."""
    __slots__ = ("cls",)

    def __init__(self, cls):
        self.cls = cls

    def __eq__(self, other):
        return isinstance(other, Err) and other.cls == self.cls

    def __hash__(self):
        return hash(("Err", self.cls))

    def __repr__(self):
        return "Err(%s)" % self.cls


BAD_OP = Err("bad-op")


def enc(v):
    """Encode a Python value as protocol tokens (a single string)."""
    if v is None:
        return "none"
    if isinstance(v, (bool, np.bool_)):
        return "T" if v else "F"
    if isinstance(v, (int, np.integer)):
        return str(int(v))
    if isinstance(v, Fraction):
        return str(v.numerator) if v.denominator == 1 else "%d/%d" % (v.numerator, v.denominator)
    if isinstance(v, str):
        return "s:" + "".join("%06x" % ord(c) for c in v)
    if isinstance(v, (list, tuple)):
        return "[ " + "".join(enc(x) + " " for x in v) + "]"
    if isinstance(v, float):
        raise TypeError("floats are never sent to the model; send the intended Fraction: %r" % (v,))
    raise TypeError("cannot encode %r" % (type(v),))


def _parse(tokens, i):
    t = tokens[i]
    if t == "[":
        out = []
        i += 1
        while tokens[i] != "]":
            v, i = _parse(tokens, i)
            out.append(v)
        return out, i + 1
    if t == "none":
        return None, i + 1
    if t == "nan":
        return float("nan"), i + 1
    if t == "inf":
        return float("inf"), i + 1
    if t == "-inf":
        return float("-inf"), i + 1
    if t == "T":
        return True, i + 1
    if t == "F":
        return False, i + 1
    if t.startswith("s:"):
        h = t[2:]
        return "".join(chr(int(h[k:k + 6], 16)) for k in range(0, len(h), 6)), i + 1
    if t.startswith("f:"):
        return struct.unpack("<d", struct.pack("<Q", int(t[2:])))[0], i + 1
    if "/" in t:
        p, q = t.split("/")
        return Fraction(int(p), int(q)), i + 1
    return Fraction(int(t)), i + 1


def dec_line(line):
    """Decode one driver answer -> (id, value | Err)."""
    toks = line.split()
    cid = toks[0]
    if len(toks) < 2:
        return cid, BAD_OP
    if toks[1] == "bad-op":
        return cid, BAD_OP
    if toks[1] == "err":
        return cid, Err(toks[2])
    v, j = _parse(toks, 2)
    if j != len(toks):
        raise ValueError("trailing tokens in driver line: %r" % line)
    return cid, v


EXC_MAP = [
    ("InvalidChord", lambda e: type(e).__name__ == "InvalidChordException"),
    ("ValueError", lambda e: isinstance(e, ValueError)),
    ("IndexError", lambda e: isinstance(e, IndexError)),
    ("ZeroDivision", lambda e: isinstance(e, ZeroDivisionError)),
    ("TypeError", lambda e: isinstance(e, TypeError)),
    ("KeyError", lambda e: isinstance(e, KeyError)),
]


def classify_exc(e):
    for name, pred in EXC_MAP:
        if pred(e):
            return Err(name)
    return Err("Other")


def canon(v):
    """Canonicalise an implementation result into plain Python data."""
    if isinstance(v, Err):
        return v
    if v is None or isinstance(v, (str, bool)):
        return v
    if isinstance(v, np.bool_):
        return bool(v)
    if isinstance(v, (int, np.integer)):
        return int(v)
    if isinstance(v, (float, np.floating)):
        return float(v)
    if isinstance(v, Fraction):
        return v
    if isinstance(v, np.ndarray):
        return [canon(x) for x in v.tolist()]
    if isinstance(v, (list, tuple)):
        return [canon(x) for x in v]
    if isinstance(v, dict):
        return [[canon(k), canon(x)] for k, x in v.items()]
    if isinstance(v, (set, frozenset)):
        return sorted(canon(x) for x in v)
    raise TypeError("cannot canonicalise %r" % (type(v),))


def match(model, impl, tol=1e-9, path=""):
    """Compare a decoded model value with a canonicalised implementation value.

    Returns None when they agree, else a short description of the first difference.
    Numbers: model Fraction vs impl int -> exact; vs impl float -> |diff| <= tol*max(1,|x|);
    model float (transcendental model output) vs impl float -> same rule; nan matches nan.
    """
    if isinstance(model, Err) or isinstance(impl, Err):
        return None if model == impl else "%s: model=%r impl=%r" % (path, model, impl)
    if isinstance(model, bool) or isinstance(impl, bool):
        # Python bools returned where 0/1 is modelled as a number are still compared by value
        if isinstance(model, bool) and isinstance(impl, bool):
            return None if model == impl else "%s: model=%r impl=%r" % (path, model, impl)
        if isinstance(model, bool) and isinstance(impl, (int, float)) and not isinstance(impl, bool):
            return None if float(model) == float(impl) else "%s: model=%r impl=%r" % (path, model, impl)
        if isinstance(impl, bool) and isinstance(model, (Fraction, float)):
            return None if float(model) == float(impl) else "%s: model=%r impl=%r" % (path, model, impl)
        return "%s: model=%r impl=%r" % (path, model, impl)
    if model is None or impl is None:
        return None if model is impl else "%s: model=%r impl=%r" % (path, model, impl)
    if isinstance(model, str) or isinstance(impl, str):
        return None if model == impl else "%s: model=%r impl=%r" % (path, model, impl)
    if isinstance(model, list) or isinstance(impl, list):
        if not (isinstance(model, list) and isinstance(impl, list)):
            return "%s: shape model=%r impl=%r" % (path, model, impl)
        if len(model) != len(impl):
            return "%s: length model=%d impl=%d (model=%r impl=%r)" % (path, len(model), len(impl), model, impl)
        for k, (a, b) in enumerate(zip(model, impl)):
            d = match(a, b, tol, "%s[%d]" % (path, k))
            if d:
                return d
        return None
    # numbers
    if isinstance(impl, int):
        if isinstance(model, Fraction):
            return None if model == impl else "%s: model=%s impl=%d" % (path, model, impl)
        return None if model == impl else "%s: model=%r impl=%d" % (path, model, impl)
    if isinstance(impl, Fraction):
        return None if model == impl else "%s: model=%s impl=%s" % (path, model, impl)
    if isinstance(impl, float):
        m = float(model)
        if math.isnan(m) or math.isnan(impl):
            return None if (math.isnan(m) and math.isnan(impl)) else "%s: model=%r impl=%r" % (path, model, impl)
        if math.isinf(m) or math.isinf(impl):
            return None if m == impl else "%s: model=%r impl=%r" % (path, model, impl)
        if abs(m - impl) <= tol * max(1.0, abs(impl)):
            return None
        return "%s: model=%s (%.17g) impl=%.17g" % (path, model, m, impl)
    return "%s: uncomparable model=%r impl=%r" % (path, model, impl)


def jsonable(v):
    """Make a value JSON-serialisable for replay / evidence files."""
    if isinstance(v, Err):
        return {"err": v.cls}
    if isinstance(v, Fraction):
        return str(v)
    if isinstance(v, (np.floating, float)):
        f = float(v)
        if math.isnan(f):
            return "nan"
        if math.isinf(f):
            return "inf" if f > 0 else "-inf"
        return f
    if isinstance(v, (np.integer,)):
        return int(v)
    if isinstance(v, np.bool_):
        return bool(v)
    if isinstance(v, np.ndarray):
        return jsonable(v.tolist())
    if isinstance(v, (list, tuple)):
        return [jsonable(x) for x in v]
    if isinstance(v, dict):
        return {str(k): jsonable(x) for k, x in v.items()}
    if isinstance(v, (set, frozenset)):
        return sorted(jsonable(x) for x in v)
    if isinstance(v, (str, int, bool)) or v is None:
        return v
    if isinstance(v, numbers.Number):
        return float(v)
    return repr(v)
