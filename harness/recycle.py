"""Recycled argument objects at the library boundary.

`recycling()` is a context manager that replaces every public function of the mir_eval modules (in the modules' own
namespaces, so calls between library functions go through it too) by a wrapper that

  1. calls the function once on same-shaped VARIANTS of its array / list arguments held in a pool (warm-up; exceptions
     ignored), and then
  2. writes the actual values INTO those pooled objects (in place) and calls the function on them.

A library whose results depend on the values only cannot tell the difference.  One that keys a memo on object identity,
keeps a reference to a mutable argument, or is only correct on "fresh" objects returns something else in step 2 — which
the caller of `recycling()` then sees as a disagreement with the model / definition, replayable from the case alone.
The wrappers keep `__code__.co_varnames[:co_argcount]`, `__name__` and the signature (util.filter_kwargs reads them).
"""
import contextlib
import inspect
import sys
import types

from relcheck import _Recycler, _variant

_MODES = ("labels", "scale", "both")


def _make_wrapper(fn, hook):
    sig = inspect.signature(fn)
    params, call, defaults = [], [], {}
    star = False
    for i, p in enumerate(sig.parameters.values()):
        d = ""
        if p.default is not inspect.Parameter.empty:
            defaults["_d%d" % i] = p.default
            d = "=_d%d" % i
        if p.kind in (p.POSITIONAL_ONLY, p.POSITIONAL_OR_KEYWORD):
            params.append(p.name + d)
            call.append(p.name)
        elif p.kind == p.VAR_POSITIONAL:
            params.append("*" + p.name)
            call.append("*" + p.name)
            star = True
        elif p.kind == p.KEYWORD_ONLY:
            if not star:
                params.append("*")
                star = True
            params.append(p.name + d)
            call.append("%s=%s" % (p.name, p.name))
        else:
            params.append("**" + p.name)
            call.append("**" + p.name)
    src = "def %s(%s):\n    return _hook(%s)\n" % (fn.__name__, ", ".join(params), ", ".join(call))
    ns = dict(defaults, _hook=lambda *a, **k: hook(fn, a, k))
    exec(compile(src, "<recycle:%s>" % fn.__name__, "exec"), ns)
    w = ns[fn.__name__]
    w.__module__ = fn.__module__
    w.__doc__ = fn.__doc__
    w.__qualname__ = fn.__qualname__
    w._recycle_real = fn
    return w


_STATE = {"on": False, "mode": "both", "depth": 0}
_SENTINEL = {}


def _hook(fn, args, kwargs):
    if not _STATE["on"] or _STATE["depth"] >= 2:        # nested library calls below the second level run as they are
        return fn(*args, **kwargs)
    if any(hasattr(a, "read") for a in list(args) + list(kwargs.values())):
        return fn(*args, **kwargs)    # a stream is consumed by reading it: no warm-up call on file objects
    mode = _STATE["mode"]
    rec = _Recycler()
    key = (fn.__module__, fn.__name__)
    _STATE["depth"] += 1
    try:
        wa = tuple(rec.put(key + (i,), _variant(a, mode)) for i, a in enumerate(args))
        wk = {k: rec.put(key + (k,), _variant(v, mode)) for k, v in kwargs.items()}
        try:
            fn(*wa, **wk)
        except Exception:  # noqa: BLE001 - the warm-up call only has to have happened
            pass
        ra = tuple(rec.put(key + (i,), a) for i, a in enumerate(args))
        rk = {k: rec.put(key + (k,), v) for k, v in kwargs.items()}
        return fn(*ra, **rk)
    finally:
        _STATE["depth"] -= 1


def _install():
    """wrap the public functions of the loaded mir_eval modules (idempotent; modules re-executed since the last call are
    wrapped again).  With `_STATE["on"]` false a wrapper only forwards the call."""
    for name, mod in list(sys.modules.items()):
        if not name.startswith("mir_eval.") or name in ("mir_eval.display",) or mod is None:
            continue
        s = _SENTINEL.get(name)
        if s is not None and hasattr(vars(mod).get(s), "_recycle_real"):
            continue            # still wrapped (a re-executed module has fresh, unwrapped functions)
        for attr, obj in list(vars(mod).items()):
            if (isinstance(obj, types.FunctionType) and obj.__module__ == name and not attr.startswith("_")
                    and not hasattr(obj, "__wrapped__") and not hasattr(obj, "_recycle_real")):
                try:
                    w = _make_wrapper(obj, _hook)
                except Exception:  # noqa: BLE001 - a signature we cannot reproduce: leave the function alone
                    continue
                setattr(mod, attr, w)
                _SENTINEL[name] = attr


@contextlib.contextmanager
def recycling(mode="both"):
    _install()
    old = (_STATE["on"], _STATE["mode"])
    _STATE["on"], _STATE["mode"] = True, mode
    try:
        yield
    finally:
        _STATE["on"], _STATE["mode"] = old


def mode_for(index):
    return _MODES[index % 3]
