"""Region predicates of known findings (complements of the `_partial` hypotheses).

A region takes the failing input (JSON-able) and the failure text and answers: is this failure inside the
region that the known finding describes?  Regions look at the *input* with independent, simple code.
"""
from fractions import Fraction as Fr

REGIONS = {}


def region(name):
    def deco(fn):
        REGIONS[name] = fn
        return fn
    return deco


def F(x):
    return Fr(x)


def _n_points(pats):
    return sum(len(occ) for pat in pats for occ in pat)


def _num(x):
    from fractions import Fraction
    return Fraction(x)          # 'p/q' strings, ints, and floats (exact binary value)


def _flat(v):
    for x in v:
        if isinstance(x, (list, tuple)):
            yield from _flat(x)
        else:
            yield _num(x)


# ---------------------------------------------------------------------------------------------
def _frame_labels(ivs, labs, n, frame):
    """label of the interval containing k*frame (later interval wins at a shared boundary); None outside"""
    out = []
    for k in range(n):
        t = frame * k
        lab = None
        for (a, b), l in zip(ivs, labs):
            if F(a) <= t <= F(b):
                lab = ("L", str(l).lower())
        if lab is None:
            lab = ("PAD", "before" if (not ivs or t < F(ivs[0][0])) else "after")
        out.append(lab)
    return out


def _segment_frames(inp, frame=Fr(1, 4)):
    (ri, rl), (ei, el) = inp["ref"], inp["est"]
    if not ri:
        return None
    end = max(F(b) for _, b in ri)
    n = int(end / frame)
    return _frame_labels(ri, rl, n, frame), _frame_labels(ei, el, n, frame)


@region("segment_side_without_agreeing_pair")
def segment_side_without_agreeing_pair(inp, what=""):
    """pairwise / Rand are 0/0 when a side has no two frames carrying the same label (or < 2 frames)"""
    if not ("Pairwise" in what or "Rand Index" in what) or "nan" not in what:
        return False
    fr = _segment_frames(inp)
    if fr is None:
        return False
    rf, ef = fr
    return len(rf) < 2 or len(set(rf)) == len(rf) or len(set(ef)) == len(ef)


@region("segment_single_label_side_nmi_noise")
def segment_single_label_side_nmi_noise(inp, what=""):
    """NMI = rounding-level MI / floored denominator when one side carries a single label"""
    if "Normalized Mutual Information" not in what:
        return False
    fr = _segment_frames(inp)
    if fr is None:
        return False
    rf, ef = fr
    try:
        val = float(what.split("=")[1].split()[0])
    except Exception:  # noqa: BLE001
        return False
    return (len(set(rf)) <= 1 or len(set(ef)) <= 1) and -1e-4 < val < 0


# ---------------------------------------------------------------------------------------------
def _proto_sig(p):
    o = p[0]
    return (len(o), tuple((F(t) - F(o[0][0]), m - o[0][1]) for t, m in o))


@region("pattern_several_refs_match_one_estimate")
def pattern_several_refs_match_one_estimate(inp, what=""):
    """standard_FPR counts matched *reference* patterns for precision too: two reference prototypes that are
    translations of the same estimated prototype give precision > 1"""
    if not any(k in what for k in ("pattern['F']", "pattern['P']")):
        return False
    est_sigs = {_proto_sig(p) for p in inp["est"]}
    k = sum(1 for p in inp["ref"] if _proto_sig(p) in est_sigs)
    return k > len(inp["est"])


# ---------------------------------------------------------------------------------------------
@region("cemgil_more_reference_than_estimated_beats")
def cemgil_more_reference_than_estimated_beats(inp, what=""):
    """Cemgil normalises by the mean of the two counts: with more reference beats (or beats of a metrical
    variation) than estimated beats, several of them share one estimated beat and the score can exceed 1"""
    ref = [F(x) for x in inp["ref"] if F(x) >= 5]
    est = [F(x) for x in inp["est"] if F(x) >= 5]
    if "Cemgil Best Metric Level" in what:
        return 2 * len(ref) - 1 > len(est) > 0
    if "Cemgil" in what:
        return len(ref) > len(est) > 0
    return False


# ---------------------------------------------------------------------------------------------
# C14
@region("beat_reference_beats_in_one_sample")
def beat_reference_beats_in_one_sample(inp, what=""):
    """p_score: >= 2 trimmed reference beats that all fall into one 10 ms sample -> median of an empty
    inter-annotation-interval list is NaN -> int(NaN)"""
    if inp.get("fault") or inp["entry"] not in ("evaluate", "p_score") or "NaN" not in what:
        return False
    ref = [F(x) for x in inp["base"]["ref"]]
    est = [F(x) for x in inp["base"]["est"]]
    if inp["entry"] == "evaluate":
        ref = [x for x in ref if x >= 5]
        est = [x for x in est if x >= 5]
    if len(ref) < 2 or len(est) < 2:
        return False
    off = min(min(ref), min(est))
    import math
    return len({math.ceil((x - off) * 100) for x in ref}) == 1


@region("estimate_boundary_on_reference_limit")
def estimate_boundary_on_reference_limit(inp, what=""):
    """util.adjust_intervals keeps an estimate interval that ends exactly at t_min or starts exactly at t_max as a
    zero-length interval, which the later validation rejects"""
    if inp.get("fault") or inp["entry"] != "evaluate" or "strictly positive" not in what:
        return False
    ri, ei = inp["base"]["ref"][0], inp["base"]["est"][0]
    if not ri or not ei:
        return False
    tmax = max(F(b) for _, b in ri)
    tmin = min(F(a) for a, _ in ri) if inp["task"] == "chord" else Fr(0)
    return any(F(a) == tmax for a, _ in ei) or any(F(b) == tmin for _, b in ei) \
        or all(F(b) <= tmin for _, b in ei)


@region("chord_reference_zero_span")
def chord_reference_zero_span(inp, what=""):
    """a reference consisting of one interval of zero duration: chord.evaluate fails with TypeError"""
    return inp.get("fault") == "reference_zero_duration" and len(inp["base"]["ref"][0]) == 1 and "TypeError" in what


@region("beat_evaluate_two_dimensional")
def beat_evaluate_two_dimensional(inp, what=""):
    """beat.evaluate trims with a boolean mask before validating, which flattens a 2-D array"""
    return inp["task"] == "beat" and inp["entry"] == "evaluate" and str(inp.get("fault", "")).startswith("two_dimensional") \
        and "returned a result" in what


@region("multipitch_negative_frequency")
def multipitch_negative_frequency(inp, what=""):
    """util.validate_frequencies applies np.abs even with allow_negatives=False"""
    return inp["task"] == "multipitch" and str(inp.get("fault", "")).startswith("negative_frequency") \
        and "returned a result" in what


@region("c10_trailing_newline")
def c10_trailing_newline(inp, what=""):
    """C10 / chord.validate_chord_label: a derivable label followed by exactly one final "\\n"
    (complement of the hypothesis of Mir.C10.validate_iff_grammar_partial, intersected with acceptance)."""
    from props.c10 import grammar
    s = inp["label"]
    return isinstance(s, str) and s.endswith("\n") and grammar(s[:-1]) is not None


@region("multipitch_allclose_unequal_timebase")
def multipitch_allclose_unequal_timebase(inp, what=""):
    """C18 / multipitch.metrics: the two time bases have the same size and are not equal, yet np.allclose(est, ref)
    (|est-ref| <= 1e-8 + 1e-5*|ref|) holds, so the estimate is NOT resampled and frames are compared by index.
    Complement of the hypothesis `timeBasesDiffer rt et = true` of Mir.C18.resampled_when_time_bases_differ_partial."""
    from fractions import Fraction as Fr
    rt = [Fr(x) for x in inp["ref_time"]]
    et = [Fr(x) for x in inp["est_time"]]
    if len(rt) != len(et) or rt == et:
        return False
    return all(abs(e - r) <= Fr(1, 10 ** 8) + Fr(1, 10 ** 5) * abs(r) for e, r in zip(et, rt))


@region("beat.cemgil.more_ref_than_est")
def _beat_cemgil_more_ref(inp, what=""):
    """complement of the hypothesis of C01.Beat.cemgil_le_one_partial: |ref| <= |est|"""
    return len(inp["ref"]) > len(inp["est"])


@region("beat.cemgil.variation_longer_than_est")
def _beat_cemgil_best(inp, what=""):
    """complement of the hypothesis of C01.Beat.cemgil_best_le_one_partial: 2|ref| - 1 <= |est|"""
    return 2 * len(inp["ref"]) - 1 > len(inp["est"])


@region("beat.p_score.single_reference_sample")
def _beat_pscore_single_sample(inp, what=""):
    """>= 2 reference and >= 2 estimated beats, and all reference beats fall on ONE 10 ms sample of the impulse
    train (np.median of an empty interval array is nan; int(nan) raises)"""
    import math
    ref, est = inp["ref"], inp["est"]
    if len(ref) < 2 or len(est) < 2:
        return False
    off = min(min(ref), min(est))
    return len({math.ceil((r - off) * 100) for r in ref}) == 1


@region("melody_voiced_frame_at_base_frequency")
def melody_voiced_frame_at_base_frequency(inp, what=""):
    """some reference frequency is exactly +-base_frequency (default 10 Hz): hz2cents maps it to 0 cents, which
    the pitch measures read as 'no pitch' (complement of the hypothesis of C02 `melody_self_partial`)"""
    base = inp.get("base_frequency") or 10.0
    return any(abs(f) == base for f in inp["rf"])


@region("melody_transformed_frequency_at_base_frequency")
def melody_transformed_frequency_at_base_frequency(inp, what=""):
    """a frequency is exactly +-base_frequency before or after the transformation under test (octave shift of the
    estimate by inp['octaves'], common factor inp['factor']): it then reads as 'no pitch'"""
    base = inp.get("base_frequency") or 10.0
    k, c = inp.get("octaves", 0), inp.get("factor", 1.0)
    fs = [abs(f) for f in inp["rf"]] + [abs(f) for f in inp["ef"]]
    return (any(f == base or f * c == base for f in fs)
            or any(abs(f) * 2.0 ** k == base for f in inp["ef"]))


@region("adjust_zero_length")
def adjust_zero_length(inp, what=""):
    """complement of the hypotheses of Mir.C13.adjust_posdur_partial: an input interval ends exactly at t_min,
    or starts exactly at t_max, or no interval ends after t_min (all intervals lie before t_min)."""
    iv = inp["intervals"]
    a, b = inp["t_min"], inp["t_max"]
    if a is not None and (any(e == a for _, e in iv) or not any(e > a for _, e in iv)):
        return True
    if b is not None and any(s == b for s, _ in iv):
        return True
    return False


@region("adjust_gap_straddle")
def adjust_gap_straddle(inp, what=""):
    """complement of the hypotheses of Mir.C13.adjust_labelAt_partial: t_min or t_max lies strictly inside an
    internal gap (after the end of one input interval and before the start of the next)."""
    iv = inp["intervals"]
    for t in (inp["t_min"], inp["t_max"]):
        if t is None:
            continue
        for (_, e0), (s1, _) in zip(iv[:-1], iv[1:]):
            if e0 < t < s1:
                return True
    return False


@region("pattern_standard_nref_gt_nest")
def pattern_standard_nref_gt_nest(inp, what=""):
    """complement of the hypothesis of C01.Pattern.standard_precision_partial: more reference than estimated patterns"""
    return len(inp["ref"]) > len(inp["est"])


@region("pattern_empty_side")
def pattern_empty_side(inp, what=""):
    """one of the two pattern lists contains no point at all (the early `return 0., 0., 0.` of the first_n functions)"""
    return _n_points(inp["ref"]) == 0 or _n_points(inp["est"]) == 0


@region("window_tie_within_rounding")
def window_tie_within_rounding(inp, what=""):
    """some reference/estimate event pair has |r - e| within 1e-9 of the window WITHOUT being exactly on it
    (exact arithmetic on the doubles the code receives): the code decides such a pair by
    `est - w <= ref <= est + w` in binary64, so swapping the roles (or shifting the origin) can flip the hit.
    Exact coincidences (dyadic lattice) are NOT in the region."""
    w = _num(inp["w"])
    ref, est = list(_flat(inp["ref"])), list(_flat(inp["est"]))
    eps = _num(1) / 10 ** 9
    for r in ref:
        for e in est:
            d = abs(abs(r - e) - w)
            if 0 < d <= eps:
                return True
    return False


@region("c20_patterns_short_row")
def c20_patterns_short_row(inp, what=""):
    """load_patterns: some data line (no 'pattern'/'occurrence' in it) has no comma, and every data line before it
    is well formed -> `string_values[1]` raises IndexError (complement of `patterns_error_partial`'s hypothesis)."""
    if inp.get("loader") != "load_patterns":
        return False

    def ok(x):
        try:
            float(x)
            return True
        except ValueError:
            return False
    for line in inp["content"].split("\n"):
        if line == "" or "pattern" in line or "occurrence" in line:
            continue
        parts = line.split(",")
        if not ok(parts[0]):
            return False
        if len(parts) < 2:
            return True
        if not ok(parts[1]):
            return False
    return False


@region("c20_ragged_text_header")
def c20_ragged_text_header(inp, what=""):
    """load_ragged_time_series(header=True) on a file whose first line is a header row: not a comment and its first
    field is not a number."""
    import re
    if inp.get("loader") != "load_ragged_time_series" or not inp.get("params", {}).get("header"):
        return False
    p = inp["params"]
    lines = inp["content"].split("\n")
    if not lines or lines[0].strip() == "":
        return False
    first = lines[0]
    if p.get("comment") is not None and re.match("^" + p["comment"], first):
        return False
    tok = re.split(p["delim"], first.strip())[0]
    try:
        float(tok)
        return False
    except ValueError:
        return True
