"""Region predicates of known findings (complements of the `_partial` hypotheses).

A region takes the failing input (JSON-able) and the failure text and answers: is this failure inside the
region that the known finding describes?  Regions look at the *input* with independent, simple code.
"""
from fractions import Fraction as Fr

REGIONS = {}


def region(name):
    def deco(fn):
        REGIONS[name] = fn
        return fn
    return deco


def F(x):
    return Fr(x)


# ---------------------------------------------------------------------------------------------
def _frame_labels(ivs, labs, n, frame):
    """label of the interval containing k*frame (later interval wins at a shared boundary); None outside"""
    out = []
    for k in range(n):
        t = frame * k
        lab = None
        for (a, b), l in zip(ivs, labs):
            if F(a) <= t <= F(b):
                lab = ("L", str(l).lower())
        if lab is None:
            lab = ("PAD", "before" if (not ivs or t < F(ivs[0][0])) else "after")
        out.append(lab)
    return out


def _segment_frames(inp, frame=Fr(1, 4)):
    (ri, rl), (ei, el) = inp["ref"], inp["est"]
    if not ri:
        return None
    end = max(F(b) for _, b in ri)
    n = int(end / frame)
    return _frame_labels(ri, rl, n, frame), _frame_labels(ei, el, n, frame)


@region("segment_side_without_agreeing_pair")
def segment_side_without_agreeing_pair(inp, what=""):
    """pairwise / Rand are 0/0 when a side has no two frames carrying the same label (or < 2 frames)"""
    if not ("Pairwise" in what or "Rand Index" in what) or "nan" not in what:
        return False
    fr = _segment_frames(inp)
    if fr is None:
        return False
    rf, ef = fr
    return len(rf) < 2 or len(set(rf)) == len(rf) or len(set(ef)) == len(ef)


@region("segment_single_label_side_nmi_noise")
def segment_single_label_side_nmi_noise(inp, what=""):
    """NMI = rounding-level MI / floored denominator when one side carries a single label"""
    if "Normalized Mutual Information" not in what:
        return False
    fr = _segment_frames(inp)
    if fr is None:
        return False
    rf, ef = fr
    try:
        val = float(what.split("=")[1].split()[0])
    except Exception:  # noqa: BLE001
        return False
    return (len(set(rf)) <= 1 or len(set(ef)) <= 1) and -1e-4 < val < 0


# ---------------------------------------------------------------------------------------------
def _proto_sig(p):
    o = p[0]
    return (len(o), tuple((F(t) - F(o[0][0]), m - o[0][1]) for t, m in o))


@region("pattern_several_refs_match_one_estimate")
def pattern_several_refs_match_one_estimate(inp, what=""):
    """standard_FPR counts matched *reference* patterns for precision too: two reference prototypes that are
    translations of the same estimated prototype give precision > 1"""
    if not any(k in what for k in ("pattern['F']", "pattern['P']")):
        return False
    est_sigs = {_proto_sig(p) for p in inp["est"]}
    k = sum(1 for p in inp["ref"] if _proto_sig(p) in est_sigs)
    return k > len(inp["est"])


# ---------------------------------------------------------------------------------------------
@region("cemgil_more_reference_than_estimated_beats")
def cemgil_more_reference_than_estimated_beats(inp, what=""):
    """Cemgil normalises by the mean of the two counts: with more reference beats (or beats of a metrical
    variation) than estimated beats, several of them share one estimated beat and the score can exceed 1"""
    ref = [F(x) for x in inp["ref"] if F(x) >= 5]
    est = [F(x) for x in inp["est"] if F(x) >= 5]
    if "Cemgil Best Metric Level" in what:
        return 2 * len(ref) - 1 > len(est) > 0
    if "Cemgil" in what:
        return len(ref) > len(est) > 0
    return False


@region("information_gain_all_backward_intervals_zero")
def information_gain_all_backward_intervals_zero(inp, what=""):
    """information gain is nan iff the backward error histogram is empty: every (trimmed) reference beat is
    measured against an inter-beat interval of length 0 of the (trimmed) estimated sequence"""
    if "Information gain" not in what or "nan" not in what:
        return False
    ref = [F(x) for x in inp["ref"] if F(x) >= 5]
    est = [F(x) for x in inp["est"] if F(x) >= 5]
    if len(ref) < 2 or len(est) < 2:
        return False
    for r in ref:
        d = [r - e for e in est]
        c = min(range(len(d)), key=lambda i: (abs(d[i]), i))      # np.argmin: first minimum
        if c == len(est) - 1:
            iv = est[-1] - est[-2]
        elif d[c] < 0:
            iv = est[c] - est[c - 1]        # c == 0 wraps to est[-1], as in the code
        else:
            iv = est[c + 1] - est[c]
        if iv != 0:
            return False
    return True


# ---------------------------------------------------------------------------------------------
# C14
@region("beat_reference_beats_in_one_sample")
def beat_reference_beats_in_one_sample(inp, what=""):
    """p_score: >= 2 trimmed reference beats that all fall into one 10 ms sample -> median of an empty
    inter-annotation-interval list is NaN -> int(NaN)"""
    if inp.get("fault") or inp["entry"] not in ("evaluate", "p_score") or "NaN" not in what:
        return False
    ref = [F(x) for x in inp["base"]["ref"]]
    est = [F(x) for x in inp["base"]["est"]]
    if inp["entry"] == "evaluate":
        ref = [x for x in ref if x >= 5]
        est = [x for x in est if x >= 5]
    if len(ref) < 2 or len(est) < 2:
        return False
    off = min(min(ref), min(est))
    import math
    return len({math.ceil((x - off) * 100) for x in ref}) == 1


@region("estimate_boundary_on_reference_limit")
def estimate_boundary_on_reference_limit(inp, what=""):
    """util.adjust_intervals keeps an estimate interval that ends exactly at t_min or starts exactly at t_max as a
    zero-length interval, which the later validation rejects"""
    if inp.get("fault") or inp["entry"] != "evaluate" or "strictly positive" not in what:
        return False
    ri, ei = inp["base"]["ref"][0], inp["base"]["est"][0]
    if not ri or not ei:
        return False
    tmax = max(F(b) for _, b in ri)
    tmin = min(F(a) for a, _ in ri) if inp["task"] == "chord" else Fr(0)
    return any(F(a) == tmax for a, _ in ei) or any(F(b) == tmin for _, b in ei) \
        or all(F(b) <= tmin for _, b in ei)


@region("estimate_entirely_outside_reference_span")
def estimate_entirely_outside_reference_span(inp, what=""):
    """every estimate interval lies at or before the reference start, or at or after its end: adjust_intervals has
    nothing to keep and collapses the intervals to zero length"""
    if inp.get("fault") or inp["entry"] != "evaluate" or "strictly positive" not in what:
        return False
    ri, ei = inp["base"]["ref"][0], inp["base"]["est"][0]
    if not ri or not ei:
        return False
    tmax = max(F(b) for _, b in ri)
    tmin = min(F(a) for a, _ in ri) if inp["task"] == "chord" else Fr(0)
    return all(F(b) <= tmin for _, b in ei) or all(F(a) >= tmax for a, _ in ei)


@region("melody_empty_series")
def melody_empty_series(inp, what=""):
    """melody.evaluate / to_cent_voicing index time[0] of an empty reference or estimate series (IndexError), although
    the frame measures themselves define a score (0, with a warning) for empty arrays"""
    if inp.get("fault") or inp["task"] != "melody" or "IndexError" not in what:
        return False
    return len(inp["base"]["ref"][0]) == 0 or len(inp["base"]["est"][0]) == 0


@region("segment_ends_allclose_but_other_frame_count")
def segment_ends_allclose_but_other_frame_count(inp, what=""):
    """validate_structure accepts end times that agree up to np.allclose, but the frame-based metrics then sample a
    different number of frames on the two sides and fail with ValueError (shape mismatch)"""
    if inp.get("fault") or inp["task"] != "segment" or inp["entry"] in ("evaluate", "detection", "deviation"):
        return False
    if "ValueError" not in what:
        return False
    ri, ei = inp["base"]["ref"][0], inp["base"]["est"][0]
    if not ri or not ei:
        return False
    a, b = F(ri[-1][1]), F(ei[-1][1])
    fs = Fr(str((inp.get("kw") or {}).get("frame_size", 0.1)))
    return a != b and abs(a - b) <= Fr(1, 10 ** 8) + Fr(1, 10 ** 5) * abs(b) and int(a / fs) != int(b / fs)


@region("chord_reference_zero_span")
def chord_reference_zero_span(inp, what=""):
    """a reference consisting of one interval of zero duration: chord.evaluate fails with TypeError"""
    return inp.get("fault") == "reference_zero_duration" and len(inp["base"]["ref"][0]) == 1 and "TypeError" in what


@region("beat_evaluate_two_dimensional")
def beat_evaluate_two_dimensional(inp, what=""):
    """beat.evaluate trims with a boolean mask before validating, which flattens a 2-D array"""
    return inp["task"] == "beat" and inp["entry"] == "evaluate" and str(inp.get("fault", "")).startswith("two_dimensional") \
        and "returned a result" in what


@region("multipitch_negative_frequency")
def multipitch_negative_frequency(inp, what=""):
    """util.validate_frequencies applies np.abs even with allow_negatives=False"""
    return inp["task"] == "multipitch" and str(inp.get("fault", "")).startswith("negative_frequency") \
        and "returned a result" in what


# ---------------------------------------------------------------------------------------------
# region predicates written with the property slices live in harness/regions_<slice>.py (same REGIONS/region API)
def _load_slices():
    import glob
    import importlib.util
    import inspect
    import os
    here = os.path.dirname(os.path.abspath(__file__))
    for f in sorted(glob.glob(os.path.join(here, "regions_*.py"))):
        spec = importlib.util.spec_from_file_location(os.path.basename(f)[:-3], f)
        mod = importlib.util.module_from_spec(spec)
        spec.loader.exec_module(mod)
        for name, fn in mod.REGIONS.items():
            if name in REGIONS:
                continue
            if len(inspect.signature(fn).parameters) == 1:
                REGIONS[name] = (lambda g: (lambda inp, what="": g(inp)))(fn)
            else:
                REGIONS[name] = fn


_load_slices()


@region("beat.p_score.window_reaches_train_length")
def beat_pscore_window_reaches_train_length(inp, what=""):
    """p_score's correlation window (round(threshold * median reference interval), in 10 ms samples) is at least the
    length of the impulse trains, so the slice start middle_lag - win_size is negative and Python wraps it around
    (complement of the hypothesis `win < N` of C04.Beat.pscore_correlation_spec / pscore_correlation_partial)"""
    import math
    ref, est, thr = [F(v) for v in inp["ref"]], [F(v) for v in inp["est"]], F(inp["thr"])
    if len(ref) < 2 or len(est) < 2:
        return False
    off = min(ref + est)
    n = math.ceil(max(ref + est) - off) * 100 + 1
    ri = sorted(set(math.ceil((v - off) * 100) for v in ref))
    d = sorted(b - a for a, b in zip(ri, ri[1:]))
    if not d:
        return False
    med = F(d[len(d) // 2]) if len(d) % 2 else F(d[len(d) // 2 - 1] + d[len(d) // 2]) / 2
    return round(thr * med) >= n
