"""Region predicates of known findings (complements of the `_partial` hypotheses)."""
REGIONS = {}


def region(name):
    def deco(fn):
        REGIONS[name] = fn
        return fn
    return deco


@region("beat.cemgil.more_ref_than_est")
def _beat_cemgil_more_ref(inp, what=""):
    """complement of the hypothesis of C01.Beat.cemgil_le_one_partial: |ref| <= |est|"""
    return len(inp["ref"]) > len(inp["est"])


@region("beat.cemgil.variation_longer_than_est")
def _beat_cemgil_best(inp, what=""):
    """complement of the hypothesis of C01.Beat.cemgil_best_le_one_partial: 2|ref| - 1 <= |est|"""
    return 2 * len(inp["ref"]) - 1 > len(inp["est"])
