"""Region predicates of known findings (complements of the `_partial` hypotheses)."""
REGIONS = {}


def region(name):
    def deco(fn):
        REGIONS[name] = fn
        return fn
    return deco


@region("beat.cemgil.more_ref_than_est")
def _beat_cemgil_more_ref(inp, what=""):
    """complement of the hypothesis of C01.Beat.cemgil_le_one_partial: |ref| <= |est|"""
    return len(inp["ref"]) > len(inp["est"])


@region("beat.cemgil.variation_longer_than_est")
def _beat_cemgil_best(inp, what=""):
    """complement of the hypothesis of C01.Beat.cemgil_best_le_one_partial: 2|ref| - 1 <= |est|"""
    return 2 * len(inp["ref"]) - 1 > len(inp["est"])


@region("beat.p_score.single_reference_sample")
def _beat_pscore_single_sample(inp, what=""):
    """>= 2 reference and >= 2 estimated beats, and all reference beats fall on ONE 10 ms sample of the impulse
    train (np.median of an empty interval array is nan; int(nan) raises)"""
    import math
    ref, est = inp["ref"], inp["est"]
    if len(ref) < 2 or len(est) < 2:
        return False
    off = min(min(ref), min(est))
    return len({math.ceil((r - off) * 100) for r in ref}) == 1
