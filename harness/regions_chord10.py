"""Region predicates of known findings (complements of the `_partial` hypotheses)."""
REGIONS = {}


def region(name):
    def deco(fn):
        REGIONS[name] = fn
        return fn
    return deco


@region("c10_trailing_newline")
def c10_trailing_newline(inp):
    """C10 / chord.validate_chord_label: a derivable label followed by exactly one final "\\n"
    (complement of the hypothesis of Mir.C10.validate_iff_grammar_partial, intersected with acceptance)."""
    from props.c10 import grammar
    s = inp["label"]
    return isinstance(s, str) and s.endswith("\n") and grammar(s[:-1]) is not None
