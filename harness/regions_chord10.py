"""Region predicates of known findings (complements of the `_partial` hypotheses).

The chord-label slice (C10) has no open finding: its only one (trailing newline accepted by CHORD_RE) was repaired
by `fix: chord label validation no longer accepts a trailing newline`; the entry in known_findings.json is
"fixed" and its witness is re-run as a regression test, so no region predicate is needed any more.
"""
REGIONS = {}


def region(name):
    def deco(fn):
        REGIONS[name] = fn
        return fn
    return deco
