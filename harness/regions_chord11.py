"""Region predicates of known findings (complements of the `_partial` hypotheses)."""
REGIONS = {}


def region(name):
    def deco(fn):
        REGIONS[name] = fn
        return fn
    return deco


@region("majmin_inv_bass_above_fifth")
def majmin_inv_bass_above_fifth(inp, what=""):
    """C11 / chord.majmin_inv: the reference label's bass lies 8..11 semitones above the root (b6, 6, b7, 7 and
    their respellings), i.e. beyond the `[:8]` prefix that majmin_inv inspects.
    Complement of the hypothesis `a.bass < 8` of `Mir.C11.majmin_inv_vocab_partial`."""
    import chordlabels
    b = chordlabels.bass_semitone(inp["ref"])
    return b is not None and b >= 8
