"""Region predicates of known findings (complements of the `_partial` hypotheses)."""
REGIONS = {}


def region(name):
    def deco(fn):
        REGIONS[name] = fn
        return fn
    return deco


# ---------------------------------------------------------------------------------------------------
# C15 (evaluation is pure): all findings of this slice were repaired by `fix:` commits (c44e6a6, aa0fc9a,
# b910d54); their entries in known_findings.json are "fixed" (the region names there are labels only), so no
# region predicate is needed any more.
