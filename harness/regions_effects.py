"""Region predicates of known findings (complements of the `_partial` hypotheses)."""
REGIONS = {}


def region(name):
    def deco(fn):
        REGIONS[name] = fn
        return fn
    return deco


# ---------------------------------------------------------------------------------------------------
# C15 (evaluation is pure).  An oracle input is {"fn", "seed"} or {"fn", "lit"}; the arguments are
# regenerated with harness/props/c15.make_args and bound to the parameter names.

def _c15_bound(inp):
    import inspect
    from props import c15
    f = c15.get_function(inp["fn"])
    args, kwargs = c15.make_args(inp)
    ba = inspect.signature(f).bind_partial(*args, **kwargs)
    out = dict(ba.arguments)
    for p in inspect.signature(f).parameters.values():
        if p.kind == p.VAR_KEYWORD and p.name in out:
            out.update(out.pop(p.name))
        elif p.name not in out and p.default is not p.empty:
            out[p.name] = p.default
    return out


@region("c15_voicing_given")
def c15_voicing_given(inp):
    """melody.freq_to_voicing writes `voicing[frequencies == 0] = 0` into the caller's array"""
    return _c15_bound(inp).get("voicing") is not None


@region("c15_est_voicing_or_ref_reward_given")
def c15_est_voicing_or_ref_reward_given(inp):
    """melody.to_cent_voicing / melody.evaluate hand the caller's est_voicing / ref_reward to freq_to_voicing"""
    a = _c15_bound(inp)
    return a.get("est_voicing") is not None or a.get("ref_reward") is not None


@region("c15_labels_not_resliced")
def c15_labels_not_resliced(inp):
    """util.adjust_intervals / adjust_events: `labels` is still the caller's list when insert/append runs:
    labels given and (t_min is None or nothing ends at/after t_min)"""
    import numpy as np
    a = _c15_bound(inp)
    if a.get("labels") is None:
        return False
    t_min = a.get("t_min")
    if t_min is None:
        return True
    if "intervals" in a:
        return not bool((np.asarray(a["intervals"])[:, 1] >= t_min).any())
    return not bool((np.asarray(a["events"]) >= t_min).any())


@region("c15_estimate_before_reference")
def c15_estimate_before_reference(inp):
    """chord.evaluate: every estimated interval ends before the reference starts, so adjust_intervals appends
    to the caller's est_labels"""
    import numpy as np
    a = _c15_bound(inp)
    return not bool((np.asarray(a["est_intervals"])[:, 1] >= np.asarray(a["ref_intervals"]).min()).any())


@region("c15_silent_window")
def c15_silent_window(inp):
    """separation.bss_eval_images_framewise (also through separation.evaluate): at least two windows and one of
    them has a silent source, so `isr[:, k]` is never written"""
    import numpy as np
    a = _c15_bound(inp)
    ref = np.atleast_3d(a["reference_sources"])
    est = np.atleast_3d(a["estimated_sources"])
    window = a.get("window", 30 * 44100)
    hop = a.get("hop", 15 * 44100)
    nwin = int(np.floor((ref.shape[1] - window + hop) / hop))
    if nwin < 2:
        return False

    def silent(s):
        return bool(np.any(np.all(np.sum(s, axis=tuple(range(2, s.ndim))) == 0, axis=1)))
    for k in range(nwin):
        sl = slice(k * hop, k * hop + window)
        if silent(ref[:, sl, :]) or silent(est[:, sl, :]):
            return True
    return False
