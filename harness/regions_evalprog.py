"""Region predicates of known findings (complements of the `_partial` hypotheses)."""
REGIONS = {}


def region(name):
    def deco(fn):
        REGIONS[name] = fn
        return fn
    return deco


# ---- C03 ------------------------------------------------------------------------------------------------
# pattern.evaluate assigns kwargs["thresh"]; occurrence_FPR's parameter is `thres` (Lean: routes_pattern_partial).
C03_OCC_KEYS = ("F_occ.5", "P_occ.5", "R_occ.5", "F_occ.75", "P_occ.75", "R_occ.75")
C03_FIRSTN_KEYS = ("FFP", "FFTP_est")


@region("c03_pattern_occurrence_threshold")
def c03_pattern_occurrence_threshold(inp, what=""):
    """pattern.evaluate inputs on which the ONLY deviation from the documented bundle is in the occurrence entries"""
    if inp.get("task") != "pattern":
        return False
    import warnings
    from props import c03
    with warnings.catch_warnings():
        warnings.simplefilter("ignore")
        return c03.check_evaluate(inp) is not None and c03.check_evaluate(inp, mask=C03_OCC_KEYS) is None


@region("c03_pattern_first_n_empty")
def c03_pattern_first_n_empty(inp, what=""):
    """pattern.evaluate with no reference or no estimated pattern: first_n_* return (0., 0., 0.) (Lean: arity_pattern_partial);
    nothing else may deviate"""
    if inp.get("task") != "pattern":
        return False
    d = inp.get("data") or {}
    if d.get("ref") and d.get("est"):
        return False
    import warnings
    from props import c03
    with warnings.catch_warnings():
        warnings.simplefilter("ignore")
        return c03.check_evaluate(inp, mask=C03_FIRSTN_KEYS) is None


@region("c03_metric_empty_tuple")
def c03_metric_empty_tuple(inp, what=""):
    """direct call of segment.rand_index / segment.ari / pattern.first_n_* on empty annotations (Lean: arity_*_partial)"""
    return bool(inp.get("empty")) and inp.get("fn") in (
        "segment.rand_index", "segment.ari", "pattern.first_n_three_layer_P", "pattern.first_n_target_proportion_R")
