"""Region predicates of the evalprog slice (C03) — none at present.

The three regions this slice used to define (`c03_pattern_occurrence_threshold`, `c03_pattern_first_n_empty`,
`c03_metric_empty_tuple`) described defects that were repaired in the library (commits 84ce008, e3a7cc5, 564d09a); their
known_findings.json entries are now `status: "fixed"` (a fixed entry suppresses nothing, its witness must pass), so no
predicate is referenced any more.
"""
REGIONS = {}


def region(name):
    def deco(fn):
        REGIONS[name] = fn
        return fn
    return deco
