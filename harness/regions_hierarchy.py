"""Region predicates of known findings (complements of the `_partial` hypotheses)."""
REGIONS = {}


def region(name):
    def deco(fn):
        REGIONS[name] = fn
        return fn
    return deco


# ---- C17 -------------------------------------------------------------------------------------------
@region("c17_single_frame_slice")
def c17_single_frame_slice(inp, what=""):
    """`_gauc` takes `.toarray().squeeze()` of the query's window slice; when that slice holds exactly one
    frame (query 0 with floor(window/frame_size) == 1, or a one-frame track) the result is 0-dimensional and
    `[:idx]` raises IndexError.  Complement of the hypothesis of `Mir.C17.gauc_total_partial` / the second branch of
    `Mir.C17.tmeasure_total_partial` (min(n, w) = 1 with n = frames of the track, w = window in frames)."""
    import math
    from fractions import Fraction as Fr
    if what and "raised IndexError" not in what:
        return False        # the finding is the IndexError; any other failure on these inputs is not listed
    fs = Fr(inp["frame_size"])
    if fs <= 0:
        return False
    window = inp.get("window", None)
    if window is not None and fs > Fr(window):
        return False
    bs = [Fr(x) for lv in inp["ref"] for iv in lv for x in iv]
    if not bs:
        return False
    n = math.floor(max(bs) / fs) - math.floor(min(bs) / fs)
    w = None if window is None else math.floor(Fr(window) / fs)
    return n >= 1 and (n == 1 or w == 1)
