"""Region predicates of known findings (complements of the `_partial` hypotheses) — hierarchy slice (C17).

No region is registered any more: the only C17 finding (`c17_single_frame_slice`, IndexError from `_gauc` when a
query's window slice held one frame) was repaired by commit a550b6d; its two entries in known_findings.json are
`status: "fixed"` (their witnesses are re-run on every check and must pass), and a fixed entry suppresses nothing.
"""
REGIONS = {}


def region(name):
    def deco(fn):
        REGIONS[name] = fn
        return fn
    return deco
