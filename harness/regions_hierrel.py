"""Region predicates of the known findings of the hierarchy / chord-level-scoring relational slice."""
from fractions import Fraction as Fr

REGIONS = {}


def region(name):
    def deco(fn):
        REGIONS[name] = fn
        return fn
    return deco


@region("wacc_comparable_weight_zero")
def wacc_comparable_weight_zero(inp, what=""):
    """some entry is comparable (comparison >= 0), the comparable entries have total weight 0, another entry has
    positive weight: weighted_accuracy divides 0 by 0 (complement of the hypothesis of
    C01.Chord.weighted_accuracy_range_partial / _pos)"""
    cs, ws = [Fr(c) for c in inp["cs"]], [Fr(w) for w in inp["ws"]]
    if len(cs) != len(ws) or any(w < 0 for w in ws):
        return False
    valid = [w for c, w in zip(cs, ws) if c >= 0]
    return bool(valid) and sum(valid) == 0 and sum(ws) > 0
