"""Region predicates of known findings (complements of the `_partial` hypotheses)."""
REGIONS = {}


def region(name):
    def deco(fn):
        REGIONS[name] = fn
        return fn
    return deco


# ---- C13: util.adjust_intervals (inputs: {"intervals": [[s,e],...], "labels": [...], "t_min": x|None, "t_max": x|None})

@region("adjust_all_before_tmin")
def adjust_all_before_tmin(inp):
    """complement of the hypothesis of Mir.C13.adjust_posdur_partial: no input interval ends after t_min
    (every interval lies before t_min; nothing is cropped and np.maximum collapses them to zero length).
    An interval that merely ends at t_min / starts at t_max is no longer in this region (repaired by b04f12e)."""
    iv = inp["intervals"]
    a = inp["t_min"]
    return a is not None and not any(e > a for _, e in iv)


@region("adjust_gap_straddle")
def adjust_gap_straddle(inp):
    """complement of the hypotheses of Mir.C13.adjust_labelAt_partial (NoStraddleMin t_min, NoStraddleMax t_max):
    t_min cuts an internal gap [e, s') with e <= t_min < s', or t_max cuts one with e < t_max <= s'
    (an interval ending exactly at t_min / starting exactly at t_max is dropped, which exposes the gap next to it)."""
    iv = inp["intervals"]
    a, b = inp["t_min"], inp["t_max"]
    for (_, e0), (s1, _) in zip(iv[:-1], iv[1:]):
        if a is not None and e0 <= a < s1:
            return True
        if b is not None and e0 < b <= s1:
            return True
    return False


# ---- C13: util.adjust_events (inputs: {"events": [t,...], "labels": [...], "t_min": x|None, "t_max": x|None})

@region("adjust_events_none_reach_tmin")
def adjust_events_none_reach_tmin(inp):
    """complement of the hypothesis of Mir.C13.adjust_events_spec / adjust_events_range_partial: t_min is given
    and no event time is >= t_min (Mir.C13.adjust_events_none_reach: nothing is removed, t_min is not added)."""
    a = inp["t_min"]
    return a is not None and not any(t >= a for t in inp["events"])


@region("adjust_events_none_below_tmax")
def adjust_events_none_below_tmax(inp):
    """complement of the hypothesis of Mir.C13.adjust_events_max_spec: t_min is None, t_max is given and every
    event lies after t_max (Mir.C13.adjust_events_max_raises: IndexError from events[-1] of the empty slice)."""
    a, b = inp["t_min"], inp["t_max"]
    return a is None and b is not None and not any(t <= b for t in inp["events"])
