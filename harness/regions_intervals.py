"""Region predicates of known findings (complements of the `_partial` hypotheses)."""
REGIONS = {}


def region(name):
    def deco(fn):
        REGIONS[name] = fn
        return fn
    return deco


# ---- C13: util.adjust_intervals (inputs: {"intervals": [[s,e],...], "labels": [...], "t_min": x|None, "t_max": x|None})

@region("adjust_zero_length")
def adjust_zero_length(inp):
    """complement of the hypotheses of Mir.C13.adjust_posdur_partial: an input interval ends exactly at t_min,
    or starts exactly at t_max, or no interval ends after t_min (all intervals lie before t_min)."""
    iv = inp["intervals"]
    a, b = inp["t_min"], inp["t_max"]
    if a is not None and (any(e == a for _, e in iv) or not any(e > a for _, e in iv)):
        return True
    if b is not None and any(s == b for s, _ in iv):
        return True
    return False


@region("adjust_gap_straddle")
def adjust_gap_straddle(inp):
    """complement of the hypotheses of Mir.C13.adjust_labelAt_partial: t_min or t_max lies strictly inside an
    internal gap (after the end of one input interval and before the start of the next)."""
    iv = inp["intervals"]
    for t in (inp["t_min"], inp["t_max"]):
        if t is None:
            continue
        for (_, e0), (s1, _) in zip(iv[:-1], iv[1:]):
            if e0 < t < s1:
                return True
    return False
