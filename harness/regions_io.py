"""Region predicates of known findings (complements of the `_partial` hypotheses)."""
REGIONS = {}


def region(name):
    def deco(fn):
        REGIONS[name] = fn
        return fn
    return deco


# ---- C20 (mir_eval.io) -------------------------------------------------------------------

@region("c20_patterns_short_row")
def c20_patterns_short_row(inp, what=""):
    """load_patterns: some data line (no 'pattern'/'occurrence' in it) has no comma, and every data line before it
    is well formed -> `string_values[1]` raises IndexError (complement of `patterns_error_partial`'s hypothesis)."""
    if inp.get("loader") != "load_patterns":
        return False

    def ok(x):
        try:
            float(x)
            return True
        except ValueError:
            return False
    for line in inp["content"].split("\n"):
        if line == "" or "pattern" in line or "occurrence" in line:
            continue
        parts = line.split(",")
        if not ok(parts[0]):
            return False
        if len(parts) < 2:
            return True
        if not ok(parts[1]):
            return False
    return False


@region("c20_ragged_text_header")
def c20_ragged_text_header(inp, what=""):
    """load_ragged_time_series(header=True) on a file whose first line is a header row: not a comment and its first
    field is not a number."""
    import re
    if inp.get("loader") != "load_ragged_time_series" or not inp.get("params", {}).get("header"):
        return False
    p = inp["params"]
    lines = inp["content"].split("\n")
    if not lines or lines[0].strip() == "":
        return False
    first = lines[0]
    if p.get("comment") is not None and re.match("^" + p["comment"], first):
        return False
    tok = re.split(p["delim"], first.strip())[0]
    try:
        float(tok)
        return False
    except ValueError:
        return True
