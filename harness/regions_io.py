"""Region predicates of known findings of the io slice (C20).

Both C20 findings (load_patterns single-column row, load_ragged_time_series header row) are repaired in the library
(fde71e7, 02e3fd0); their known_findings.json entries are "fixed" (witnesses re-run on every check, nothing is
suppressed), so no region predicate is needed any more.
"""
REGIONS = {}


def region(name):
    def deco(fn):
        REGIONS[name] = fn
        return fn
    return deco
