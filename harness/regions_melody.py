"""Region predicates of known findings (complements of the `_partial` hypotheses)."""
REGIONS = {}


def region(name):
    def deco(fn):
        REGIONS[name] = fn
        return fn
    return deco


@region("melody_voiced_frame_at_base_frequency")
def melody_voiced_frame_at_base_frequency(inp):
    """some reference frequency is exactly +-base_frequency (default 10 Hz): hz2cents maps it to 0 cents, which
    the pitch measures read as 'no pitch' (complement of the hypothesis of C02 `melody_self_partial`)"""
    base = inp.get("base_frequency") or 10.0
    return any(abs(f) == base for f in inp["rf"])


@region("melody_transformed_frequency_at_base_frequency")
def melody_transformed_frequency_at_base_frequency(inp):
    """a frequency is exactly +-base_frequency before or after the transformation under test (octave shift of the
    estimate by inp['octaves'], common factor inp['factor']): it then reads as 'no pitch'"""
    base = inp.get("base_frequency") or 10.0
    k, c = inp.get("octaves", 0), inp.get("factor", 1.0)
    fs = [abs(f) for f in inp["rf"]] + [abs(f) for f in inp["ef"]]
    return (any(f == base or f * c == base for f in fs)
            or any(abs(f) * 2.0 ** k == base for f in inp["ef"]))
