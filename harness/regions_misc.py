"""Region predicates of known findings (complements of the `_partial` hypotheses)."""
REGIONS = {}


def region(name):
    def deco(fn):
        REGIONS[name] = fn
        return fn
    return deco


# --- slice T_MISC (onset / boundary / tempo / alignment) ------------------------------------------------
def _num(x):
    from fractions import Fraction
    return Fraction(x)          # 'p/q' strings, ints, and floats (exact binary value)


def _flat(v):
    for x in v:
        if isinstance(x, (list, tuple)):
            yield from _flat(x)
        else:
            yield _num(x)


@region("window_tie_within_rounding")
def window_tie_within_rounding(inp, what=""):
    """some reference/estimate event pair has |r - e| within 1e-9 of the window WITHOUT being exactly on it
    (exact arithmetic on the doubles the code receives): the code decides such a pair by
    `est - w <= ref <= est + w` in binary64, so swapping the roles (or shifting the origin) can flip the hit.
    Exact coincidences (dyadic lattice) are NOT in the region."""
    w = _num(inp["w"])
    ref, est = list(_flat(inp["ref"])), list(_flat(inp["est"]))
    eps = _num(1) / 10 ** 9
    for r in ref:
        for e in est:
            d = abs(abs(r - e) - w)
            if 0 < d <= eps:
                return True
    return False
