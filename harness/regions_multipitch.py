"""Region predicates of known findings (complements of the `_partial` hypotheses)."""
REGIONS = {}


def region(name):
    def deco(fn):
        REGIONS[name] = fn
        return fn
    return deco


@region("multipitch_allclose_unequal_timebase")
def multipitch_allclose_unequal_timebase(inp, what=""):
    """C18 / multipitch.metrics: the two time bases have the same size and are not equal, yet np.allclose(est, ref)
    (|est-ref| <= 1e-8 + 1e-5*|ref|) holds, so the estimate is NOT resampled and frames are compared by index.
    Complement of the hypothesis `timeBasesDiffer rt et = true` of Mir.C18.resampled_when_time_bases_differ_partial."""
    from fractions import Fraction as Fr
    rt = [Fr(x) for x in inp["ref_time"]]
    et = [Fr(x) for x in inp["est_time"]]
    if len(rt) != len(et) or rt == et:
        return False
    return all(abs(e - r) <= Fr(1, 10 ** 8) + Fr(1, 10 ** 5) * abs(r) for e, r in zip(et, rt))
