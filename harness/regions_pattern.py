"""Region predicates of known findings (complements of the `_partial` hypotheses)."""
REGIONS = {}


def region(name):
    def deco(fn):
        REGIONS[name] = fn
        return fn
    return deco


@region("pattern_standard_nref_gt_nest")
def pattern_standard_nref_gt_nest(inp):
    """complement of the hypothesis of C01.Pattern.standard_precision_partial: more reference than estimated patterns"""
    return len(inp["ref"]) > len(inp["est"])
