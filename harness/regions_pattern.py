"""Region predicates of known findings (complements of the `_partial` hypotheses)."""
REGIONS = {}


def region(name):
    def deco(fn):
        REGIONS[name] = fn
        return fn
    return deco


def _n_points(pats):
    return sum(len(occ) for pat in pats for occ in pat)


@region("pattern_standard_nref_gt_nest")
def pattern_standard_nref_gt_nest(inp):
    """complement of the hypothesis of C01.Pattern.standard_precision_partial: more reference than estimated patterns"""
    return len(inp["ref"]) > len(inp["est"])


@region("pattern_empty_side")
def pattern_empty_side(inp):
    """one of the two pattern lists contains no point at all (the early `return 0., 0., 0.` of the first_n functions)"""
    return _n_points(inp["ref"]) == 0 or _n_points(inp["est"]) == 0
