"""Region predicates of known findings (complements of the `_partial` hypotheses)."""
REGIONS = {}


def region(name):
    def deco(fn):
        REGIONS[name] = fn
        return fn
    return deco


# ---------------------------------------------------------------------------------------------
# C08 (label renaming), segment: a frame that lies in no interval gets the fill value None from
# util.intervals_to_samples, and util.index_labels reads every label through str(.).lower(): the missing label and a
# segment label SPELLED "None" / "none" become one class.  Renaming that label to anything else (or another label to
# "none") separates / merges the two and changes every frame-clustering score.  Complement of the hypothesis `hnone` of
# Mir.C08.Segment.renamingFaithful_of_labels.
def _reads_none(lab):
    return str(lab).lower() == "none"


def _leaves_time_uncovered(ivs):
    """some part of [0, largest end] lies in no interval (exact arithmetic on the 'p/q' strings)"""
    from fractions import Fraction as Fr
    rows = sorted((Fr(a), Fr(b)) for a, b in ivs)
    reach = Fr(0)
    for a, b in rows:
        if a > reach:
            return True
        reach = max(reach, b)
    return False


@region("segment_none_label_with_unlabelled_frames")
def segment_none_label_with_unlabelled_frames(inp, what=""):
    if "label renaming" not in what:
        return False
    for side in ("ref", "est"):
        ivs, labs = inp[side]
        if ivs and any(_reads_none(x) for x in labs) and _leaves_time_uncovered(ivs):
            return True
    return False


# ---------------------------------------------------------------------------------------------
# C16, large scale: segment._adjusted_mutual_info_score casts the marginals to int32 and takes np.outer(a, b): as soon
# as (frames of one reference label) * (frames of one estimated label) >= 2^31 the product wraps, log() of it is nan or
# wrong, and so is the expected MI and the adjusted MI (nan, or a value above 1).  MI and NMI are not affected.
def _label_frames(rows, fs):
    """frames per label (modulo case) of a contiguous segmentation [[s, e, label]]: frame i sits at i * fs"""
    from fractions import Fraction as Fr
    out = {}
    for s, e, l in rows:
        k = -((-Fr(e)) // fs) - (-((-Fr(s)) // fs))
        out[str(l).lower()] = out.get(str(l).lower(), 0) + int(k)
    return out


@region("segment_ami_cluster_size_product_int32")
def segment_ami_cluster_size_product_int32(inp, what=""):
    from fractions import Fraction as Fr
    if "Adjusted Mutual Information" not in what or "ref" not in inp or "frame_size" not in inp:
        return False
    fs = Fr(inp["frame_size"])
    a, b = _label_frames(inp["ref"], fs), _label_frames(inp["est"], fs)
    return bool(a) and bool(b) and max(a.values()) * max(b.values()) >= 2 ** 31
