"""Region predicates of known findings (complements of the `_partial` hypotheses)."""
REGIONS = {}


def region(name):
    def deco(fn):
        REGIONS[name] = fn
        return fn
    return deco
