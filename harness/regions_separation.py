"""Region predicates of known findings (complements of the `_partial` hypotheses)."""
REGIONS = {}


def region(name):
    def deco(fn):
        REGIONS[name] = fn
        return fn
    return deco


# ---- C19 (mir_eval.separation) ---------------------------------------------------------

@region("c19_images_framewise_isr_silent_window")
def _c19_isr_silent(inp):
    """complement of `images_framewise_silent_nan_partial` (o != 1): the isr output on a window with a silent source"""
    return (inp.get("fn") == "images_framewise" and inp.get("check") == "fw_silent_nan_isr"
            and len(inp.get("silent") or []) > 0)


@region("c19_images_framewise_empty_arity")
def _c19_empty_arity(inp):
    """complement of the hypothesis of `images_framewise_arity_partial`: an empty input"""
    if not (inp.get("fn") == "images_framewise" and inp.get("check") == "arity_empty"):
        return False
    size = 1
    for d in inp.get("shape", [1]):
        size *= d
    return size == 0


@region("c19_images_scale_sdr_isr")
def _c19_scale_sdr_isr(inp):
    """outputs excluded from `image_crit_sir_sar_scale_partial`: SDR and ISR of bss_eval_images under rescaling"""
    return inp.get("fn") == "images" and inp.get("check") == "scale_sdr_isr" and inp.get("scale_factor") not in (None, 1, 1.0)


@region("c19_singular_system_numpy2")
def _c19_singular(inp):
    """exactly singular Gram matrix (dedicated oracle input; outside "sufficiently long" signals)"""
    return inp.get("fn") == "images" and inp.get("check") == "singular"
