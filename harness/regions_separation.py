"""Region predicates of known findings (complements of the `_partial` hypotheses)."""
REGIONS = {}


def region(name):
    def deco(fn):
        REGIONS[name] = fn
        return fn
    return deco


# ---- C19 (mir_eval.separation) ---------------------------------------------------------

@region("c19_images_scale_sdr_isr")
def _c19_scale_sdr_isr(inp):
    """outputs excluded from `image_crit_sir_sar_scale_partial`: SDR and ISR of bss_eval_images under rescaling"""
    return inp.get("fn") == "images" and inp.get("check") == "scale_sdr_isr" and inp.get("scale_factor") not in (None, 1, 1.0)
