"""Region predicates of known findings (complements of the `_partial` hypotheses)."""
REGIONS = {}


def region(name):
    def deco(fn):
        REGIONS[name] = fn
        return fn
    return deco


# ---- C19 (mir_eval.separation) ---------------------------------------------------------

@region("c19_images_scale_sdr_isr")
def _c19_scale_sdr_isr(inp):
    """outputs excluded from `image_crit_sir_sar_scale_partial`: SDR and ISR of bss_eval_images under rescaling"""
    return inp.get("fn") == "images" and inp.get("check") == "scale_sdr_isr" and inp.get("scale_factor") not in (None, 1, 1.0)


@region("c19_rank_deficient_references_solve_no_error")
def _c19_rank_deficient(inp, what=""):
    """the delayed reference channels are exactly linearly dependent (e.g. a stereo source with identical
    channels) AND the code's np.linalg.solve did not raise LinAlgError, so the lstsq fall-back was not taken
    (outside the hypotheses of the C19_LS theorems: `solve?` = none; binary64 only)"""
    if inp.get("check") != "ls_singular" or "without LinAlgError" not in what:
        return False
    from fractions import Fraction as Fr
    rows = [ch for src in inp["refs3"] for ch in src] if "refs3" in inp else inp["refs"]
    flen, n = inp["flen"], len(rows[0])
    B = []
    for r in rows:
        for d in range(flen):
            B.append([Fr(0)] * d + [Fr(x) for x in r] + [Fr(0)] * (flen - 1 - d))
    rank = 0
    for c in range(n + flen - 1):
        piv = next((i for i in range(rank, len(B)) if B[i][c] != 0), None)
        if piv is None:
            continue
        B[rank], B[piv] = B[piv], B[rank]
        for i in range(rank + 1, len(B)):
            if B[i][c] != 0:
                f = B[i][c] / B[rank][c]
                B[i] = [a - f * b for a, b in zip(B[i], B[rank])]
        rank += 1
    return rank < len(B)
