"""Region predicates of known findings (complements of the `_partial` hypotheses)."""
from fractions import Fraction as _Fr

REGIONS = {}


def region(name):
    def deco(fn):
        REGIONS[name] = fn
        return fn
    return deco


def _round4(x):
    y = x * 10000
    f = y.numerator // y.denominator
    d = y - f
    n = f if d < _Fr(1, 2) else (f + 1 if d > _Fr(1, 2) else (f if f % 2 == 0 else f + 1))
    return _Fr(n, 10000)


@region("transcription_self_pairing_ambiguous")
def transcription_self_pairing_ambiguous(inp):
    """complement of the hypothesis `hsep` of Mir.C02.Transcription.aor_self_partial: two notes of x that satisfy
    the note criterion with each other (under the input's own parameters) have different intervals"""
    x = [[_Fr(v) for v in n] for n in inp["ref"]]
    p = {k: (v if isinstance(v, bool) or v is None else _Fr(v)) for k, v in inp["params"].items()}

    def cmp(d, t):
        return d < t if p["strict"] else d <= t

    def hit(r, e):
        if not cmp(_round4(abs(r[0] - e[0])), p["onset_tolerance"]):
            return False
        if not cmp(100 * abs(r[2] - e[2]), p["pitch_tolerance"]):
            return False
        if p["offset_ratio"] is not None:
            tol = max(p["offset_ratio"] * (r[1] - r[0]), p["offset_min_tolerance"])
            if not cmp(_round4(abs(r[1] - e[1])), tol):
                return False
        return True
    return any(hit(r, e) and (r[0], r[1]) != (e[0], e[1]) for r in x for e in x)
