"""Region predicates of known findings (complements of the `_partial` hypotheses).

A region takes the failing input (JSON-able) and the failure text and answers: is this failure inside the
region that the known finding describes?  Regions look at the *input* with independent, simple code.
"""
from fractions import Fraction as Fr

REGIONS = {}


def region(name):
    def deco(fn):
        REGIONS[name] = fn
        return fn
    return deco


def F(x):
    return Fr(x)


# ---------------------------------------------------------------------------------------------
def _frame_labels(ivs, labs, n, frame):
    """label of the interval containing k*frame (later interval wins at a shared boundary); None outside"""
    out = []
    for k in range(n):
        t = frame * k
        lab = None
        for (a, b), l in zip(ivs, labs):
            if F(a) <= t <= F(b):
                lab = ("L", str(l).lower())
        if lab is None:
            lab = ("PAD", "before" if (not ivs or t < F(ivs[0][0])) else "after")
        out.append(lab)
    return out


def _segment_frames(inp, frame=Fr(1, 4)):
    (ri, rl), (ei, el) = inp["ref"], inp["est"]
    if not ri:
        return None
    end = max(F(b) for _, b in ri)
    n = int(end / frame)
    return _frame_labels(ri, rl, n, frame), _frame_labels(ei, el, n, frame)


@region("segment_side_without_agreeing_pair")
def segment_side_without_agreeing_pair(inp, what=""):
    """pairwise / Rand are 0/0 when a side has no two frames carrying the same label (or < 2 frames)"""
    if not ("Pairwise" in what or "Rand Index" in what) or "nan" not in what:
        return False
    fr = _segment_frames(inp)
    if fr is None:
        return False
    rf, ef = fr
    return len(rf) < 2 or len(set(rf)) == len(rf) or len(set(ef)) == len(ef)


@region("segment_single_label_side_nmi_noise")
def segment_single_label_side_nmi_noise(inp, what=""):
    """NMI = rounding-level MI / floored denominator when one side carries a single label"""
    if "Normalized Mutual Information" not in what:
        return False
    fr = _segment_frames(inp)
    if fr is None:
        return False
    rf, ef = fr
    try:
        val = float(what.split("=")[1].split()[0])
    except Exception:  # noqa: BLE001
        return False
    return (len(set(rf)) <= 1 or len(set(ef)) <= 1) and -1e-4 < val < 0


# ---------------------------------------------------------------------------------------------
def _proto_sig(p):
    o = p[0]
    return (len(o), tuple((F(t) - F(o[0][0]), m - o[0][1]) for t, m in o))


@region("pattern_several_refs_match_one_estimate")
def pattern_several_refs_match_one_estimate(inp, what=""):
    """standard_FPR counts matched *reference* patterns for precision too: two reference prototypes that are
    translations of the same estimated prototype give precision > 1"""
    if not any(k in what for k in ("pattern['F']", "pattern['P']")):
        return False
    est_sigs = {_proto_sig(p) for p in inp["est"]}
    k = sum(1 for p in inp["ref"] if _proto_sig(p) in est_sigs)
    return k > len(inp["est"])


# ---------------------------------------------------------------------------------------------
@region("cemgil_more_reference_than_estimated_beats")
def cemgil_more_reference_than_estimated_beats(inp, what=""):
    """Cemgil normalises by the mean of the two counts: with more reference beats (or beats of a metrical
    variation) than estimated beats, several of them share one estimated beat and the score can exceed 1"""
    ref = [F(x) for x in inp["ref"] if F(x) >= 5]
    est = [F(x) for x in inp["est"] if F(x) >= 5]
    if "Cemgil Best Metric Level" in what:
        return 2 * len(ref) - 1 > len(est) > 0
    if "Cemgil" in what:
        return len(ref) > len(est) > 0
    return False


# ---------------------------------------------------------------------------------------------
# validator-level findings (T_VALIDATE / C14); inputs are {"op", "real", "expect", "stream"}
def _freqs_negative_within_bounds(arrays, lo, hi):
    """every array 1-d with |x| in [lo, hi], and at least one x < 0"""
    neg = False
    for shape, data in arrays:
        if len(shape) != 1:
            return False
        for x in data:
            x = F(x)
            if not (lo <= abs(x) <= hi):
                return False
            neg = neg or x < 0
    return neg


def _events_ok(a, top=Fr(30000)):
    shape, data = a
    xs = [F(x) for x in data]
    return len(shape) == 1 and all(x <= top for x in xs) and all(xs[i] <= xs[i + 1] for i in range(len(xs) - 1))


@region("validate_frequencies_negative_within_bounds")
def validate_frequencies_negative_within_bounds(inp, what=""):
    """allow_negatives=False, yet the only thing wrong is the sign of in-range values"""
    if inp.get("op") != "util.validate_frequencies" or "accepted" not in what:
        return False
    a, hi, lo, allow = inp["real"]
    return (allow is False) and _freqs_negative_within_bounds([a], F(lo), F(hi))


@region("multipitch_negative_frequency_within_bounds")
def multipitch_negative_frequency_within_bounds(inp, what=""):
    if inp.get("op") != "multipitch.validate" or "accepted" not in what:
        return False
    rt, rf, et, ef = inp["real"]
    if not (_events_ok(rt) and _events_ok(et) and len(rt[1]) == len(rf) and len(et[1]) == len(ef)):
        return False
    return _freqs_negative_within_bounds(list(rf) + list(ef), Fr(20), Fr(5000))


@region("hierarchy_single_level_never_checked")
def hierarchy_single_level_never_checked(inp, what=""):
    if inp.get("op") != "hierarchy.validate_hier_intervals" or "accepted" not in what:
        return False
    return len(inp["real"][0]) == 1
