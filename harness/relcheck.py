"""The relational properties (C01, C02, C06, C07, C08) as checks of ONE input on the real code."""
import math
from fractions import Fraction as Fr

import tasks as T


class Raised(Exception):
    """evaluate() raised on this input: whether that is allowed is C14's question, not a relational one"""


def _scores(task, inp, **kw):
    try:
        if inp.get("recycle"):
            return recycled_evaluate(task, inp, inp["recycle"], **kw)
        return task.evaluate(inp, **kw)
    except Exception as e:  # noqa: BLE001
        raise Raised(repr(e))


# ----------------------------------------------------------------------------------------
# "recycled objects": the annotation is scored through the SAME ndarray / list objects that an earlier call received,
# updated in place in between (what a caller does who edits an annotation and scores it again).  A result that depends
# on object identity instead of on the values (a memo keyed by id(), a cache filled from a mutable argument) turns into
# a wrong score here and is then seen by whichever relation is checked; the input alone replays it.

class _Recycler:
    def __init__(self):
        self.pool = {}

    def put(self, path, x):
        import numpy as np
        if isinstance(x, np.ndarray):
            old = self.pool.get(path)
            if isinstance(old, np.ndarray) and old.shape == x.shape and old.dtype == x.dtype:
                old[...] = x
                return old
            self.pool[path] = x
            return x
        if isinstance(x, list):
            new = [self.put(path + (i,), v) for i, v in enumerate(x)]
            old = self.pool.get(path)
            if isinstance(old, list):
                old[:] = new
                return old
            self.pool[path] = new
            return new
        return x


def _variant(x, mode, depth=0):
    """a same-shaped variant of one argument: time-like arrays halved (keeps order, spans, positivity), lists of
    strings rotated by one (keeps every label valid)"""
    import numpy as np
    if isinstance(x, np.ndarray):
        if mode in ("scale", "both") and x.dtype.kind == "f":
            return x * 0.5
        return x.copy()
    if isinstance(x, list):
        if x and all(isinstance(v, str) for v in x):
            return (x[1:] + x[:1]) if mode in ("labels", "both") else list(x)
        return [_variant(v, mode, depth + 1) for v in x]
    return x


class _ModProxy:
    def __init__(self, real, hook):
        self._real, self._hook = real, hook

    def __getattr__(self, name):
        v = getattr(self._real, name)
        import types
        if isinstance(v, types.ModuleType):
            return _ModProxy(v, self._hook)
        if isinstance(v, types.FunctionType) and not name.startswith("_") and \
                (getattr(v, "__module__", "") or "").startswith("mir_eval."):
            def hooked(*a, **k):
                return self._hook(v, a, k)
            hooked._real = v
            return hooked
        return v


def recycled_evaluate(task, inp, mode, **kw):
    rec = _Recycler()
    state = {"warm": True}

    def hook(fn, args, kwargs):
        key = (getattr(fn, "__module__", ""), getattr(fn, "__name__", ""))
        if state["warm"]:
            vargs = tuple(rec.put(key + (i,), _variant(a, mode)) for i, a in enumerate(args))
            try:
                fn(*vargs, **kwargs)
            except Exception:  # noqa: BLE001 - the warm-up call only has to have happened
                pass
        rargs = tuple(rec.put(key + (i,), a) for i, a in enumerate(args))
        return fn(*rargs, **kwargs)

    real = T.mir_eval
    T.mir_eval = _ModProxy(real, hook)
    try:
        return task.evaluate(inp, **kw)
    finally:
        T.mir_eval = real


def guarded(fn):
    def wrapper(task, inp):
        try:
            return fn(task, inp)
        except Raised:
            return None
    wrapper.__name__ = fn.__name__
    wrapper.__doc__ = fn.__doc__
    return wrapper


def _val(d, k):
    return T.scalar(d[k]) if k in d else None


def close(a, b, tol=1e-9):
    if a is None or b is None:
        return a is b
    if math.isnan(a) or math.isnan(b):
        return math.isnan(a) and math.isnan(b)
    if math.isinf(a) or math.isinf(b):
        return a == b
    return abs(a - b) <= tol * max(1.0, abs(a), abs(b))


def kwargs_of(inp):
    kw = {}
    for k, v in (inp.get("kw") or {}).items():
        if isinstance(v, str):
            try:
                v = float(Fr(v))
            except ValueError:
                pass            # a keyword whose value is a name (kind="cubic")
        kw[k] = v
    return kw


@guarded
def check_range(task, inp):
    """C01: every documented proportion-type score is finite and in its range"""
    sc = _scores(task, inp, **kwargs_of(inp))
    for k, kind in task.RANGE.items():
        if k not in sc:
            continue    # (missing keys are C03's matter)
        x = T.scalar(sc[k])
        if x is None:
            continue    # (non-scalar values are C03's matter)
        if task.range_exempt(inp, k):
            if not (math.isfinite(x) and x >= -1e-9):
                return "%s[%r] = %r is not a finite non-negative number" % (task.name, k, x)
            continue
        if not T.in_range(kind, x):
            return "%s[%r] = %r violates its documented range (%s)" % (task.name, k, x, kind)
    return None


@guarded
def check_self(task, inp):
    """C02: metric(x, copy(x)) is optimal"""
    sc = _scores(task, inp, **kwargs_of(inp))
    for k, opt in task.OPT.items():
        if k not in sc:
            continue
        x = T.scalar(sc[k])
        if x is None or not close(x, opt):
            return "%s[%r] = %r on a perfect estimate, optimum is %r" % (task.name, k, sc[k], opt)
    return None


@guarded
def check_swap(task, inp):
    """C06: exchanging reference and estimate exchanges precision and recall"""
    if task.SWAPMAP is None:
        return None
    kw = kwargs_of(inp)
    sw = task.swap(inp)
    if sw is None:
        return None
    a = _scores(task, inp, **kw)
    b = _scores(task, sw, **kw)
    for k, k2 in task.SWAPMAP.items():
        if k in a and k2 in b:
            x, y = T.scalar(a[k]), T.scalar(b[k2])
            if not close(x, y):
                return "%s: %r(a,b) = %r but %r(b,a) = %r" % (task.name, k, x, k2, y)
    return None


@guarded
def check_widen(task, inp):
    """C07: widening one tolerance never lowers a score; nested criteria are ordered"""
    kw0 = kwargs_of(inp)
    base = _scores(task, inp, **kw0)
    for a, b in task.NESTED:
        if a in base and b in base:
            x, y = T.scalar(base[a]), T.scalar(base[b])
            if x is not None and y is not None and not (math.isnan(x) or math.isnan(y)) and x > y + 1e-9:
                return "%s: nested scores out of order: %r = %r > %r = %r" % (task.name, a, x, b, y)
    for name, vals, keys in task.TOLS:
        prev = None
        for v in vals:
            kw = dict(kw0)
            kw[name] = float(Fr(v))
            sc = _scores(task, inp, **kw)
            if prev is not None:
                for k in keys:
                    if k in sc and k in prev[1]:
                        x, y = T.scalar(prev[1][k]), T.scalar(sc[k])
                        if x is not None and y is not None and x > y + 1e-9:
                            return "%s: %r fell from %r to %r when %s was widened from %s to %s" % (
                                task.name, k, x, y, name, prev[0], v)
            prev = (v, sc)
    return None


@guarded
def check_invariance(task, inp):
    """C08: time shift, permutation of unordered collections, label renaming"""
    kw = kwargs_of(inp)
    base = _scores(task, inp, **kw)
    variants = []
    tr = inp.get("transform") or {}
    # the shift claim is made on the exact-arithmetic (dyadic) lattice only: on a decimal grid a shift moves
    # distances across a tolerance by one rounding (the statement excludes threshold-rounding cases)
    if task.SHIFT and "shift" in tr and inp.get("lattice") != "decimal":
        variants.append(("shift by %s" % tr["shift"], task.shift(inp, Fr(tr["shift"])), getattr(task, "SHIFT_SCORES", None)))
    import random
    rng = random.Random(tr.get("seed", 0))
    p = task.permute(inp, rng)
    if p is not None:
        variants.append(("permutation", p, getattr(task, "PERM_SCORES", None)))
    r = task.relabel(inp, rng)
    if r is not None:
        variants.append(("label renaming", r, None))
    for what, inp2, keys in variants:
        sc = _scores(task, inp2, **kw)
        for k in (keys or list(base)):
            if k in base and k in sc:
                x, y = T.scalar(base[k]), T.scalar(sc[k])
                if not close(x, y):
                    return "%s: %r changed from %r to %r under %s" % (task.name, k, x, y, what)
    return None


PITCH_TASKS = ("melody", "multipitch", "transcription")
OCTAVE_EST_SCORES = {"melody": ["Raw Chroma Accuracy"],
                     "multipitch": ["Chroma Precision", "Chroma Recall", "Chroma Accuracy", "Chroma Substitution Error",
                                    "Chroma Miss Error", "Chroma False Alarm Error", "Chroma Total Error"]}


@guarded
def check_pitch(task, inp):
    """C09 (pitch part): joint frequency scaling, octave shift of the estimate only, negated melody estimates"""
    kw = kwargs_of(inp)
    base = _scores(task, inp, **kw)
    tr = inp.get("transform") or {}
    fac = tr.get("factor", "2")
    both = dict(inp)
    both["hz"] = {"ref": fac, "est": fac}
    sc = _scores(task, both, **kw)
    for k in base:
        x, y = T.scalar(base[k]), T.scalar(sc.get(k))
        if not close(x, y):
            return "%s: %r changed from %r to %r when all frequencies were multiplied by %s" % (task.name, k, x, y, fac)
    if task.name in OCTAVE_EST_SCORES:
        octv = tr.get("octave", "2")
        eo = dict(inp)
        eo["hz"] = {"ref": "1", "est": octv}
        sc = _scores(task, eo, **kw)
        for k in OCTAVE_EST_SCORES[task.name]:
            x, y = T.scalar(base[k]), T.scalar(sc.get(k))
            if not close(x, y):
                return "%s: %r changed from %r to %r when only the estimate was moved by the octave factor %s" % (
                    task.name, k, x, y, octv)
    if task.name == "melody":
        neg = dict(inp)
        neg["est"] = [inp["est"][0], [None if m is None else ("-" + m if not m.startswith("-") else m) for m in inp["est"][1]]]
        sc = _scores(task, neg, **kw)
        for k in ("Raw Pitch Accuracy", "Raw Chroma Accuracy"):
            x, y = T.scalar(base[k]), T.scalar(sc.get(k))
            if not close(x, y):
                return "melody: %r changed from %r to %r when the estimated frequencies were negated" % (k, x, y)
    return None
