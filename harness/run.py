import argparse
import os
import sys

sys.path.insert(0, os.path.dirname(os.path.abspath(__file__)))
import core  # noqa: E402


def main():
    if len(sys.argv) >= 2 and sys.argv[1] == "replay":
        if len(sys.argv) < 3:
            print("usage: check replay <path>")
            return 2
        return core.replay(sys.argv[2])
    ap = argparse.ArgumentParser()
    ap.add_argument("property")
    ap.add_argument("--tier", default=os.environ.get("VERIF_TIER", "quick"), choices=["quick", "thorough"])
    a = ap.parse_args()
    seed = int(os.environ.get("VERIF_SEED", "0"))
    try:
        return core.run_property("props." + a.property.lower(), a.tier, seed)
    except core.ToolError as e:
        print("TOOL-ERROR %s" % e)
        return 2


if __name__ == "__main__":
    try:
        rc = main()
    except SystemExit:
        raise
    except BaseException:  # noqa: BLE001
        import traceback
        traceback.print_exc()
        print("TOOL-ERROR unexpected harness exception")
        rc = 2
    sys.exit(rc)
