"""Value-correspondence suites per task (model vs real code). `load_all()` merges every module here."""
import importlib
import os
import pkgutil


def load_all(only=None, exclude=("validators",)):
    suites, classifiers = {}, {}
    here = os.path.dirname(os.path.abspath(__file__))
    for m in sorted(pkgutil.iter_modules([here]), key=lambda x: x.name):
        if only is not None and m.name not in only:
            continue
        if only is None and m.name in exclude:
            continue
        mod = importlib.import_module("suites." + m.name)
        for name, g in getattr(mod, "SUITES", {}).items():
            suites["%s.%s" % (m.name, name)] = g
        if hasattr(mod, "classify"):
            classifiers[m.name] = mod.classify
    return suites, classifiers
