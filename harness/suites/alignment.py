"""mir_eval.alignment (validate, absolute_error, percentage_correct, percentage_correct_segments,
karaoke_perceptual_metric, evaluate) — correspondence suites and property oracles on the real code.

Stream E: timestamps on the 1/32 s lattice, equal lengths 1..9, estimates at offsets exactly on / next to the
window, repeated timestamps, duration None / = last timestamp / larger; D: millisecond decimals with windows
k ms + 0.5 ms; X: empty reference, unequal sizes, decreasing, negative, non-positive or too small duration,
all-identical reference with duration=None.
"""
from fractions import Fraction as Fr
import math

import mir_eval

from core import Case
import gen
from suites import misc_util as mu


def impl_validate(ref, est):
    return mir_eval.alignment.validate(gen.arr(ref), gen.arr(est))


def impl_absolute_error(ref, est):
    return mir_eval.alignment.absolute_error(gen.arr(ref), gen.arr(est))


def impl_pc(ref, est, w):
    return mir_eval.alignment.percentage_correct(gen.arr(ref), gen.arr(est), window=float(w))


def impl_pcs(ref, est, d):
    return mir_eval.alignment.percentage_correct_segments(gen.arr(ref), gen.arr(est),
                                                          duration=None if d is None else float(d))


def impl_karaoke(ref, est):
    return mir_eval.alignment.karaoke_perceptual_metric(gen.arr(ref), gen.arr(est))


def impl_evaluate(ref, est, w, d):
    kw = {}
    if w is not None:
        kw["window"] = float(w)
    if d is not None:
        kw["duration"] = float(d)
    return mir_eval.alignment.evaluate(gen.arr(ref), gen.arr(est), **kw)


IMPL = {"alignment.validate": impl_validate, "alignment.absolute_error": impl_absolute_error,
        "alignment.percentage_correct": impl_pc, "alignment.percentage_correct_segments": impl_pcs,
        "alignment.karaoke_perceptual_metric": impl_karaoke, "alignment.evaluate": impl_evaluate}


def case(op, args, tag, nontrivial=True, tol=1e-9):
    return Case(op, args, (lambda op=op, args=args: IMPL[op](*args)), tol=tol, tag=tag,
                info={"op": op, "args": mu.jargs(args)}, nontrivial=nontrivial)


# ---------------------------------------------------------------------------------------------
def pair_E(rng, lat=32, tmax=16):
    n = rng.choice([1, 2, 2, 3, 4, 5, 6, 9])
    ref = []
    for _ in range(n):
        if ref and rng.random() < 0.15:
            ref.append(rng.choice(ref))
        else:
            ref.append(Fr(rng.randint(0, tmax * lat), lat))
    ref.sort()
    w = rng.choice([Fr(0), Fr(1, 32), Fr(1, 8), Fr(1, 4), Fr(1, 2), Fr(1), Fr(3, 10)])
    wd = w if w.denominator in (1, 2, 4, 8, 16, 32) else Fr(1, 4)
    est = []
    for r in ref:
        u = rng.random()
        if u < 0.25:
            est.append(r)
        elif u < 0.5:
            est.append(max(Fr(0), r + rng.choice([-1, 1]) * wd))                  # exactly on the window edge
        elif u < 0.7:
            est.append(max(Fr(0), r + rng.choice([-1, 1]) * (wd + Fr(1, lat))))   # just outside
        else:
            est.append(max(Fr(0), r + Fr(rng.randint(-2 * lat, 2 * lat), lat)))
    if rng.random() < 0.8:
        est.sort()
    hi = max(ref + est)
    d = rng.choice([None, None, hi, hi + Fr(1, 32), hi + Fr(rng.randint(1, 8 * lat), lat)])
    return ref, est, w, d


def pair_D(rng):
    n = rng.randint(1, 30)
    ref = sorted(Fr(rng.randint(0, 60000), 1000) for _ in range(n))
    k = rng.choice([10, 50, 300, 1000])
    est = sorted(max(Fr(0), r + Fr(rng.randint(-2 * k, 2 * k), 1000)) for r in ref)
    w = Fr(k, 1000) + Fr(1, 2000)
    hi = max(ref + est)
    d = rng.choice([None, hi + Fr(rng.randint(0, 5000), 1000)])
    return ref, est, w, d


def fault(rng, ref, est, d):
    kind = rng.choice(["empty", "sizes", "ref-decreasing", "est-decreasing", "negative", "duration<=0",
                       "duration-small", "identical-ref"])
    ref, est = list(ref), list(est)
    if kind == "empty":
        ref, est = [], rng.choice([[], est])
    elif kind == "sizes":
        est = est + [est[-1] + 1] if rng.random() < 0.5 else est[:-1]
    elif kind == "ref-decreasing":
        ref = ref + [ref[-1] - Fr(1, 32)] if ref[-1] > 0 else [Fr(1), Fr(0)]
        est = (est + [est[-1]])[:len(ref)] if len(est) < len(ref) else est[:len(ref)]
    elif kind == "est-decreasing":
        est = [Fr(5)] + est[1:] + [Fr(4)]
        ref = ref + [ref[-1]]
    elif kind == "negative":
        if rng.random() < 0.5:
            ref = [Fr(-1, 32)] + ref[1:]
        else:
            est = [Fr(-1, 32)] + est[1:]
    elif kind == "duration<=0":
        d = rng.choice([Fr(0), Fr(-1)])
    elif kind == "duration-small":
        d = max(ref + est) - Fr(1, 32)
    else:
        ref = [ref[0]] * len(ref)
        d = None
    return ref, est, d, kind


def suite_metrics(rng, tier, shard, nshards):
    n = 400 if tier == "quick" else 3500
    for _ in range(n):
        ref, est, w, d = pair_E(rng)
        yield case("alignment.absolute_error", [ref, est], "E")
        yield case("alignment.percentage_correct", [ref, est, w], "E w=%s" % w)
        yield case("alignment.percentage_correct_segments", [ref, est, d],
                   "E duration=%s" % ("None" if d is None else "given"))
        yield case("alignment.karaoke_perceptual_metric", [ref, est], "E")
    for _ in range(n // 4):
        ref, est, w, d = pair_D(rng)
        yield case("alignment.absolute_error", [ref, est], "D")
        yield case("alignment.percentage_correct", [ref, est, w], "D")
        yield case("alignment.percentage_correct_segments", [ref, est, d], "D")
        yield case("alignment.karaoke_perceptual_metric", [ref, est], "D")
    for _ in range(n // 4):
        ref, est, w, d = pair_E(rng)
        ref, est, d, kind = fault(rng, ref, est, d)
        yield case("alignment.validate", [ref, est], "X " + kind)
        yield case("alignment.absolute_error", [ref, est], "X " + kind)
        yield case("alignment.percentage_correct", [ref, est, w], "X " + kind)
        yield case("alignment.percentage_correct_segments", [ref, est, d], "X " + kind)
        yield case("alignment.karaoke_perceptual_metric", [ref, est], "X " + kind)


def suite_evaluate(rng, tier, shard, nshards):
    n = 200 if tier == "quick" else 2000
    for _ in range(n):
        ref, est, w, d = pair_E(rng)
        if rng.random() < 0.4:
            w = None
        if rng.random() < 0.15:
            ref, est, d, _ = fault(rng, ref, est, d)
        yield case("alignment.evaluate", [ref, est, w, d],
                   "window=%s duration=%s" % ("default" if w is None else "given", "None" if d is None else "given"))


def suite_perceptual_sweep(rng, tier, shard, nshards):
    """single-timestamp offsets sweeping [-8, 8] s: the skew-normal pdf / erf series over its whole useful range"""
    n = 300 if tier == "quick" else 1500
    for _ in range(n):
        off = Fr(rng.randint(-8 * 256, 8 * 256), 256)
        base = Fr(8)
        yield case("alignment.karaoke_perceptual_metric", [[base], [base + off]], "sweep")


SUITES = {"alignment.metrics": suite_metrics, "alignment.evaluate": suite_evaluate,
          "alignment.perceptual_sweep": suite_perceptual_sweep}


# ---------------------------------------------------------------------------------------------
def _median(xs):
    t = sorted(xs)
    n = len(t)
    return t[n // 2] if n % 2 else (t[n // 2 - 1] + t[n // 2]) / 2


def _pcs_def(ref, est, d):
    """documented definition, exact arithmetic"""
    if d is None:
        rs, es = list(zip(ref[:-1], ref[1:])), list(zip(est[:-1], est[1:]))
        total = ref[-1] - ref[0]
    else:
        r, e = [Fr(0)] + ref + [d], [Fr(0)] + est + [d]
        rs, es = list(zip(r[:-1], r[1:])), list(zip(e[:-1], e[1:]))
        total = d
    ov = sum(max(min(a[1], b[1]) - max(a[0], b[0]), Fr(0)) for a, b in zip(rs, es))
    return ov / total


def _valid_pcs(ref, est, d):
    if d is None:
        return ref[-1] > ref[0]
    return d > 0 and d >= max(ref + est)


def check_alignment(inp):
    prop = inp["prop"]
    ref, est = mu.unjargs(inp["ref"]), mu.unjargs(inp["est"])
    w, d = mu.unjargs(inp["w"]), mu.unjargs(inp["d"])
    ctx = "(ref=%s est=%s window=%s duration=%s)" % (inp["ref"], inp["est"], inp["w"], inp["d"])
    if prop == "range":           # C01
        mae, aae = [float(x) for x in impl_absolute_error(ref, est)]
        pc = float(impl_pc(ref, est, w))
        per = float(impl_karaoke(ref, est))
        if not (math.isfinite(mae) and mae >= 0 and math.isfinite(aae) and aae >= 0):
            return "alignment.absolute_error = %r not finite and >= 0 %s" % ((mae, aae), ctx)
        if not mu.in01(pc):
            return "alignment.percentage_correct = %r outside [0,1] %s" % (pc, ctx)
        if not (math.isfinite(per) and per >= 0):
            return "alignment.karaoke_perceptual_metric = %r not finite and >= 0 %s" % (per, ctx)
        if _valid_pcs(ref, est, d):
            pcs = float(impl_pcs(ref, est, d))
            if not mu.in01(pcs):
                return "alignment.percentage_correct_segments = %r outside [0,1] %s" % (pcs, ctx)
    elif prop == "self":          # C02
        mae, aae = [float(x) for x in impl_absolute_error(ref, list(ref))]
        pc = float(impl_pc(ref, list(ref), abs(w)))
        if (mae, aae) != (0.0, 0.0) or pc != 1.0:
            return "alignment on (x,x): mae=%r aae=%r pc=%r, expected 0,0,1 %s" % (mae, aae, pc, ctx)
        dd = None if d is None else max(d, ref[-1])
        if _valid_pcs(ref, ref, dd):
            pcs = float(impl_pcs(ref, list(ref), dd))
            if not mu.close(pcs, 1.0):
                return "alignment.percentage_correct_segments(x,x,%s) = %r, expected 1 %s" % (dd, pcs, ctx)
    elif prop == "definition":    # C04
        dev = [abs(a - b) for a, b in zip(ref, est)]
        mae, aae = [float(x) for x in impl_absolute_error(ref, est)]
        pc = float(impl_pc(ref, est, w))
        want = (float(_median(dev)), float(sum(dev) / len(dev)), float(Fr(sum(1 for x in dev if x <= w), len(dev))))
        if not (mu.close(mae, want[0]) and mu.close(aae, want[1]) and mu.close(pc, want[2])):
            return "alignment mae/aae/pc = %r, definition gives %r %s" % ((mae, aae, pc), want, ctx)
        if _valid_pcs(ref, est, d):
            pcs = float(impl_pcs(ref, est, d))
            if not mu.close(pcs, float(_pcs_def(ref, est, d))):
                return "alignment.percentage_correct_segments = %r, definition gives %r %s" % (pcs, float(_pcs_def(ref, est, d)), ctx)
    elif prop == "widen":         # C07
        w2 = mu.unjargs(inp["w2"])
        a, b = float(impl_pc(ref, est, w)), float(impl_pc(ref, est, w2))
        if a > b + 1e-12:
            return "alignment.percentage_correct window %s -> %r, window %s -> %r %s" % (inp["w"], a, inp["w2"], b, ctx)
    elif prop == "shift":         # C08: MIREX PCS (duration=None), and the difference-based scores
        c = mu.unjargs(inp["c"])
        r2, e2 = [t + c for t in ref], [t + c for t in est]
        if _valid_pcs(ref, est, None):
            a, b = float(impl_pcs(ref, est, None)), float(impl_pcs(r2, e2, None))
            if not mu.close(a, b, 1e-12):
                return "alignment PCS (duration=None) changes under a shift by %s: %r vs %r %s" % (inp["c"], a, b, ctx)
        a = [float(x) for x in impl_absolute_error(ref, est)] + [float(impl_pc(ref, est, w))]
        b = [float(x) for x in impl_absolute_error(r2, e2)] + [float(impl_pc(r2, e2, w))]
        if not all(mu.close(x, y, 1e-12) for x, y in zip(a, b)):
            return "alignment mae/aae/pc change under a shift by %s: %r vs %r %s" % (inp["c"], a, b, ctx)
    else:
        raise ValueError(prop)
    return None


def gen_alignment(rng, tier, shard, nshards, boost):
    n = (150 if tier == "quick" else 1000) * boost
    for _ in range(n):
        ref, est, w, d = pair_E(rng)
        est = sorted(est)
        base = {"ref": mu.jargs(ref), "est": mu.jargs(est), "w": mu.jargs(w), "d": mu.jargs(d)}
        for prop in ("range", "self", "definition"):
            yield dict(base, prop=prop)
        yield dict(base, prop="widen", w2=mu.jargs(w + rng.choice([Fr(0), Fr(1, 32), Fr(1, 4), Fr(2)])))
        yield dict(base, prop="shift", c=mu.jargs(Fr(rng.randint(0, 64 * 32), 32)))


CHECKERS = {"alignment": check_alignment}
ORACLES = {"alignment": gen_alignment}
