"""Value correspondence for mir_eval.beat (model MirModel/Beat.lean vs the real code), stream E.

Beat times are multiples of 1/32 s, thresholds are dyadic or the documented defaults, so binary64 performs
the code's comparisons exactly as the rational model does.  Three comparisons in the code are made on a
*float-accumulated* statistic (goto: mean / std of the track against mu / sigma; information gain: a wrapped
error against a non-dyadic histogram edge; continuity: |1 - a/b| against a non-dyadic threshold).  An exact
rational tie there is "within rounding distance of a threshold": the model reports it (`*_checked` ops) and
the case is then not compared (goto, information gain), or the generator replaces the threshold by a dyadic
one (continuity), for which the tie is exact in binary64 as well.
"""
from fractions import Fraction as Fr

import numpy as np
import mir_eval
from mir_eval import beat as B

from core import Case
import gen

LAT = 32
DYADIC = [Fr(0), Fr(1, 32), Fr(1, 16), Fr(1, 8), Fr(1, 4), Fr(1, 2), Fr(1)]


def A(x):
    return np.asarray([float(v) for v in x], dtype=float)


def S(x):
    return [str(v) for v in x]


# ------------------------------------------------------------------------------------------------
# generators

def regular(rng, nmin=2, nmax=12, start_lo=5 * LAT, start_hi=8 * LAT, jitter=0.3):
    """strictly increasing near-regular beats (lattice units -> Fractions)"""
    n = rng.randint(nmin, nmax)
    per = rng.choice([6, 8, 10, 12, 16, 16, 20, 24, 32, 40])
    t = rng.randint(start_lo, start_hi)
    out = []
    for _ in range(n):
        out.append(t)
        d = per
        if rng.random() < jitter:
            d += rng.randint(-2, 2)
        t += max(1, d)
    return [Fr(v, LAT) for v in out]


def degenerate(rng):
    t = Fr(rng.randint(5 * LAT, 7 * LAT), LAT)
    u = t + Fr(rng.randint(1, 40), LAT)
    return rng.choice([[], [], [t], [t, t], [t, u], [t, t, u], [t, u, u], [t, t, t], [t, u, u, u + 1],
                       [t] * 10, [t, t, u, u]])


def loose(rng):
    """arbitrary sorted lattice events with duplicates / clusters, shifted to >= 5 s"""
    ev = gen.events(rng, nmax=8, tmax=6)
    return [v + 5 for v in ev]


def reference(rng):
    u = rng.random()
    if u < 0.65:
        return regular(rng), "regular"
    if u < 0.8:
        return degenerate(rng), "degenerate"
    return loose(rng), "loose"


def midpoints(x):
    return [(a + b) / 2 for a, b in zip(x, x[1:])]


def estimate(rng, ref, kind=None):
    kinds = ["copy", "shift", "jitter", "offbeat", "double", "half", "dropins", "other", "degenerate", "loose",
             "edge"]
    k = kind or rng.choice(kinds)
    if k == "copy":
        est = list(ref)
    elif k == "shift":
        c = Fr(rng.randint(-6, 6), LAT)
        est = [v + c for v in ref]
    elif k == "jitter":
        est = sorted(v + Fr(rng.choice([0, 0, 0, 1, -1, 2, -2, 3, -4]), LAT) for v in ref)
    elif k == "offbeat":
        est = midpoints(ref)
    elif k == "double":
        est = sorted(list(ref) + midpoints(ref))
    elif k == "half":
        est = list(ref)[rng.choice([0, 1])::2]
    elif k == "dropins":
        est = [v for v in ref if rng.random() < 0.8]
        for _ in range(rng.choice([0, 1, 2])):
            est.append(Fr(rng.randint(5 * LAT, 20 * LAT), LAT))
        est = sorted(est)
    elif k == "other":
        est = regular(rng)
    elif k == "degenerate":
        est = degenerate(rng)
    elif k == "edge":
        w = rng.choice([Fr(1, 16), Fr(1, 8), Fr(1, 4)])
        est = gen.near(rng, ref, w, nmax=12, tmax=20)
    else:
        est = loose(rng)
    return est, k


def pair(rng):
    ref, rk = reference(rng)
    est, ek = estimate(rng, ref)
    if rng.random() < 0.15:
        ref, est = est, ref
        rk, ek = ek, rk
    return ref, est, "%s/%s" % (rk, ek)


def nsize(tier, quick, thorough):
    return quick if tier == "quick" else thorough


# ------------------------------------------------------------------------------------------------
# the "model reports an exact tie" device (see module docstring)

def checked(op, args, real, tag, info, nontrivial=True, merge=None):
    st = {}

    def post(mv):
        st["tie"] = bool(mv[1])
        st["val"] = mv[0]
        return mv[0]

    def call():
        v = real()
        if st.get("tie"):
            return st["val"] if merge is None else merge(st["val"], v)
        return v

    return Case(op, args, call, tag=tag, info=info, nontrivial=nontrivial, post=post)



def _merge_eval(model_pairs, real_pairs):
    """on a reported tie take Goto and Information gain from the model (not compared), the rest from the code"""
    if not isinstance(real_pairs, list):
        return real_pairs
    mv = {k: v for k, v in model_pairs}
    return [[k, (mv.get(k, v) if k in ("Goto", "Information gain") else v)] for k, v in real_pairs]


PNAMES = ["min_beat_time", "f_measure_threshold", "cemgil_sigma", "goto_threshold", "goto_mu", "goto_sigma",
          "p_score_threshold", "continuity_phase_threshold", "continuity_period_threshold", "bins"]
DEFAULTS = [Fr(5), Fr(7, 100), Fr(1, 25), Fr(7, 20), Fr(1, 5), Fr(1, 5), Fr(1, 5), Fr(7, 40), Fr(7, 40), 41]


def _evaluate(r, e, ps):
    kw = {n: (float(v) if isinstance(v, Fr) else v) for n, v in zip(PNAMES, ps)}
    return [[k, v] for k, v in B.evaluate(A(r), A(e), **kw).items()]


def _correlate_window(n, ri, ei, w):
    """the four NumPy steps of p_score between the impulse trains and the sum, on given trains: this ties the
    model's reading of `np.correlate(·, ·, "full")` and of the Python slice (negative start included) to NumPy"""
    a = np.zeros(n)
    a[np.asarray(ri, dtype=np.int64)] = 1.0
    v = np.zeros(n)
    v[np.asarray(ei, dtype=np.int64)] = 1.0
    c = np.correlate(a, v, "full")
    middle = c.shape[0] // 2
    c = c[middle - w:middle + w + 1]
    return [[int(x) for x in c], int(np.sum(c))]


# how the real code is called for each model op (the same exact values, as floats)
REAL = {
    "beat.trim_beats": lambda x, t: B.trim_beats(A(x), float(t)),
    "beat._get_reference_beat_variations": lambda r: [list(v) for v in B._get_reference_beat_variations(A(r))],
    "beat.validate": lambda r, e: B.validate(A(r), A(e)),
    "beat.f_measure": lambda r, e, w: B.f_measure(A(r), A(e), float(w)),
    "beat.cemgil": lambda r, e, s: list(B.cemgil(A(r), A(e), float(s))),
    "beat.goto_checked": lambda r, e, t, m, s: B.goto(A(r), A(e), float(t), float(m), float(s)),
    "beat.p_score": lambda r, e, t: B.p_score(A(r), A(e), float(t)),
    "beat.p_score_literal": lambda r, e, t: B.p_score(A(r), A(e), float(t)),
    "beat._correlate_window": lambda n, ri, ei, w: _correlate_window(n, ri, ei, w),
    "beat.continuity": lambda r, e, p, q: list(B.continuity(A(r), A(e), float(p), float(q))),
    "beat.information_gain_checked": lambda r, e, b: B.information_gain(A(r), A(e), b),
    "beat._get_entropy_checked": lambda r, e, b: B._get_entropy(A(r), A(e), b),
    "beat.evaluate_checked": _evaluate,
}
MERGE = {"beat.evaluate_checked": _merge_eval}


def jargs(v):
    if isinstance(v, Fr):
        return str(v)
    if isinstance(v, (list, tuple)):
        return [jargs(x) for x in v]
    return v


def unjargs(v):
    if isinstance(v, str):
        return Fr(v)
    if isinstance(v, list):
        return [unjargs(x) for x in v]
    return v


def case(op, args, tag, nontrivial=True):
    real = (lambda op=op, args=args: REAL[op](*args))
    info = {"op": op, "args": jargs(args)}
    if op.endswith("_checked"):
        return checked(op, args, real, tag, info, nontrivial, MERGE.get(op))
    return Case(op, args, real, tag=tag, info=info, nontrivial=nontrivial)


def classify(suite, d):
    """a disagreeing case is itself the candidate failing input of C04 (code != definition)"""
    return "beat.definition", {"op": d["op"], "args": d["info"]["args"]}


def check_definition(inp):
    """C04 on ONE input: the real code's value equals the executable definition's (driver) value"""
    import core
    import proto
    op, args = inp["op"], unjargs(inp["args"])
    out = core.run_driver(["0 %s %s\n" % (op, " ".join(proto.enc(a) for a in args))])
    _, mv = proto.dec_line(out[0])
    iv = core.impl_result(lambda: REAL[op](*args))
    if op.endswith("_checked") and not isinstance(mv, proto.Err):
        val, tie = mv[0], bool(mv[1])
        if tie and not isinstance(iv, proto.Err):
            iv = val if op not in MERGE else proto.canon(MERGE[op](val, iv))
        mv = val
    d = proto.match(mv, iv, 1e-9)
    return None if d is None else "%s%r: code differs from the definition: %s" % (op, inp["args"], d)


# ------------------------------------------------------------------------------------------------
# suites

def suite_pre(rng, tier, shard, nshards):
    for _ in range(nsize(tier, 40, 600)):
        ref, est, tag = pair(rng)
        x = sorted(ref + [Fr(rng.randint(0, 6 * LAT), LAT) for _ in range(rng.randint(0, 3))])
        t = rng.choice([Fr(5), Fr(0), Fr(6), Fr(11, 2), x[0] if x else Fr(5)])
        yield case("beat.trim_beats", [x, t], "trim")
        yield case("beat._get_reference_beat_variations", [ref], "variations n=%d" % min(len(ref), 4), len(ref) > 1)
        # validation: unsorted / too large / fine
        u = rng.random()
        r2, e2 = list(ref), list(est)
        if u < 0.25 and len(r2) >= 2:
            i = rng.randrange(len(r2) - 1)
            r2[i], r2[i + 1] = r2[i + 1], r2[i]
        elif u < 0.4 and e2:
            e2[-1] = rng.choice([Fr(30000), Fr(30001), Fr(60001, 2)])
        elif u < 0.5 and len(e2) >= 2:
            e2 = e2[::-1]
        yield case("beat.validate", [r2, e2], "validate")
        yield case("beat.f_measure", [r2, e2, Fr(7, 100)], "f_measure on possibly invalid input")


def suite_f_measure(rng, tier, shard, nshards):
    for _ in range(nsize(tier, 250, 5000)):
        ref, rk = reference(rng)
        w = rng.choice([Fr(7, 100), Fr(7, 100), Fr(-1, 16)] + DYADIC)
        if rng.random() < 0.5 and w > 0:
            est, ek = gen.near(rng, ref, w if _is_dyadic(w) else Fr(1, 16), nmax=12, tmax=20), "edge"
        else:
            est, ek = estimate(rng, ref)
        yield case("beat.f_measure", [ref, est, w], "%s/%s" % (rk, ek), bool(ref) and bool(est))


def suite_cemgil(rng, tier, shard, nshards):
    for _ in range(nsize(tier, 250, 5000)):
        ref, est, tag = pair(rng)
        s = rng.choice([Fr(1, 25), Fr(1, 25), Fr(1, 32), Fr(1, 8), Fr(1, 2), Fr(1, 100), Fr(-1, 25)])
        yield case("beat.cemgil", [ref, est, s], tag, bool(ref) and bool(est))


def goto_edge(rng):
    """a perfect (or nearly perfect) estimate of a regular reference with ONE deliberate coincidence: an extra
    beat exactly on the end of the last evaluated window / the start of the first one, or an inner beat displaced
    by exactly thr * half-interval (and one lattice step around it).  These are the inputs on which goto is 1 and
    a flipped comparison makes it 0 (or vice versa)."""
    thr = rng.choice([Fr(7, 20), Fr(1, 4), Fr(1, 2), Fr(1, 8)])
    per = 40 if thr == Fr(7, 20) else rng.choice([16, 32])
    n = rng.randint(5, 12)
    t0 = rng.randint(5 * LAT, 7 * LAT)
    ref = [Fr(t0 + i * per, LAT) for i in range(n)]
    est = list(ref)
    k = rng.choice(["last-window-end", "first-window-start", "tie", "tie+1", "tie-1", "early-tie", "none"])
    if k == "last-window-end":
        est.append((ref[-2] + ref[-1]) / 2)
    elif k == "first-window-start":
        est.append((ref[0] + ref[1]) / 2)
    elif k != "none":
        i = rng.randint(1, n - 2)
        d = thr * Fr(per, 2 * LAT)
        if k == "tie+1":
            d += Fr(1, LAT)
        elif k == "tie-1":
            d -= Fr(1, LAT)
        elif k == "early-tie":
            d = -d
        est[i] = est[i] + d
    return ref, sorted(est), thr, "goto-edge:" + k


def suite_goto(rng, tier, shard, nshards):
    for _ in range(nsize(tier, 300, 6000)):
        if rng.random() < 0.25:
            ref, est, thr, tag = goto_edge(rng)
            mu = rng.choice([Fr(1, 5), Fr(1, 5), Fr(1, 2)])
            sg = rng.choice([Fr(1, 5), Fr(1, 5), Fr(1, 2)])
            yield case("beat.goto_checked", [ref, est, thr, mu, sg], tag)
            continue
        ref, est, tag = pair(rng)
        if rng.random() < 0.6:
            thr, mu, sg = Fr(7, 20), Fr(1, 5), Fr(1, 5)
        else:
            thr = rng.choice([Fr(7, 20), Fr(1, 4), Fr(1, 2), Fr(1, 8), Fr(0), Fr(1), Fr(3, 2), Fr(1, 16)])
            mu = rng.choice([Fr(1, 5), Fr(1, 8), Fr(1, 4), Fr(1, 2), Fr(0), Fr(1, 32), Fr(1, 16)])
            sg = rng.choice([Fr(1, 5), Fr(1, 8), Fr(1, 4), Fr(0), Fr(1, 2), Fr(1, 32), Fr(-1, 4)])
        yield case("beat.goto_checked", [ref, est, thr, mu, sg], tag, len(ref) >= 3 and bool(est))


def suite_p_score(rng, tier, shard, nshards):
    for _ in range(nsize(tier, 120, 2500)):
        ref, est, tag = pair(rng)
        thr = rng.choice([Fr(1, 5), Fr(1, 5), Fr(1, 5), Fr(1, 4), Fr(1, 8), Fr(1, 2), Fr(0), Fr(1), Fr(2), Fr(4),
                          Fr(1, 32), Fr(-1, 4)])
        yield case("beat.p_score", [ref, est, thr], tag, len(ref) >= 2 and len(est) >= 2)


PS_WIDE = [Fr(1, 5), Fr(1, 2), Fr(1), Fr(33, 32), Fr(3, 2), Fr(2), Fr(65, 32), Fr(3), Fr(4), Fr(8), Fr(16), Fr(64),
           Fr(0), Fr(-1, 4), Fr(-2)]


def suite_p_score_literal(rng, tier, shard, nshards):
    """the correlate-and-slice model (`pScoreLiteral`) against the real p_score; half of the cases use few beats
    and large thresholds, so that the window reaches / exceeds the train length (negative slice start wraps)"""
    for _ in range(nsize(tier, 100, 1500)):
        if rng.random() < 0.5:
            ref, est, tag = pair(rng)
            thr = rng.choice([Fr(1, 5), Fr(1, 5), Fr(1, 4), Fr(1, 8), Fr(1, 2), Fr(0), Fr(1), Fr(2), Fr(4), Fr(-1, 4)])
        else:
            ref = regular(rng, nmin=2, nmax=4)
            est, ek = estimate(rng, ref, rng.choice(["copy", "shift", "jitter", "offbeat", "double", "dropins",
                                                     "other", "degenerate"]))
            if rng.random() < 0.15:
                ref, est = est, ref
            thr = rng.choice(PS_WIDE)
            tag = "short/%s" % ek
        yield case("beat.p_score_literal", [ref, est, thr], tag, len(ref) >= 2 and len(est) >= 2)


def suite_correlate_window(rng, tier, shard, nshards):
    """np.correlate + Python slice on small random 0/1 trains, every window regime: negative, inside the train,
    at and beyond the train length (wrap-around), far beyond (empty or clipped slice)"""
    for _ in range(nsize(tier, 300, 6000)):
        n = rng.choice([1, 1, 2, 3, 4, 5, 8, 13, 21, 40])
        ri = sorted(set(rng.randrange(n) for _ in range(rng.randint(1, 6))))
        ei = sorted(set(rng.randrange(n) for _ in range(rng.randint(1, 6))))
        if rng.random() < 0.3:
            ri = ri + [ri[0]]                      # a repeated index (two beats in one sample)
        w = rng.choice([rng.randint(-3, 3 * n + 3), n - 1, n, n + 1, 2 * n - 1, 2 * n, 0])
        yield case("beat._correlate_window", [n, ri, ei, w], "n=%d/%s" % (n, "in" if 0 <= w < n else "out"), True)


def _is_dyadic(q):
    d = q.denominator
    return d & (d - 1) == 0


def period_tie_possible(ref, est, q):
    """could |1 - est_interval/ref_interval| equal q exactly for some pair of consecutive intervals?"""
    if len(ref) < 2 or len(est) < 2:
        return False
    dbl = sorted(list(ref) + midpoints(ref))
    ivs = set()
    for v in (ref, midpoints(ref), dbl, ref[::2], ref[1::2]):
        ivs.update(b - a for a, b in zip(v, v[1:]))
    eiv = set(b - a for a, b in zip(est, est[1:]))
    for b in ivs:
        if b == 0:
            continue
        for a in eiv:
            if abs(1 - a / b) == q:
                return True
    return False


def suite_continuity(rng, tier, shard, nshards):
    for _ in range(nsize(tier, 300, 6000)):
        ref, est, tag = pair(rng)
        if rng.random() < 0.6:
            p, q = Fr(7, 40), Fr(7, 40)
        else:
            p = rng.choice([Fr(7, 40), Fr(1, 8), Fr(1, 4), Fr(1, 2), Fr(0), Fr(1), Fr(2), Fr(1, 16), Fr(1, 10)])
            q = rng.choice([Fr(7, 40), Fr(1, 8), Fr(1, 4), Fr(1, 2), Fr(0), Fr(1), Fr(2), Fr(1, 16)])
        if not _is_dyadic(q) and period_tie_possible(ref, est, q):
            q = Fr(1, 8)
            tag += " (dyadic period thr)"
        yield case("beat.continuity", [ref, est, p, q], tag, len(ref) >= 2 and len(est) >= 2)


def _dyadic_edges_exact(bins):
    """every bin edge that is a dyadic rational is represented exactly by np.linspace (so a dyadic error sitting
    on it is binned by the code exactly as by the model)"""
    edges = np.linspace(-0.5, 0.5, bins + 1)
    for i in range(bins + 1):
        ex = Fr(i, bins) - Fr(1, 2)
        if _is_dyadic(ex) and Fr(float(edges[i])) != ex:
            return False
    return True


BINS = [b for b in [41, 41, 41, 2, 3, 4, 5, 10, 40, 64] if _dyadic_edges_exact(b)]


def suite_information_gain(rng, tier, shard, nshards):
    for _ in range(nsize(tier, 300, 6000)):
        ref, est, tag = pair(rng)
        bins = rng.choice(BINS)
        yield case("beat.information_gain_checked", [ref, est, bins], tag + " bins=%d" % bins,
                   len(ref) >= 2 and len(est) >= 2)
        if len(ref) >= 2 and len(est) >= 1 and rng.random() < 0.3:
            yield case("beat._get_entropy_checked", [ref, est, bins], "_get_entropy")


def suite_evaluate(rng, tier, shard, nshards):
    for _ in range(nsize(tier, 120, 2500)):
        ref, est, tag = pair(rng)
        # early beats, so that trimming matters
        if rng.random() < 0.5:
            ref = sorted([Fr(rng.randint(0, 5 * LAT), LAT) for _ in range(rng.randint(0, 3))] + ref)
            est = sorted([Fr(rng.randint(0, 5 * LAT), LAT) for _ in range(rng.randint(0, 3))] + est)
        ps = list(DEFAULTS)
        if rng.random() < 0.35:
            ps[0] = rng.choice([Fr(5), Fr(0), Fr(6), Fr(11, 2)])
            ps[1] = rng.choice([Fr(7, 100), Fr(1, 16), Fr(1, 4)])
            ps[2] = rng.choice([Fr(1, 25), Fr(1, 8)])
            ps[3] = rng.choice([Fr(7, 20), Fr(1, 4), Fr(1)])
            ps[4] = rng.choice([Fr(1, 5), Fr(1, 8)])
            ps[5] = rng.choice([Fr(1, 5), Fr(1, 8)])
            ps[6] = rng.choice([Fr(1, 5), Fr(1, 4), Fr(2)])
            ps[7] = rng.choice([Fr(7, 40), Fr(1, 4)])
            ps[8] = rng.choice([Fr(7, 40), Fr(1, 4)])
            ps[9] = rng.choice([b for b in BINS if b in (41, 4, 10)])
        if rng.random() < 0.15:
            ref, est, ps[3], tag = goto_edge(rng)
        # evaluate() validates the UNTRIMMED arrays (fix 1b867d1): beats that are out of order only inside the part
        # that trimming removes must be rejected, not trimmed away
        u = rng.random()
        if u < 0.12:
            early = [Fr(rng.randint(2 * LAT, 4 * LAT), LAT), Fr(rng.randint(0, 2 * LAT) - 1, LAT)]
            if rng.random() < 0.5:
                ref = early + ref
            else:
                est = early + est
            tag = "unsorted before the trim time"
        tr = [v for v in ref if v >= ps[0]]
        te = [v for v in est if v >= ps[0]]
        if not _is_dyadic(ps[8]) and period_tie_possible(tr, te, ps[8]):
            ps[8] = Fr(1, 8)
        yield case("beat.evaluate_checked", [ref, est, ps], tag, len(tr) >= 2 and len(te) >= 2)


SUITES = {
    "beat.pre": suite_pre,
    "beat.f_measure": suite_f_measure,
    "beat.cemgil": suite_cemgil,
    "beat.goto": suite_goto,
    "beat.p_score": suite_p_score,
    "beat.p_score_literal": suite_p_score_literal,
    "beat.correlate_window": suite_correlate_window,
    "beat.continuity": suite_continuity,
    "beat.information_gain": suite_information_gain,
    "beat.evaluate": suite_evaluate,
}


# ------------------------------------------------------------------------------------------------
# property oracles on the real code (C01 range, C02 self, C06 swap, C07 widen / nesting, C08 shift), one
# json-able input at a time: {"ref": [...], "est": [...], "c": shift, "w": window, "w2": wider window}

def _strict(x):
    return all(a < b for a, b in zip(x, x[1:]))


def _close(a, b, tol=1e-9):
    return (np.isnan(a) and np.isnan(b)) or abs(a - b) <= tol


def _io(inp):
    ref = np.asarray(inp["ref"], dtype=float)
    est = np.asarray(inp["est"], dtype=float)
    c = float(inp.get("c", 0.0))
    return ref, est, ref + c, est + c


def check_f_measure(inp):
    ref, est, rs, es = _io(inp)
    w, w2 = float(inp.get("w", 0.07)), float(inp.get("w2", 0.07))
    f = B.f_measure(ref, est, w)
    if not (0.0 <= f <= 1.0 + 1e-9):
        return "f_measure = %r outside [0,1]" % f
    g = B.f_measure(est, ref, w)
    if not _close(f, g, 1e-12):
        return "f_measure(ref,est) = %r but f_measure(est,ref) = %r" % (f, g)
    if w <= w2:
        f2 = B.f_measure(ref, est, w2)
        if f2 < f - 1e-12:
            return "wider window %r -> %r lowers f_measure %r -> %r" % (w, w2, f, f2)
    fs = B.f_measure(rs, es, w)
    if not _close(f, fs, 1e-12):
        return "f_measure changes under a common shift: %r vs %r" % (f, fs)
    if len(ref) >= 1 and w >= 0 and B.f_measure(ref, ref, w) != 1.0:
        return "f_measure(x, x) = %r" % B.f_measure(ref, ref, w)
    return None


def check_cemgil(inp):
    ref, est, rs, es = _io(inp)
    a, b = B.cemgil(ref, est)
    if not (a >= 0 and b >= 0 and np.isfinite(a) and np.isfinite(b)):
        return "cemgil = %r, %r not finite and >= 0" % (a, b)
    if a > b + 1e-12:
        return "cemgil %r > best-metric-level cemgil %r" % (a, b)
    a2, b2 = B.cemgil(rs, es)
    if not (_close(a, a2) and _close(b, b2)):
        return "cemgil changes under a common shift: %r vs %r" % ((a, b), (a2, b2))
    if len(ref) >= 1 and not _close(B.cemgil(ref, ref)[0], 1.0):
        return "cemgil(x, x) = %r" % (B.cemgil(ref, ref),)
    if a > 1.0 + 1e-9:
        return "cemgil = %r > 1" % a
    return None


def check_cemgil_best(inp):
    ref, est, _, _ = _io(inp)
    b = B.cemgil(ref, est)[1]
    if b > 1.0 + 1e-9:
        return "cemgil best metric level = %r > 1" % b
    return None


def check_goto(inp):
    ref, est, rs, es = _io(inp)
    g = B.goto(ref, est)
    if g not in (0.0, 1.0):
        return "goto = %r is not 0 or 1" % g
    if B.goto(rs, es) != g:
        return "goto changes under a common shift"
    if len(ref) >= 5 and _strict(inp["ref"]) and B.goto(ref, ref) != 1.0:
        return "goto(x, x) = %r for %d strictly increasing beats" % (B.goto(ref, ref), len(ref))
    return None


def _pscore_window(ref, est, thr=0.2):
    """(window in samples, min spacing of the quantised beats in samples) as the code computes them"""
    off = min(ref.min(), est.min())
    ri = np.unique(np.ceil((ref - off) * 100).astype(int))
    ei = np.unique(np.ceil((est - off) * 100).astype(int))
    if len(ri) < 2:
        return None, None
    win = int(np.round(thr * np.median(np.diff(ri))))
    gaps = list(np.diff(ri)) + list(np.diff(ei))
    return win, (min(gaps) if gaps else None)


def check_p_score(inp):
    ref, est, rs, es = _io(inp)
    try:
        p = B.p_score(ref, est)
    except Exception as e:  # noqa: BLE001
        return "p_score raised %s on a valid input" % type(e).__name__
    if not (np.isfinite(p) and p >= 0):
        return "p_score = %r not finite and >= 0" % p
    if not _close(B.p_score(rs, es), p, 1e-12):
        return "p_score changes under a common shift: %r vs %r" % (p, B.p_score(rs, es))
    if len(ref) >= 2 and len(est) >= 2:
        win, gap = _pscore_window(ref, est)
        if win is not None and gap is not None and gap > 2 * win and len(np.unique(ref)) == len(ref) \
                and len(np.unique(est)) == len(est) and p > 1.0 + 1e-9:
            return "p_score = %r > 1 although beats are further apart than twice the window" % p
        if _strict(inp["ref"]):
            win, gap = _pscore_window(ref, ref)
            if win is not None and gap > win and B.p_score(ref, ref) != 1.0:
                return "p_score(x, x) = %r" % B.p_score(ref, ref)
    return None


def _mckinney(ref, est, thr):
    """McKinney's P-score read directly off its definition, in exact rational arithmetic and without trains,
    correlation or slices: the number of pairs (distinct quantised reference sample, distinct quantised estimated
    sample) at most `win` samples apart, over max(|ref|, |est|); win = round(thr * median reference interval)"""
    import math
    ref, est, thr = [Fr(v) for v in ref], [Fr(v) for v in est], Fr(thr)
    if len(ref) < 2 or len(est) < 2:
        return Fr(0), None, None
    off = min(ref + est)
    ri = sorted(set(math.ceil((v - off) * 100) for v in ref))
    ei = sorted(set(math.ceil((v - off) * 100) for v in est))
    n = math.ceil(max(ref + est) - off) * 100 + 1
    d = sorted(b - a for a, b in zip(ri, ri[1:]))
    if not d:
        return Fr(0), None, n
    med = Fr(d[len(d) // 2]) if len(d) % 2 else Fr(d[len(d) // 2 - 1] + d[len(d) // 2], 2)
    win = round(thr * med)                       # Fraction.__round__: ties to even, like np.round
    cnt = sum(1 for i in ri for j in ei if abs(i - j) <= win)
    return Fr(cnt, max(len(ref), len(est))), win, n


def check_p_score_mckinney(inp):
    """C04 on ONE input: the real p_score equals McKinney's definition (independent brute-force reading)"""
    want, win, n = _mckinney(inp["ref"], inp["est"], inp["thr"])
    try:
        got = B.p_score(A(inp["ref"]), A(inp["est"]), float(Fr(inp["thr"])))
    except Exception as e:  # noqa: BLE001
        return "p_score raised %s on a valid input" % type(e).__name__
    if not _close(got, float(want), 1e-9):
        return "p_score = %r, McKinney's pair count / max(|ref|,|est|) = %s (window %s samples, train length %s)" % (
            got, want, win, n)
    return None


def gen_p_score_mckinney(rng, tier, shard, nshards, boost):
    for _ in range(nsize(tier, 60, 1500) * boost):
        if rng.random() < 0.6:
            ref, est, _ = pair(rng)
            thr = rng.choice([Fr(1, 5), Fr(1, 5), Fr(1, 4), Fr(1, 8), Fr(1, 2), Fr(0), Fr(1), Fr(-1, 4)])
        else:
            ref = regular(rng, nmin=2, nmax=4)
            est, _ = estimate(rng, ref, rng.choice(["copy", "shift", "jitter", "offbeat", "double", "dropins", "other"]))
            thr = rng.choice(PS_WIDE)
        # the threshold travels as an exact fraction ("1/5"): the definition is evaluated at 1/5, the code at float(1/5)
        yield {"ref": [float(v) for v in ref], "est": [float(v) for v in est], "thr": str(thr)}


def check_continuity(inp):
    ref, est, rs, es = _io(inp)
    c = [float(v) for v in B.continuity(ref, est)]
    if not all(0.0 <= v <= 1.0 + 1e-12 for v in c):
        return "continuity = %r outside [0,1]" % (c,)
    if c[0] > c[2] + 1e-12 or c[1] > c[3] + 1e-12:
        return "correct-metric-level score exceeds any-metric-level score: %r" % (c,)
    if c[0] > c[1] + 1e-12 or c[2] > c[3] + 1e-12:
        return "continuous score exceeds total score: %r" % (c,)
    c2 = [float(v) for v in B.continuity(rs, es)]
    if not all(_close(a, b, 1e-12) for a, b in zip(c, c2)):
        return "continuity changes under a common shift: %r vs %r" % (c, c2)
    if len(ref) >= 2 and _strict(inp["ref"]):
        s = [float(v) for v in B.continuity(ref, ref)]
        if s != [1.0, 1.0, 1.0, 1.0]:
            return "continuity(x, x) = %r" % (s,)
    return None


def check_information_gain(inp):
    ref, est, rs, es = _io(inp)
    g = float(B.information_gain(ref, est))
    dup = len(np.unique(ref)) < len(ref) or len(np.unique(est)) < len(est)
    if not dup and not (-1e-9 <= g <= 1.0 + 1e-9):
        return "information_gain = %r outside [0,1]" % g
    g2 = float(B.information_gain(rs, es))
    if not _close(g, g2):
        return "information_gain changes under a common shift: %r vs %r" % (g, g2)
    if len(ref) >= 2 and _strict(inp["ref"]) and not _close(float(B.information_gain(ref, ref)), 1.0):
        return "information_gain(x, x) = %r" % float(B.information_gain(ref, ref))
    return None


def gen_oracle(n_quick, n_thorough):
    def g(rng, tier, shard, nshards, boost):
        for _ in range(nsize(tier, n_quick, n_thorough) * boost):
            ref, est, _ = pair(rng)
            w = rng.choice([Fr(7, 100)] + DYADIC)
            w2 = w + rng.choice([Fr(0), Fr(1, 32), Fr(1, 8), Fr(1)])
            yield {"ref": [float(v) for v in ref], "est": [float(v) for v in est],
                   "c": float(Fr(rng.randint(-5 * LAT, 40 * LAT), LAT)) if ref and est and min(ref + est) >= 5 else 1.0,
                   "w": float(w), "w2": float(w2)}
    return g


CHECKERS = {
    "beat.definition": check_definition,
    "beat.f_measure": check_f_measure,
    "beat.cemgil": check_cemgil,
    "beat.cemgil:best": check_cemgil_best,
    "beat.goto": check_goto,
    "beat.p_score": check_p_score,
    "beat.p_score:mckinney": check_p_score_mckinney,
    "beat.continuity": check_continuity,
    "beat.information_gain": check_information_gain,
}
ORACLES = {
    "beat.f_measure": gen_oracle(60, 1500),
    "beat.cemgil": gen_oracle(60, 1500),
    "beat.cemgil:best": gen_oracle(40, 1000),
    "beat.goto": gen_oracle(60, 1500),
    "beat.p_score": gen_oracle(20, 300),
    "beat.p_score:mckinney": gen_p_score_mckinney,
    "beat.continuity": gen_oracle(60, 1500),
    "beat.information_gain": gen_oracle(60, 1500),
}
