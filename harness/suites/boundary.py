"""mir_eval.segment boundary metrics (validate_boundary, detection, deviation, util.intervals_to_boundaries) —
correspondence suites and property oracles on the real code.

Streams: E = 1/32 s lattice (np.round(.,5) is the identity), dyadic windows, boundaries exactly on / just
outside the window edge, trim on/off, beta in {1/4, 1, 4}; R = 1/64 and 1/128 s lattices (the 6th/7th
decimal exercises the half-even rounding and the merging of boundaries by np.unique) with windows j/256
(j odd: never a multiple of 1e-5, so no rounded difference sits on the threshold); D = 7-decimal times
at least 5e-7 away from a rounding tie, windows k ms + 0.5 ms; X = negative times, non-positive durations.
"""
from fractions import Fraction as Fr
import math

import numpy as np
import mir_eval

from core import Case
import gen
from suites import misc_util as mu


def ivarr(iv):
    return np.asarray(gen.fl(iv), dtype=float).reshape(-1, 2)


def impl_boundaries(iv):
    return mir_eval.util.intervals_to_boundaries(ivarr(iv))


def impl_validate(ref, est, trim):
    return mir_eval.segment.validate_boundary(ivarr(ref), ivarr(est), trim)


def impl_detection(ref, est, w, beta, trim):
    return mir_eval.segment.detection(ivarr(ref), ivarr(est), window=float(w), beta=float(beta), trim=trim)


def impl_deviation(ref, est, trim):
    return mir_eval.segment.deviation(ivarr(ref), ivarr(est), trim=trim)


IMPL = {"segment.intervals_to_boundaries": impl_boundaries, "segment.validate_boundary": impl_validate,
        "segment.detection": impl_detection, "segment.deviation": impl_deviation}


def case(op, args, tag, nontrivial=True):
    return Case(op, args, (lambda op=op, args=args: IMPL[op](*args)), tag=tag,
                info={"op": op, "args": mu.jargs(args)}, nontrivial=nontrivial)


# ---------------------------------------------------------------------------------------------
def segmentation(rng, lat=32, tmax=16, nmax=8):
    """contiguous segmentation (the usual input), sometimes with gaps / overlaps / a late start"""
    n = rng.choice([0, 1, 1, 2, 3, 4, 5, 6, nmax])
    if n == 0:
        return []
    pts = sorted(set(Fr(rng.randint(0, tmax * lat), lat) for _ in range(n + 1)))
    if len(pts) < 2:
        pts = [pts[0], pts[0] + Fr(1, lat)]
    if rng.random() < 0.5:
        pts[0] = Fr(0)
        pts = sorted(set(pts))
    iv = [[a, b] for a, b in zip(pts[:-1], pts[1:])]
    u = rng.random()
    if u < 0.15 and len(iv) > 1:
        del iv[rng.randrange(len(iv))]                       # gap
    elif u < 0.3:
        a = Fr(rng.randint(0, tmax * lat), lat)              # an overlapping extra interval
        iv.append([a, a + Fr(rng.randint(1, 2 * lat), lat)])
    return iv


def near_segmentation(rng, ref, w, lat=32):
    """an estimate whose boundaries sit on / next to the window edge around the reference boundaries"""
    pts = sorted(set(t for r in ref for t in r))
    out = set()
    for t in pts:
        u = rng.random()
        if u < 0.15:
            continue
        if u < 0.35:
            out.add(t)
        elif u < 0.6:
            out.add(max(Fr(0), t + rng.choice([-1, 1]) * w))
        elif u < 0.8:
            out.add(max(Fr(0), t + rng.choice([-1, 1]) * (w + Fr(1, lat))))
        else:
            out.add(max(Fr(0), t + Fr(rng.randint(-lat, lat), lat)))
    out = sorted(out)
    if len(out) < 2:
        return segmentation(rng, lat)
    return [[a, b] for a, b in zip(out[:-1], out[1:])]


def pair_E(rng):
    w = gen.window(rng)
    ref = segmentation(rng)
    u = rng.random()
    if u < 0.6 and ref:
        est = near_segmentation(rng, ref, w)
    elif u < 0.7:
        est = [list(r) for r in ref]
    else:
        est = segmentation(rng)
    return ref, est, w


def pair_R(rng):
    lat = rng.choice([64, 128])
    ref = segmentation(rng, lat=lat, tmax=4)
    est = segmentation(rng, lat=lat, tmax=4) if rng.random() < 0.5 else \
        [[max(Fr(0), a + Fr(rng.randint(-2, 2), lat)), b + Fr(rng.randint(3, 5), lat)] for a, b in ref]
    w = Fr(rng.choice([1, 3, 33, 129, 255, 769]), 256)
    return ref, est, w


def dec7(rng, tmax=30):
    """a 7-decimal time whose 6th/7th decimals are not within 0.05 of a rounding tie"""
    while True:
        m = rng.randint(0, tmax * 10 ** 7)
        if rng.random() < 0.5:
            m = (m // 10 ** 4) * 10 ** 4 + rng.randint(-40, 40)   # close to a millisecond
            m = max(m, 0)
        if not (45 <= m % 100 <= 55):
            return Fr(m, 10 ** 7)


def pair_D(rng):
    def seg():
        n = rng.randint(0, 8)
        pts = sorted(set(dec7(rng) for _ in range(n + 1)))
        return [[a, b] for a, b in zip(pts[:-1], pts[1:]) if b - a > Fr(1, 1000)]
    ref, est = seg(), seg()
    # snap to milliseconds + a few 1e-5 so that rounded differences stay >= 1e-4 away from k ms + 0.5 ms
    def snap(t):
        ms = round(t * 1000)
        return Fr(ms, 1000) + Fr(rng.randint(-20, 20), 10 ** 5) + Fr(rng.randint(-40, 40), 10 ** 7)
    def snapseg(s):
        out = []
        for a, b in s:
            a2, b2 = max(Fr(0), snap(a)), snap(b)
            if b2 - a2 > Fr(1, 2000):
                out.append([a2, b2])
        return out
    w = Fr(rng.choice([0, 10, 100, 500, 3000]), 1000) + Fr(1, 2000)
    return snapseg(ref), snapseg(est), w


def fault(rng, ref, est):
    kind = rng.choice(["negative", "zero-duration", "negative-duration"])
    side = rng.randint(0, 1)
    iv = [list(r) for r in [ref, est][side]]
    if kind == "negative":
        iv = [[Fr(-1, 32), Fr(1)]] + iv
    elif kind == "zero-duration":
        iv = iv + [[Fr(2), Fr(2)]]
    else:
        iv = iv + [[Fr(3), Fr(2)]]
    return (iv, est, kind) if side == 0 else (ref, iv, kind)


BETAS = [Fr(1, 4), Fr(1), Fr(1), Fr(4)]


def suite_detection(rng, tier, shard, nshards):
    n = 500 if tier == "quick" else 1500
    for _ in range(n):
        ref, est, w = pair_E(rng)
        trim = rng.random() < 0.4
        yield case("segment.detection", [ref, est, w, rng.choice(BETAS), trim], "E trim=%s" % trim,
                   nontrivial=bool(ref and est))
    for _ in range(n // 4):
        ref, est, w = pair_R(rng)
        trim = rng.random() < 0.3
        yield case("segment.detection", [ref, est, w, rng.choice(BETAS), trim], "R", nontrivial=bool(ref and est))
    for _ in range(n // 4):
        ref, est, w = pair_D(rng)
        trim = rng.random() < 0.3
        yield case("segment.detection", [ref, est, w, rng.choice(BETAS), trim], "D", nontrivial=bool(ref and est))
    for _ in range(n // 10):
        ref, est, w = pair_E(rng)
        ref, est, kind = fault(rng, ref, est)
        yield case("segment.detection", [ref, est, w, Fr(1), rng.random() < 0.5], "X " + kind)


def suite_deviation(rng, tier, shard, nshards):
    n = 400 if tier == "quick" else 3500
    for _ in range(n):
        ref, est, w = pair_E(rng)
        trim = rng.random() < 0.4
        yield case("segment.deviation", [ref, est, trim], "E trim=%s" % trim, nontrivial=bool(ref and est))
    for _ in range(n // 4):
        ref, est, w = pair_R(rng) if rng.random() < 0.5 else pair_D(rng)
        yield case("segment.deviation", [ref, est, rng.random() < 0.3], "R/D", nontrivial=bool(ref and est))
    for _ in range(n // 10):
        ref, est, w = pair_E(rng)
        ref, est, kind = fault(rng, ref, est)
        yield case("segment.deviation", [ref, est, rng.random() < 0.5], "X " + kind)
        yield case("segment.validate_boundary", [ref, est, rng.random() < 0.5], "X validate " + kind)


def suite_boundaries(rng, tier, shard, nshards):
    n = 300 if tier == "quick" else 3000
    for _ in range(n):
        u = rng.random()
        if u < 0.3:
            iv = segmentation(rng)
            tag = "E"
        elif u < 0.7:
            iv = segmentation(rng, lat=rng.choice([64, 128]), tmax=4)
            tag = "R"
        elif u < 0.85:
            iv = pair_D(rng)[0]
            tag = "D"
        else:
            pts = sorted(set(dec7(rng) for _ in range(rng.randint(2, 8))))
            iv = [[a, b] for a, b in zip(pts[:-1], pts[1:])]
            tag = "D raw 7-decimal"
        yield case("segment.intervals_to_boundaries", [iv], tag, nontrivial=bool(iv))


SUITES = {"segment.detection": suite_detection, "segment.deviation": suite_deviation,
          "segment.intervals_to_boundaries": suite_boundaries}


# ---------------------------------------------------------------------------------------------
# property oracles on the real code
def _det(ref, est, w, beta, trim):
    return [float(x) for x in impl_detection(ref, est, w, beta, trim)]


def _dev(ref, est, trim):
    return [float(x) for x in impl_deviation(ref, est, trim)]


def _bounds(iv, trim):
    b = sorted(set(float(x) for x in impl_boundaries(iv)))
    return b[1:-1] if trim else b


def check_detection(inp):
    prop = inp["prop"]
    ref, est = mu.unjargs(inp["ref"]), mu.unjargs(inp["est"])
    w, beta, trim = mu.unjargs(inp["w"]), mu.unjargs(inp["beta"]), inp["trim"]
    ctx = "(ref=%s est=%s w=%s beta=%s trim=%s)" % (inp["ref"], inp["est"], inp["w"], inp["beta"], trim)
    if prop == "range":
        s = _det(ref, est, w, beta, trim)
        if not all(mu.in01(x) for x in s):
            return "segment.detection = %r outside [0,1] %s" % (s, ctx)
    elif prop == "self":
        s = _det(ref, [list(r) for r in ref], w, beta, trim)
        if _bounds(ref, trim) and w >= 0 and not all(mu.close(x, 1.0) for x in s):
            return "segment.detection(x,x) = %r, expected (1,1,1) %s" % (s, ctx)
    elif prop == "definition":
        s = _det(ref, est, w, beta, trim)
        rb, eb = _bounds(ref, trim), _bounds(est, trim)
        if rb and eb:
            # on the lattice the float boundaries are exact: the threshold comparison below is exact
            adj = [[j for j, e in enumerate(eb) if e - float(w) <= r <= e + float(w)] for r in rb]
            k = mu.max_matching(len(rb), adj)
            p, r = Fr(k, len(eb)), Fr(k, len(rb))
            want = [float(p), float(r), float(mu.fmeasure(p, r, beta))]
        else:
            want = [0.0, 0.0, 0.0]
        if not all(mu.close(a, b) for a, b in zip(s, want)):
            return "segment.detection = %r, definition gives %r %s" % (s, want, ctx)
    elif prop == "swap":
        a, b = _det(ref, est, w, Fr(1), trim), _det(est, ref, w, Fr(1), trim)
        if not (mu.close(b[0], a[1]) and mu.close(b[1], a[0]) and mu.close(b[2], a[2])):
            return "segment.detection swap: %r vs %r %s" % (a, b, ctx)
    elif prop == "widen":
        w2 = mu.unjargs(inp["w2"])
        a, b = _det(ref, est, w, beta, trim), _det(ref, est, w2, beta, trim)
        if not all(x <= y + 1e-12 for x, y in zip(a, b)):
            return "segment.detection widen %s -> %s: %r then %r %s" % (inp["w"], inp["w2"], a, b, ctx)
    else:
        raise ValueError(prop)
    return None


def check_deviation(inp):
    prop = inp["prop"]
    ref, est, trim = mu.unjargs(inp["ref"]), mu.unjargs(inp["est"]), inp["trim"]
    ctx = "(ref=%s est=%s trim=%s)" % (inp["ref"], inp["est"], trim)
    if prop == "range":
        s = _dev(ref, est, trim)
        empty = (not _bounds(ref, trim)) or (not _bounds(est, trim))
        for x in s:
            if math.isnan(x) != empty:
                return "segment.deviation = %r, NaN exactly when a side has no boundaries is violated %s" % (s, ctx)
            if not math.isnan(x) and not (math.isfinite(x) and x >= 0):
                return "segment.deviation = %r negative or infinite %s" % (s, ctx)
    elif prop == "self":
        s = _dev(ref, [list(r) for r in ref], trim)
        if _bounds(ref, trim) and s != [0.0, 0.0]:
            return "segment.deviation(x,x) = %r, expected (0,0) %s" % (s, ctx)
    elif prop == "definition":
        s = _dev(ref, est, trim)
        rb, eb = _bounds(ref, trim), _bounds(est, trim)
        if rb and eb:
            med = lambda xs: (lambda t: t[len(t) // 2] if len(t) % 2 else (t[len(t) // 2 - 1] + t[len(t) // 2]) / 2)(sorted(xs))
            want = [med([min(abs(r - e) for e in eb) for r in rb]), med([min(abs(r - e) for r in rb) for e in eb])]
            if not all(mu.close(a, b) for a, b in zip(s, want)):
                return "segment.deviation = %r, definition gives %r %s" % (s, want, ctx)
    elif prop == "swap":
        a, b = _dev(ref, est, trim), _dev(est, ref, trim)
        if not (mu.close(a[0], b[1]) and mu.close(a[1], b[0])):
            return "segment.deviation swap: %r vs %r %s" % (a, b, ctx)
    else:
        raise ValueError(prop)
    return None


def gen_detection(rng, tier, shard, nshards, boost):
    n = (120 if tier == "quick" else 800) * boost
    for _ in range(n):
        ref, est, w = pair_E(rng)
        base = {"ref": mu.jargs(ref), "est": mu.jargs(est), "w": mu.jargs(w),
                "beta": mu.jargs(rng.choice(BETAS)), "trim": rng.random() < 0.4}
        for prop in ("range", "self", "definition", "swap"):
            yield dict(base, prop=prop)
        yield dict(base, prop="widen", w2=mu.jargs(w + rng.choice([Fr(0), Fr(1, 32), Fr(1, 8), Fr(1)])))
    # decimal ties (region window_tie_within_rounding)
    for _ in range(10 * boost):
        a, k = rng.randint(1, 60), rng.randint(1, 40)
        yield {"prop": "swap", "ref": [[0, (a + k) / 10]], "est": [[0, a / 10]], "w": k / 10, "beta": 1, "trim": False}


def gen_deviation(rng, tier, shard, nshards, boost):
    n = (120 if tier == "quick" else 800) * boost
    for _ in range(n):
        ref, est, w = pair_E(rng)
        base = {"ref": mu.jargs(ref), "est": mu.jargs(est), "trim": rng.random() < 0.4}
        for prop in ("range", "self", "definition", "swap"):
            yield dict(base, prop=prop)


CHECKERS = {"segment.detection": check_detection, "segment.deviation": check_deviation}
ORACLES = {"segment.detection": gen_detection, "segment.deviation": gen_deviation}
