"""Windowed event metrics vs the generic HitMetric model (onset.f_measure, beat.f_measure)."""
from fractions import Fraction as Fr

import mir_eval

from core import Case
import gen


def suite_onset(rng, tier, shard, nshards):
    n = 300 if tier == "quick" else 10000
    for _ in range(n):
        w = gen.window(rng)
        ref = gen.events(rng)
        est = gen.near(rng, ref, w) if rng.random() < 0.7 else gen.events(rng)

        def call(ref=ref, est=est, w=w):
            f, p, r = mir_eval.onset.f_measure(gen.arr(ref), gen.arr(est), window=float(w))
            return [p, r, f]
        yield Case("hitmetric.event_prf", [ref, est, w, Fr(1)], call, tag="onset w=%s" % w,
                   info={"ref": [str(x) for x in ref], "est": [str(x) for x in est], "window": str(w)},
                   nontrivial=bool(ref and est))


def suite_beat_f(rng, tier, shard, nshards):
    n = 300 if tier == "quick" else 10000
    for _ in range(n):
        w = gen.window(rng)
        ref = sorted(set(x + 5 for x in gen.events(rng)))
        est = gen.near(rng, ref, w) if rng.random() < 0.7 else [x + 5 for x in gen.events(rng)]

        def call(ref=ref, est=est, w=w):
            return mir_eval.beat.f_measure(gen.arr(ref), gen.arr(est), f_measure_threshold=float(w))
        yield Case("hitmetric.event_prf", [ref, est, w, Fr(1)], call, tag="beat w=%s" % w,
                   info={"ref": [str(x) for x in ref], "est": [str(x) for x in est], "window": str(w)},
                   nontrivial=bool(ref and est), post=lambda v: v[2])


SUITES = {"onset_f_measure": suite_onset, "beat_f_measure": suite_beat_f}
