"""Stream F (DESIGN Part II §2.4): inputs derived from the annotation files shipped in /repo/tests/data.

Every file is read with the loader the task's own tests use (`mir_eval.io.load_*`), snapped to a lattice on which binary64
performs the code's comparisons exactly as the rational model does (1/32 s for event / interval times, 1/16 s for notes,
the task's hop written as a short decimal for melody / multipitch frames, a fraction-of-a-semitone lattice for pitches with
windows kept >= 1/16 semitone (multipitch) or >= 1 cent (melody, transcription) away from every reachable difference),
perturbed (drop / duplicate / shift a subset, swap two labels, merge two adjacent segments, truncate the estimate, estimate
= reference, reference <-> estimate, cut both to a sub-span), written back as text and read AGAIN through the real loader
inside `call`, so the implementation side of every case runs `mir_eval.io` + the metric on the exact values the model got.

Two older suites (`onset_fixtures`, `beat_fixtures`) keep the files' own decimal time stamps (plus a per-file offset) and
only run hit-based metrics on them, dropping a case when some |ref_i - est_j| lies within 1e-6 of the window.

Sizes: a case holds at most ~150 events / notes / frames in the quick tier (contiguous excerpt of the file), ~400 in
thorough.  Tags are `fixture:<task>:<perturbation>`.
"""
import glob
import io
import math
import os
from decimal import Decimal
from fractions import Fraction as Fr

import numpy as np
import mir_eval

import core
from core import Case

DATA = os.path.join(core.REPO, "tests", "data")
LAT = 32
RULE_NOTE = ("stream F: the annotation files under tests/data read through mir_eval.io, snapped to the exact lattice "
             "(1/32 s, notes 1/16 s, melody / multipitch frames on their own decimal hop, pitches on a fraction-of-a-"
             "semitone lattice with margins), perturbed (drop / duplicate / shift a subset, swap labels, merge / split "
             "segments, truncate head or tail, estimate = reference, reference <-> estimate, sub-span) and read again "
             "through the real loader; at most ~150 events / notes / frames per case in quick, ~400 in thorough; cases "
             "tagged fixture:<task>:<perturbation>")


# ------------------------------------------------------------------------------------------------
# files, caching, exact text

def have(task):
    return os.path.isdir(os.path.join(DATA, task))


def _pairs(task, ext="txt"):
    refs = sorted(glob.glob(os.path.join(DATA, task, "ref*." + ext)))
    out = []
    for r in refs:
        e = os.path.join(os.path.dirname(r), os.path.basename(r).replace("ref", "est", 1))
        if os.path.exists(e):
            out.append((r, e))
    return out


_CACHE = {}


def cached(key, fn):
    if key not in _CACHE:
        import warnings
        with warnings.catch_warnings():
            warnings.simplefilter("ignore")
            _CACHE[key] = fn()
    return _CACHE[key]


def load(loader, path):
    """a fixture file through the real loader (cached per process; the arrays are never modified)"""
    return cached((loader.__name__, path), lambda: loader(path))


def nmax(tier, quick=150, thorough=400):
    return quick if tier == "quick" else thorough


def reps(tier, quick=3, thorough=24):
    return quick if tier == "quick" else thorough


def plan(pairs, tier, shard, nshards, kinds, quick=3, thorough=24):
    """(file pair, perturbation) for this shard: every perturbation is met in every tier, files rotate"""
    idx = 0
    for k in range(reps(tier, quick, thorough)):
        for pi, p in enumerate(pairs):
            idx += 1
            if idx % nshards != shard:
                continue
            yield p, kinds[(k * len(pairs) + pi + k) % len(kinds)]


def snap(x, lat=LAT):
    return Fr(int(round(float(x) * lat)), lat)


def dec(v):
    """exact decimal text of a rational whose denominator divides a power of ten (lattice values, short decimals)"""
    v = Fr(v)
    d = v.denominator
    k = 0
    while d % 2 == 0:
        d //= 2
        k += 1
    m = 0
    while d % 5 == 0:
        d //= 5
        m += 1
    assert d == 1, "not a finite decimal: %r" % (v,)
    p = max(k, m)
    n = v.numerator * (10 ** p // v.denominator)
    s = "%d" % abs(n)
    if p:
        s = s.rjust(p + 1, "0")
        s = s[:-p] + "." + s[-p:]
    return ("-" if n < 0 else "") + s


def S(x):
    if isinstance(x, (list, tuple)):
        return [S(v) for v in x]
    if isinstance(x, Fr):
        return str(x)
    return x


def base(p):
    return os.path.basename(p)


# ---- the same exact values as text, through the real loaders (what the implementation side receives)

def io_events(vals):
    if not vals:
        return np.zeros(0)
    return mir_eval.io.load_events(io.StringIO("".join(dec(v) + "\n" for v in vals)))


def io_intervals(iv):
    if not iv:
        return np.zeros((0, 2))
    return mir_eval.io.load_intervals(io.StringIO("".join("%s\t%s\n" % (dec(a), dec(b)) for a, b in iv)))


def io_labeled(iv, labels):
    if not iv:
        return np.zeros((0, 2)), []
    txt = "".join("%s\t%s\t%s\n" % (dec(a), dec(b), l) for (a, b), l in zip(iv, labels))
    return mir_eval.io.load_labeled_intervals(io.StringIO(txt))


def io_valued(iv, vals):
    """vals are floats (Hz): repr() round-trips exactly through float()"""
    if not iv:
        return np.zeros((0, 2)), np.zeros(0)
    txt = "".join("%s\t%s\t%r\n" % (dec(a), dec(b), float(v)) for (a, b), v in zip(iv, vals))
    return mir_eval.io.load_valued_intervals(io.StringIO(txt))


def io_time_series(ts, vals):
    if not ts:
        return np.zeros(0), np.zeros(0)
    txt = "".join("%s\t%r\n" % (dec(t), float(v)) for t, v in zip(ts, vals))
    return mir_eval.io.load_time_series(io.StringIO(txt))


def io_ragged(ts, frames):
    if not ts:
        return np.zeros(0), []
    txt = "".join(dec(t) + "".join("\t%r" % float(v) for v in f) + "\n" for t, f in zip(ts, frames))
    return mir_eval.io.load_ragged_time_series(io.StringIO(txt))


# ------------------------------------------------------------------------------------------------
# generic perturbations of (reference, estimate) item lists; `shift(item, d)` moves an item in time

EVENT_KINDS = ["asis", "drop", "dup", "shift", "truncate", "self", "swap", "subspan", "drop+shift", "head", "self+head",
               "self+shift"]


def excerpt(rng, ref, est, key, n):
    """a contiguous excerpt of at most n reference items and the estimate items in the same time span"""
    if len(ref) <= n and len(est) <= n + n // 4:
        return list(ref), list(est)
    if len(ref) <= n:
        lo, hi = key(ref[0]) if ref else Fr(0), key(ref[-1]) if ref else Fr(0)
        i0 = 0
    else:
        i0 = rng.randrange(len(ref) - n + 1)
        lo, hi = key(ref[i0]), key(ref[i0 + n - 1])
    r = list(ref[i0:i0 + n])
    e = [x for x in est if lo - 1 <= key(x) <= hi + 1][:n + n // 4]
    return r, e


def perturb(rng, ref, est, kind, shift, key, step):
    ref, est = list(ref), list(est)
    for k in kind.split("+"):
        if k == "asis":
            pass
        elif k == "self":
            est = list(ref)
        elif k == "swap":
            ref, est = est, ref
        elif k == "drop":
            est = [x for x in est if rng.random() >= 0.2]
        elif k == "dup":
            out = []
            for x in est:
                out.append(x)
                if rng.random() < 0.1:
                    out.append(x)
            est = out
        elif k == "shift":
            est = [shift(x, rng.choice([-3, -2, -1, 1, 2, 3]) * step) if rng.random() < 0.3 else x for x in est]
            est = sorted((x for x in est if key(x) >= 0), key=key)
        elif k == "truncate":
            est = est[:rng.randint(len(est) // 3, len(est))] if est else est
        elif k == "head":
            est = est[rng.randint(len(est) // 4, len(est) // 2):]      # the estimate starts late
        elif k == "subspan":
            if ref:
                lo, hi = key(ref[0]), key(ref[-1])
                a = lo + (hi - lo) * Fr(rng.randint(0, 4), 8)
                b = a + (hi - lo) / 2
                ref = [x for x in ref if a <= key(x) <= b]
                est = [x for x in est if a <= key(x) <= b]
        else:
            raise ValueError(kind)
    return ref, est


def ftag(task, kind):
    return "fixture:%s:%s" % (task, kind)


# ------------------------------------------------------------------------------------------------
# onset, beat (older decimal suites): the files' own decimals + a per-file offset, hit-based metrics only

def _read(path):
    """first column of every non-comment line, rounded to 6 decimals (so the perturbed values stay short decimals)"""
    out = []
    for line in open(path):
        line = line.strip()
        if not line or line.startswith("#"):
            continue
        out.append(Fr(round(Decimal(line.split()[0]), 6)))
    return out


def _offset(vals, k):
    # a per-file offset that is not a multiple of any default threshold, cumulative so that order is preserved
    d = Fr(1234577 + 1000 * k, 10 ** 10)
    return [v + d * (i % 7 + 1) for i, v in enumerate(vals)]


def _safe(ref, est, w, margin=Fr(1, 10 ** 6)):
    j0 = 0
    for r in ref:
        while j0 < len(est) and est[j0] < r - w - 1:
            j0 += 1
        j = j0
        while j < len(est) and est[j] <= r + w + 1:
            if abs(abs(r - est[j]) - w) <= margin:
                return False
            j += 1
    return True


def suite_onset_fixtures(rng, tier, shard, nshards):
    pairs = _pairs("onset")
    idx = 0
    for rp, ep in pairs:
        for k in range(reps(tier, 2, 20)):
            idx += 1
            if idx % nshards != shard:
                continue
            ref = sorted(_offset(_read(rp), rng.randint(0, 999)))
            est = sorted(_offset(_read(ep), rng.randint(0, 999)))
            w = rng.choice([Fr(1, 20), Fr(1, 40), Fr(1, 10), Fr(7, 100)])
            if not _safe(ref, est, w):
                continue

            def call(ref=ref, est=est, w=w):
                f, p, r = mir_eval.onset.f_measure(io_events(ref), io_events(est), window=float(w))
                return [p, r, f]
            yield Case("hitmetric.event_prf", [ref, est, w, Fr(1)], call, tag=ftag("onset", "decimal-offset"),
                       info={"ref_file": base(rp), "est_file": base(ep), "window": str(w), "n_ref": len(ref),
                             "n_est": len(est)}, nontrivial=True)


def suite_beat_fixtures(rng, tier, shard, nshards):
    pairs = _pairs("beat")
    idx = 0
    for rp, ep in pairs:
        for k in range(reps(tier, 2, 20)):
            idx += 1
            if idx % nshards != shard:
                continue
            ref = [v for v in sorted(_offset(_read(rp), rng.randint(0, 999))) if v >= 5]
            est = [v for v in sorted(_offset(_read(ep), rng.randint(0, 999))) if v >= 5]
            w = rng.choice([Fr(7, 100), Fr(1, 20), Fr(1, 10)])
            if not _safe(ref, est, w):
                continue

            def call(ref=ref, est=est, w=w):
                return mir_eval.beat.f_measure(io_events(ref), io_events(est), f_measure_threshold=float(w))
            yield Case("hitmetric.event_prf", [ref, est, w, Fr(1)], call, tag=ftag("beat", "decimal-offset"),
                       info={"ref_file": base(rp), "est_file": base(ep), "window": str(w), "n_ref": len(ref),
                             "n_est": len(est)}, nontrivial=True, post=lambda v: v[2])


# ------------------------------------------------------------------------------------------------
# events on the 1/32 s lattice: onset, beat (all metrics), matching (C05), alignment

def lattice_events(path, lat=LAT):
    ev = load(mir_eval.io.load_events, path)
    return sorted(snap(t, lat) for t in ev)


def event_pair(rng, tier, rp, ep, kind, n=None):
    ref, est = lattice_events(rp), lattice_events(ep)
    ref, est = excerpt(rng, ref, est, lambda t: t, n or nmax(tier))
    return perturb(rng, ref, est, kind, lambda t, d: t + d, lambda t: t, Fr(1, LAT))


def _finfo(rp, ep, kind, **kw):
    d = {"ref_file": base(rp), "est_file": base(ep), "perturbation": kind}
    d.update(kw)
    return d


def suite_onset(rng, tier, shard, nshards):
    """onset.f_measure / onset.evaluate on lattice-snapped onset files"""
    from suites import onset as SO
    for (rp, ep), kind in plan(_pairs("onset"), tier, shard, nshards, EVENT_KINDS):
        ref, est = event_pair(rng, tier, rp, ep, kind)
        w = rng.choice([Fr(1, 20), Fr(1, 20), Fr(1, 32), Fr(1, 16), Fr(1, 10), Fr(7, 100)])
        info = _finfo(rp, ep, kind, op="onset.f_measure", args=S([ref, est, w]))
        yield Case("onset.f_measure", [ref, est, w],
                   lambda ref=ref, est=est, w=w: mir_eval.onset.f_measure(io_events(ref), io_events(est), window=float(w)),
                   tag=ftag("onset", kind), info=info, nontrivial=bool(ref and est))
        yield Case("onset.evaluate", [ref, est, None],
                   lambda ref=ref, est=est: mir_eval.onset.evaluate(io_events(ref), io_events(est)),
                   tag=ftag("onset", kind), info=dict(info, op="onset.evaluate", args=S([ref, est, None])),
                   nontrivial=bool(ref and est))


def _beat_case(op, args, tag, info, nontrivial=True):
    """suites.beat.case with the beat lists handed to the real code through io.load_events"""
    from suites import beat as SB

    def real(op=op, args=args):
        a = [io_events(x) if isinstance(x, list) and (not x or isinstance(x[0], Fr)) and i < 2 else x
             for i, x in enumerate(args)]
        return SB.REAL[op](*a)
    info = dict(info, op=op, args=SB.jargs(args))
    if op.endswith("_checked"):
        return SB.checked(op, args, real, tag, info, nontrivial, SB.MERGE.get(op))
    return Case(op, args, real, tag=tag, info=info, nontrivial=nontrivial)


def suite_beat(rng, tier, shard, nshards):
    """every beat metric (and evaluate) on lattice-snapped beat files; thresholds at their documented defaults"""
    from suites import beat as SB
    for (rp, ep), kind in plan(_pairs("beat"), tier, shard, nshards, EVENT_KINDS):
        ref0, est0 = event_pair(rng, tier, rp, ep, kind)
        tag, info = ftag("beat", kind), _finfo(rp, ep, kind)
        ps = list(SB.DEFAULTS)
        if not SB._is_dyadic(ps[8]) and SB.period_tie_possible([v for v in ref0 if v >= 5], [v for v in est0 if v >= 5], ps[8]):
            ps[8] = Fr(1, 8)
        yield _beat_case("beat.evaluate_checked", [ref0, est0, ps], tag, info, len(ref0) >= 2 and len(est0) >= 2)
        yield _beat_case("beat.trim_beats", [ref0, Fr(5)], tag, info)
        ref = [v for v in ref0 if v >= 5]
        est = [v for v in est0 if v >= 5]
        nt = len(ref) >= 2 and len(est) >= 2
        yield _beat_case("beat.f_measure", [ref, est, Fr(7, 100)], tag, info, nt)
        yield _beat_case("beat.cemgil", [ref, est, Fr(1, 25)], tag, info, nt)
        yield _beat_case("beat.goto_checked", [ref, est, Fr(7, 20), Fr(1, 5), Fr(1, 5)], tag, info, nt)
        yield _beat_case("beat.p_score", [ref, est, Fr(1, 5)], tag, info, nt)
        q = Fr(7, 40)
        if SB.period_tie_possible(ref, est, q):
            q = Fr(1, 8)
        yield _beat_case("beat.continuity", [ref, est, Fr(7, 40), q], tag, info, nt)
        yield _beat_case("beat.information_gain_checked", [ref, est, 41], tag, info, nt)
        # the literal correlate-and-slice reading of p_score on a short excerpt (its model is quadratic in the train length)
        r2, e2 = ref[:24], [v for v in est if not ref[:24] or v <= ref[:24][-1] + 1][:30]
        yield _beat_case("beat.p_score_literal", [r2, e2, Fr(1, 5)], tag, info, len(r2) >= 2 and len(e2) >= 2)



def _hk_case(adj_items, tag, info):
    """util._bipartite_match on an adjacency dict in insertion order vs the transliterated Hopcroft-Karp (pair for pair)"""
    adj = [[int(u), [int(v) for v in vs]] for u, vs in adj_items]

    def call(adj=adj):
        G = {}
        for u, vs in adj:
            G[u] = list(vs)
        m = sorted(mir_eval.util._bipartite_match(G).items())
        return [[[int(v), int(u)] for v, u in m], len(m)]
    return Case("util._bipartite_match", [adj], call, tag=tag, info=dict(info, adj=adj), nontrivial=any(vs for _, vs in adj))


def suite_matching(rng, tier, shard, nshards):
    """C05 on realistic hit graphs: beat / onset files, narrow and wide windows (a wide window makes a banded graph in
    which the matching is far from forced); the pairing the real util.match_events returns goes through the proved checker"""
    pairs = _pairs("beat") + _pairs("onset")
    for (rp, ep), kind in plan(pairs, tier, shard, nshards, EVENT_KINDS, quick=2, thorough=12):
        ref, est = event_pair(rng, tier, rp, ep, kind, n=nmax(tier, 120, 300))
        task = "beat" if os.sep + "beat" + os.sep in rp else "onset"
        w = rng.choice([Fr(1, 20), Fr(7, 100), Fr(1, 4), Fr(1, 2), Fr(1), Fr(3, 2)])
        tag = ftag("matching(%s files)" % task, kind)
        info = _finfo(rp, ep, kind, ref=S(ref), est=S(est), window=str(w))
        try:
            a, b = io_events(ref), io_events(est)
            prs = [(int(x), int(y)) for x, y in mir_eval.util.match_events(a, b, float(w))]
            res = [True, len(prs), len(prs), True]
            call = (lambda r=res: r)
        except Exception as e:  # noqa: BLE001
            prs = []
            call = (lambda e=e: (_ for _ in ()).throw(e))
        yield Case("matching.check_events", [ref, est, w, [list(p) for p in prs]], call, tag=tag, info=info,
                   nontrivial=bool(ref and est))

        def hits(ref=ref, est=est, w=w):
            x, y = mir_eval.util._fast_hit_windows(io_events(ref), io_events(est), float(w))
            return sorted([int(i), int(j)] for i, j in zip(x, y))
        yield Case("util._fast_hit_windows", [ref, est, w], hits, tag=tag, info=info, nontrivial=bool(ref and est))
        yield Case("matching.hit_pairs", [ref, est, w], hits, tag=tag, info=info, nontrivial=bool(ref and est))
        yield Case("util.match_events.size", [ref, est, w],
                   lambda ref=ref, est=est, w=w: len(mir_eval.util.match_events(io_events(ref), io_events(est), float(w))),
                   tag=tag, info=info, nontrivial=bool(ref and est))
        # the adjacency dict exactly as match_events builds it (estimate -> references, in enumeration order)
        G = {}
        for i, j in zip(*mir_eval.util._fast_hit_windows(io_events(ref), io_events(est), float(w))):
            G.setdefault(int(j), []).append(int(i))
        yield _hk_case(list(G.items()), tag, _finfo(rp, ep, kind, window=str(w)))


def suite_alignment(rng, tier, shard, nshards):
    """alignment metrics: the (short) alignment files, and onset / beat reference files read as long word-onset sequences
    against a displaced copy (the task needs equally long sequences)"""
    from suites import alignment as SA
    kinds = ["asis", "shift", "self", "swap", "subspan", "shift+subspan", "truncate"]
    srcs = [(p, "alignment") for p in _pairs("alignment")] + [(p, "alignment(onset files)") for p in _pairs("onset")[:5]] + \
           [(p, "alignment(beat files)") for p in _pairs("beat")[:5]]
    for ((rp, ep), task), kind in plan(srcs, tier, shard, nshards, kinds, quick=2, thorough=12):
        ref = lattice_events(rp)
        if task == "alignment":
            est = lattice_events(ep)
        else:
            est = sorted(max(Fr(0), t + Fr(rng.choice([0, 0, 1, -1, 2, -3, 5, -8, 10, 16, -24]), LAT)) for t in ref)
        n = min(len(ref), len(est), nmax(tier))
        i0 = rng.randint(0, len(ref) - n) if len(ref) == len(est) else 0
        ref, est = ref[i0:i0 + n], est[i0:i0 + n]
        for k in kind.split("+"):
            if k == "shift":
                est = sorted(max(Fr(0), t + Fr(rng.choice([-9, -3, -1, 1, 3, 9, 10]), LAT)) if rng.random() < 0.4 else t
                             for t in est)
            elif k == "self":
                est = list(ref)
            elif k == "swap":
                ref, est = est, ref
            elif k == "subspan" and n > 2:
                a = rng.randint(0, n // 2)
                b = rng.randint(a + 1, n)
                ref, est = ref[a:b], est[a:b]
            elif k == "truncate" and n > 1:
                m = rng.randint(1, len(ref))
                ref, est = ref[:m], est[:m]
        if not ref:
            continue
        hi = max(ref + est)
        d = rng.choice([None, hi, hi + Fr(rng.randint(1, 320), LAT)])
        w = rng.choice([Fr(3, 10), Fr(3, 10), Fr(1, 8), Fr(1, 2), Fr(1)])
        tag = ftag(task, kind)

        def mk(op, args):
            def call(op=op, args=args):
                a = [io_events(x) if isinstance(x, list) else x for x in args]
                return SA.IMPL[op](*a)
            return Case(op, args, call, tag=tag, info=_finfo(rp, ep, kind, op=op, args=S(args)), nontrivial=len(ref) >= 2)
        yield mk("alignment.absolute_error", [ref, est])
        yield mk("alignment.percentage_correct", [ref, est, w])
        yield mk("alignment.percentage_correct_segments", [ref, est, d])
        yield mk("alignment.karaoke_perceptual_metric", [ref, est])
        yield mk("alignment.evaluate", [ref, est, None, d])


# ------------------------------------------------------------------------------------------------
# labelled intervals on the 1/32 s lattice: segment (boundaries + frame clustering), chord, hierarchy

def lattice_labeled(path, lat=LAT):
    """[[start, end, label]] snapped to the lattice; intervals that the snapping empties are dropped"""
    iv, labels = load(mir_eval.io.load_labeled_intervals, path)
    out = []
    for (a, b), l in zip(iv, labels):
        a, b = snap(a, lat), snap(b, lat)
        if a < b:
            out.append([a, b, l])
    return out


def crop(segs, a, b, rebase=True):
    out = []
    for s, e, l in segs:
        s2, e2 = max(s, a), min(e, b)
        if s2 < e2:
            out.append([s2 - a, e2 - a, l] if rebase else [s2, e2, l])
    return out


SEG_KINDS = ["asis", "self", "swap", "merge", "split", "swaplabels", "shift", "truncate", "subspan", "merge+shift",
             "subspan+swaplabels"]


def seg_perturb(rng, ref, est, kind, lat=LAT):
    ref, est = [list(x) for x in ref], [list(x) for x in est]
    for k in kind.split("+"):
        if k == "self":
            est = [list(x) for x in ref]
        elif k == "swap":
            ref, est = est, ref
        elif k == "merge":
            for _ in range(rng.choice([1, 1, 2, 4])):
                if len(est) >= 2:
                    i = rng.randrange(len(est) - 1)
                    if est[i][1] == est[i + 1][0]:
                        est[i:i + 2] = [[est[i][0], est[i + 1][1], est[i][2]]]
        elif k == "split":
            for _ in range(rng.choice([1, 2, 4])):
                if est:
                    i = rng.randrange(len(est))
                    s, e, l = est[i]
                    if (e - s) * lat >= 2:
                        m = s + Fr(rng.randint(1, int((e - s) * lat) - 1), lat)
                        est[i:i + 1] = [[s, m, l], [m, e, l]]
        elif k == "swaplabels":
            if len(est) >= 2:
                i, j = rng.sample(range(len(est)), 2)
                est[i][2], est[j][2] = est[j][2], est[i][2]
        elif k == "shift":
            # move interior boundaries that two consecutive segments share, keeping every duration positive
            for i in range(len(est) - 1):
                if est[i][1] == est[i + 1][0] and rng.random() < 0.4:
                    d = Fr(rng.choice([-16, -3, -1, 1, 3, 16, 17]), lat)
                    nb = est[i][1] + d
                    if est[i][0] < nb < est[i + 1][1]:
                        est[i][1] = est[i + 1][0] = nb
        elif k == "truncate":
            if len(est) >= 2:
                est = est[:rng.randint(max(1, len(est) // 2), len(est) - 1)]
        elif k == "subspan":
            if ref:
                lo, hi = ref[0][0], ref[-1][1]
                a = lo + Fr(int((hi - lo) * lat * Fr(rng.randint(0, 4), 8)), lat)
                b = a + Fr(int((hi - lo) * lat / 2), lat)
                ref, est = crop(ref, a, b, rebase=False), crop(est, a, b, rebase=False)
        elif k != "asis":
            raise ValueError(kind)
    return ref, est


def seg_limit(rng, ref, est, n):
    """at most n reference segments (contiguous run) and the estimate over the same time span"""
    if len(ref) > n:
        i0 = rng.randrange(len(ref) - n + 1)
        ref = ref[i0:i0 + n]
        est = crop(est, ref[0][0], ref[-1][1], rebase=False)
    if len(est) > 2 * n:
        est = est[:2 * n]
    return ref, est


def ivs(segs):
    return [[s, e] for s, e, _ in segs]


def labs(segs):
    return [l for _, _, l in segs]


def suite_segment_boundary(rng, tier, shard, nshards):
    """segment.detection (0.5 s and 3 s windows, trim on/off) and segment.deviation on the segment files"""
    for (rp, ep), kind in plan(_pairs("segment", "lab"), tier, shard, nshards, SEG_KINDS):
        ref, est = seg_perturb(rng, lattice_labeled(rp), lattice_labeled(ep), kind)
        ri, ei = ivs(ref), ivs(est)
        tag = ftag("segment", kind)
        for w, trim in ((Fr(1, 2), False), (Fr(3), False), (Fr(1, 2), True), (rng.choice([Fr(1, 4), Fr(1), Fr(3)]), True)):
            beta = rng.choice([Fr(1), Fr(1), Fr(1, 2), Fr(2)])

            def call(ref=ref, est=est, w=w, beta=beta, trim=trim):
                return mir_eval.segment.detection(io_labeled(ivs(ref), labs(ref))[0], io_labeled(ivs(est), labs(est))[0],
                                                  window=float(w), beta=float(beta), trim=trim)
            yield Case("segment.detection", [ri, ei, w, beta, trim], call, tag=tag,
                       info=_finfo(rp, ep, kind, op="segment.detection", args=S([ri, ei, w, beta, trim])),
                       nontrivial=bool(ri and ei))
        for trim in (False, True):
            def call(ref=ref, est=est, trim=trim):
                return mir_eval.segment.deviation(io_labeled(ivs(ref), labs(ref))[0], io_labeled(ivs(est), labs(est))[0],
                                                  trim=trim)
            yield Case("segment.deviation", [ri, ei, trim], call, tag=tag,
                       info=_finfo(rp, ep, kind, op="segment.deviation", args=S([ri, ei, trim])), nontrivial=bool(ri and ei))


def partition(segs, T=None):
    """what segment.evaluate's adjust_intervals amounts to, done on exact values without inventing labels: the first
    segment is extended back to 0, the last one is cropped / extended to T"""
    segs = [list(x) for x in segs]
    if not segs:
        return segs
    t0 = segs[0][0]
    segs = [[s - t0, e - t0, l] for s, e, l in segs] if t0 < 0 else segs
    segs[0][0] = Fr(0)
    if T is not None:
        segs = [[s, min(e, T), l] for s, e, l in segs if s < T]
        segs[-1][1] = T
    return segs


def suite_segment_frames(rng, tier, shard, nshards):
    """the six frame-clustering scores on the segment files: lattice boundaries with dyadic frame sizes, and the default
    0.1 s frame with boundaries moved to the middle of a frame (k/10 + 1/20: >= 0.05 s from every frame time)"""
    from props import c16
    nfr = nmax(tier, 150, 400)
    for (rp, ep), kind in plan(_pairs("segment", "lab"), tier, shard, nshards, SEG_KINDS):
        decimal = rng.random() < 0.4
        fs = Fr(1, 10) if decimal else rng.choice([Fr(1, 2), Fr(1), Fr(1), Fr(2)])
        ref, est = lattice_labeled(rp), lattice_labeled(ep)
        # an excerpt of at most nfr frames, starting at a reference boundary
        span = ref[-1][1] - ref[0][0]
        if span / fs > nfr:
            a = rng.choice(ref)[0]
            a = min(a, ref[-1][1] - nfr * fs)
            a = max(snap(a), ref[0][0])
            ref, est = crop(ref, a, a + nfr * fs), crop(est, a, a + nfr * fs)
        if not ref or not est:
            continue
        ref, est = seg_perturb(rng, ref, est, kind)
        if not ref or not est:
            continue
        ref = partition(ref)
        est = partition(est, ref[-1][1])
        if decimal:
            def mid(t):
                return Fr(int(t * 10), 10) + Fr(1, 20)

            def remap(segs):
                out = []
                for s, e, l in segs:
                    s, e = (Fr(0) if s == 0 else mid(s)), mid(e)
                    if s < e:
                        out.append([s, e, l])
                return out
            ref, est = remap(ref), remap(est)
            if not ref or not est:
                continue
            est = partition(est, ref[-1][1])
        # contiguity (a perturbation may have left a gap after a truncation / crop): close gaps
        for segs in (ref, est):
            for i in range(len(segs) - 1):
                segs[i][1] = segs[i + 1][0]
        if any(s >= e for s, e, _ in ref + est):
            continue
        r3, e3 = [tuple(x) for x in ref], [tuple(x) for x in est]
        beta = rng.choice([Fr(1), Fr(1), Fr(1, 2), Fr(2)])
        flags = c16.degenerate_flags(r3, e3, fs)
        for op in c16.OPS:
            t = "plain"
            if op == "segment.nce":
                t = rng.choice(["plain", "marginal"])
            c = c16.make_case(op, r3, e3, fs, beta, t, flags)
            # the implementation side reads the same annotation through io.load_labeled_intervals
            c.call = _frames_call(op, r3, e3, fs, beta, t == "marginal", flags)
            c.tag = ftag("segment", kind + ("/fs=0.1" if decimal else "/fs=%s" % fs))
            c.info = dict(c.info, ref_file=base(rp), est_file=base(ep), perturbation=kind)
            yield c


def _frames_call(op, ref, est, fs, beta, marginal, flags):
    from props import c16
    S_ = mir_eval.segment
    ami_ill, nmi_ill, _ = flags
    f, b = float(fs), float(beta)

    def call():
        ri, rl = io_labeled(ivs(ref), labs(ref))
        ei, el = io_labeled(ivs(est), labs(est))
        if op == "segment.pairwise":
            return S_.pairwise(ri, rl, ei, el, frame_size=f, beta=b)
        if op == "segment.rand_index":
            return S_.rand_index(ri, rl, ei, el, frame_size=f)
        if op == "segment.ari":
            return S_.ari(ri, rl, ei, el, frame_size=f)
        if op == "segment.mutual_information":
            return c16.fix_mi(list(map(float, S_.mutual_information(ri, rl, ei, el, frame_size=f))), ami_ill, nmi_ill)
        if op == "segment.nce":
            return S_.nce(ri, rl, ei, el, frame_size=f, beta=b, marginal=marginal)
        return S_.vmeasure(ri, rl, ei, el, frame_size=f, beta=b)
    return call



# ---- chord

def chord_root_token(label, reference):
    """root pitch class from the label text (own parser, not mir_eval's): N -> -1; X -> -2 in a reference (not
    comparable), -1 in an estimate (the encoder gives X the root -1, which equals N's)"""
    if label == "N":
        return -1
    if label == "X":
        return -2 if reference else -1
    root = label.split(":")[0].split("/")[0]
    pc = {"C": 0, "D": 2, "E": 4, "F": 5, "G": 7, "A": 9, "B": 11}[root[0]]
    return (pc + root.count("#") - root.count("b")) % 12


def chord_enc_token(label):
    """one token per distinct encoding (root, bitmap, bass): N -> -1 (what evaluate pads with), anything else >= 100"""
    from props import c12
    if label == "N":
        return -1
    return 100 + c12.token_of(label)


def overlaps(ref, est):
    """(ref label, est label) of every pair of overlapping intervals (exact)"""
    out = []
    j = 0
    for s, e, l in ref:
        while j < len(est) and est[j][1] <= s:
            j += 1
        k = j
        while k < len(est) and est[k][0] < e:
            if max(s, est[k][0]) < min(e, est[k][1]):
                out.append((l, est[k][2]))
            k += 1
    return out


def suite_chord(rng, tier, shard, nshards):
    """the chord files: real label strings through the modelled encoder and the twelve comparison rules, and real interval
    grids through merge_chord_intervals / over-, under-segmentation / the root accuracy of chord.evaluate"""
    import chordlabels as cl
    from props import c12
    C = mir_eval.chord
    kinds = SEG_KINDS + ["drop"]
    for (rp, ep), kind in plan(_pairs("chord", "lab"), tier, shard, nshards, kinds):
        ref, est = seg_limit(rng, lattice_labeled(rp), lattice_labeled(ep), nmax(tier, 120, 300))
        if kind == "drop":
            est = [x for x in est if rng.random() >= 0.15]      # gaps: evaluate pads / merges differently
        else:
            ref, est = seg_perturb(rng, ref, est, kind)
        if not ref or not est:
            continue
        tag = ftag("chord", kind)
        ri, rl, ei, el = ivs(ref), labs(ref), ivs(est), labs(est)
        info = _finfo(rp, ep, kind, ref=S(ri), ref_labels=rl, est=S(ei), est_labels=el)

        def evaluate(ref=ref, est=est):
            a, al = io_labeled(ivs(ref), labs(ref))
            b, bl = io_labeled(ivs(est), labs(est))
            return C.evaluate(a, al, b, bl)
        # root accuracy: tokens = root pitch classes
        rt = [chord_root_token(l, True) for l in rl]
        et = [chord_root_token(l, False) for l in el]
        yield Case("chord.evaluate_tokens", [ri, rt, ei, et], lambda ev=evaluate: [ev()["root"]], tag=tag,
                   info=dict(info, rt=rt, et=et, what="root"), post=lambda v: v[:1])
        # segmentation scores: tokens = encodings (adjacent equal encodings are merged, as the code does)
        rt2 = [chord_enc_token(l) for l in rl]
        et2 = [chord_enc_token(l) for l in el]
        yield Case("chord.evaluate_tokens", [ri, rt2, ei, et2],
                   lambda ev=evaluate: (lambda sc: [sc["underseg"], sc["overseg"], sc["seg"]])(ev()), tag=tag,
                   info=dict(info, rt=rt2, et=et2, what="segmentation"), post=lambda v: v[1:])
        yield Case("chord.merge_chord_intervals", [ei, et2],
                   lambda est=est: C.merge_chord_intervals(*io_labeled(ivs(est), labs(est))), tol=0.0, tag=tag,
                   info=dict(info, what="merge"))
        for op, fn in (("chord.directional_hamming_distance", C.directional_hamming_distance), ("chord.overseg", C.overseg),
                       ("chord.underseg", C.underseg), ("chord.seg", C.seg)):
            yield Case(op, [ri, ei], lambda fn=fn, ref=ref, est=est: fn(io_labeled(ivs(ref), labs(ref))[0],
                                                                         io_labeled(ivs(est), labs(est))[0]),
                       tag=tag, info=dict(info, what=op))
        # the twelve comparison rules on the label pairs that meet in time
        prs = overlaps(ref, est)
        for k in range(0, len(prs), 64):
            part = prs[k:k + 64]
            refs, ests = [p[0] for p in part], [p[1] for p in part]
            yield Case("chord.compare_all", [[cl.enc_arg(r) for r in refs], [cl.enc_arg(e) for e in ests]],
                       lambda refs=refs, ests=ests: [cl.rule_fn(r)(refs, ests) for r in cl.RULES], tag=tag,
                       info={"ref": refs, "est": ests, "ref_file": base(rp), "est_file": base(ep)},
                       nontrivial=any(a != "X" and cl.enc(a)[0] == cl.enc(b)[0] for a, b in part))


def suite_chord_labels(rng, tier, shard, nshards):
    """every distinct label string of the chord files through the modelled grammar / encoder (all four flag pairs), and
    the label sequence of each file through encode_many"""
    from props import c10
    C = mir_eval.chord
    files = sorted(glob.glob(os.path.join(DATA, "chord", "*.lab")))
    seen, k = set(), 0
    for f in files:
        seq = labs(lattice_labeled(f))
        for l in seq:
            if l in seen:
                continue
            seen.add(l)
            k += 1
            if k % nshards != shard:
                continue
            for r in (False, True):
                for sb in (False, True):
                    yield Case("chord.encode", [l, r, sb],
                               lambda l=l, r=r, sb=sb: list(C.encode(l, reduce_extended_chords=r, strict_bass_intervals=sb)),
                               tag=ftag("chord", "labels"), info={"label": l, "reduce": r, "strict": sb, "file": base(f)})
            yield Case("chord.accept", [l], lambda l=l: [c10.grammar(l) is not None, C.CHORD_RE.match(l) is not None],
                       tag=ftag("chord", "labels"), info={"label": l, "file": base(f)})
        k += 1
        if k % nshards == shard:
            part = seq[:nmax(tier, 150, 1000)]
            r = rng.random() < 0.5
            yield Case("chord.encode_many", [part, r],
                       lambda part=part, r=r: list(C.encode_many(part, reduce_extended_chords=r)),
                       tag=ftag("chord", "label-sequence"), info={"labels": part, "reduce": r, "file": base(f)})


# ---- hierarchy

HIER_KINDS = ["asis", "self", "swap", "merge", "split", "swaplabels", "shift", "droplevel", "flat", "merge+shift"]


def suite_hierarchy(rng, tier, shard, nshards):
    """T-measure, L-measure and evaluate on excerpts of the two-level hierarchy files (and on the flat segment files read
    as one-level hierarchies), frame sizes 1/4, 1/2, 1 s, windows None / 15 s / small"""
    H = mir_eval.hierarchy
    srcs = []
    hr = sorted(glob.glob(os.path.join(DATA, "hierarchy", "ref*.lab")))
    he = sorted(glob.glob(os.path.join(DATA, "hierarchy", "est*.lab")))
    if hr and he:
        srcs += [((hr, he), "hierarchy")] * 3
    srcs += [(([r], [e]), "hierarchy(segment files)") for r, e in _pairs("segment", "lab")[:4]]
    nfr = nmax(tier, 100, 240)
    for ((rfs, efs), task), kind in plan(srcs, tier, shard, nshards, HIER_KINDS, quick=3, thorough=16):
        fs = rng.choice([Fr(1, 4), Fr(1, 2), Fr(1)])
        ref = [lattice_labeled(f) for f in rfs]
        est = [lattice_labeled(f) for f in efs]
        end = min(lv[-1][1] for lv in ref + est)
        L = min(nfr * fs, Fr(int(end)))
        a = Fr(rng.randint(0, int((end - L) * 4)), 4)
        if rng.random() < 0.3:
            a = Fr(int(a))
        ref = [partition(crop(lv, a, a + L), L) for lv in ref]
        est = [partition(crop(lv, a, a + L), L) for lv in est]
        for k in kind.split("+"):
            if k == "self":
                est = [[list(x) for x in lv] for lv in ref]
            elif k == "swap":
                ref, est = est, ref
            elif k == "droplevel":
                est = est[:-1] if len(est) > 1 else est
            elif k == "flat":
                est = est[-1:]
            elif k != "asis":
                est = [seg_perturb(rng, [], lv, k)[1] for lv in est]
        if any(not lv for lv in ref + est):
            continue
        R, RL, E, EL = [ivs(lv) for lv in ref], [labs(lv) for lv in ref], [ivs(lv) for lv in est], [labs(lv) for lv in est]
        tag = ftag(task, kind)
        beta = rng.choice([Fr(1), Fr(1), Fr(1, 2), Fr(2)])
        window = rng.choice([None, Fr(15), Fr(15), 2 * fs, Fr(5)])
        tr = rng.random() < 0.5

        def through(hier):
            out = [io_labeled(ivs(lv), labs(lv)) for lv in hier]
            return [x[0] for x in out], [x[1] for x in out]
        from props import c17
        extra = _finfo(rfs[0], efs[0], kind, excerpt=[str(a), str(a + L)])
        info_t = dict(c17.t_input(R, E, tr, window, fs, beta), **extra)
        info_l = dict(c17.l_input(R, RL, E, EL, fs, beta), **extra)
        info_e = dict({"ref": R, "ref_labels": RL, "est": E, "est_labels": EL, "window": window, "frame_size": fs,
                       "beta": beta}, **extra)

        def call_t(ref=ref, est=est, tr=tr, window=window, fs=fs, beta=beta):
            return H.tmeasure(through(ref)[0], through(est)[0], transitive=tr,
                              window=None if window is None else float(window), frame_size=float(fs), beta=float(beta))
        yield Case("hierarchy.tmeasure", [R, E, tr, window, fs, beta], call_t, tag=tag, info=info_t)

        def call_l(ref=ref, est=est, fs=fs, beta=beta):
            a_, al = through(ref)
            b_, bl = through(est)
            return H.lmeasure(a_, al, b_, bl, frame_size=float(fs), beta=float(beta))
        yield Case("hierarchy.lmeasure", [R, RL, E, EL, fs, beta], call_l, tag=tag, info=info_l)

        def call_e(ref=ref, est=est, window=window, fs=fs, beta=beta):
            a_, al = through(ref)
            b_, bl = through(est)
            return H.evaluate(a_, al, b_, bl, window=None if window is None else float(window), frame_size=float(fs),
                              beta=float(beta))
        yield Case("hierarchy.evaluate", [R, RL, E, EL, window, fs, beta], call_e, tag=tag, info=info_e)



# ------------------------------------------------------------------------------------------------
# melody: millisecond time stamps (the files' own 3-decimal grid), pitch in quarter cents above 10 Hz

MEL_BASE = 10.0
MEL_KINDS = ["asis", "self", "swap", "dropframes", "timeshift", "octave", "detune", "unvoice", "negate", "truncate",
             "subspan", "detune+dropframes"]


def melody_series(path):
    t, f = load(mir_eval.io.load_time_series, path)
    ts = [Fr(int(round(float(x) * 1000)), 1000) for x in t]
    out = []
    for x in f:
        x = float(x)
        if x == 0:
            out.append([0, Fr(0)])
        else:
            c = Fr(int(round(1200.0 * math.log2(abs(x) / MEL_BASE) * 4)), 4)
            out.append([1 if x > 0 else -1, c])
    # strictly increasing time stamps only (rounding to ms can merge two frames)
    keep = [i for i in range(len(ts)) if i == 0 or ts[i] > ts[i - 1]]
    return [ts[i] for i in keep], [out[i] for i in keep]


def suite_melody(rng, tier, shard, nshards):
    """melody.evaluate / to_cent_voicing on excerpts of the melody files (reference hop ~5.8 ms written in ms, estimate hop
    10 ms): the estimate is resampled onto the reference grid or both onto a constant hop; cases whose pitch decisions come
    within 1 cent of the tolerance are not sent (`melody.evaluate_margin`)"""
    from suites import melody as SM
    M = mir_eval.melody
    n = nmax(tier, 150, 300)
    cands = []
    for (rp, ep), kind in plan(_pairs("melody"), tier, shard, nshards, MEL_KINDS):
        rt, rf = melody_series(rp)
        et, ef = melody_series(ep)
        i0 = 0 if rng.random() < 0.25 else rng.randrange(max(1, len(rt) - n))
        t0, t1 = rt[i0], rt[min(i0 + n, len(rt)) - 1]
        R = [[t - t0, p] for t, p in zip(rt[i0:i0 + n], rf[i0:i0 + n])]
        E = [[t - t0, p] for t, p in zip(et, ef) if t0 <= t <= t1]
        for k in kind.split("+"):
            if k == "self":
                E = [[t, list(p)] for t, p in R]
            elif k == "swap":
                R, E = E, R
            elif k == "dropframes":
                E = [x for x in E if rng.random() >= 0.15]
            elif k == "timeshift":
                d = Fr(rng.choice([1, 2, 3, 4]), 1000)
                E = [[t + d, p] for t, p in E]
            elif k in ("octave", "detune"):
                d = Fr(1200) if k == "octave" else Fr(rng.choice([-60, -30, 20, 40, 70]))
                E = [[t, [p[0], p[1] + d]] if p[0] != 0 and rng.random() < 0.3 and p[1] + d > 0 else [t, p] for t, p in E]
            elif k == "unvoice":
                E = [[t, [0, Fr(0)]] if rng.random() < 0.2 else [t, p] for t, p in E]
            elif k == "negate":
                E = [[t, [-p[0], p[1]]] if rng.random() < 0.2 else [t, p] for t, p in E]
            elif k == "truncate":
                E = E[:rng.randint(len(E) // 3, len(E))] if E else E
            elif k == "subspan":
                m = len(R) // 2
                a = rng.randint(0, len(R) - m) if R else 0
                if R:
                    lo, hi = R[a][0], R[min(a + m, len(R)) - 1][0]
                    R = [x for x in R if lo <= x[0] <= hi]
                    E = [x for x in E if lo <= x[0] <= hi]
        if len(R) < 2 or len(E) < 2:
            continue
        if R[0][0] != 0:                      # the excerpt starts at the first reference frame
            d = R[0][0]
            R = [[t - d, p] for t, p in R]
            E = [[t - d, p] for t, p in E if t - d >= 0]
            if len(E) < 2:
                continue
        hop = rng.choice([None, None, None, Fr(1, 100), Fr(29, 5000)])
        if hop is not None and not (SM.off_grid(R[-1][0], hop) and SM.off_grid(E[-1][0], hop)):
            hop = None
        mk = rng.choice(["linear", "linear", "linear", "zero"])
        tol = rng.choice([Fr(50), Fr(50), Fr(50), Fr(25), Fr(100)])
        a = [[t for t, _ in R], [p for _, p in R], [t for t, _ in E], [p for _, p in E], None, None, hop, mk, tol]
        cands.append((a, rp, ep, kind))
    ms = SM.margins([c[0] for c in cands])
    for (a, rp, ep, kind), m in zip(cands, ms):
        if isinstance(m, Fr) and m < 1:
            continue
        rt, rf, et, ef, _, _, hop, mk, tol = a
        tag = ftag("melody", kind)
        info = _finfo(rp, ep, kind, rt=S(rt), rf=S(rf), et=S(et), ef=S(ef), hop=S(hop), interp=mk, tol=str(tol), base=MEL_BASE)
        nt = any(p[0] != 0 for p in rf) and any(p[0] != 0 for p in ef)

        def series(rt=rt, rf=rf, et=et, ef=ef):
            return io_time_series(rt, [SM.hz(p, MEL_BASE) for p in rf]) + io_time_series(et, [SM.hz(p, MEL_BASE) for p in ef])

        def call_e(series=series, hop=hop, mk=mk, tol=tol):
            kw = {"kind": mk, "base_frequency": MEL_BASE, "cent_tolerance": float(tol)}
            if hop is not None:
                kw["hop"] = float(hop)
            x = series()
            return M.evaluate(x[0], x[1], x[2], x[3], **kw)
        yield Case("melody.evaluate", a, call_e, tag=tag, info=info, nontrivial=nt)

        def call_t(series=series, hop=hop, mk=mk):
            kw = {"kind": mk, "base_frequency": MEL_BASE}
            if hop is not None:
                kw["hop"] = float(hop)
            x = series()
            return list(M.to_cent_voicing(x[0], x[1], x[2], x[3], **kw))
        yield Case("melody.to_cent_voicing", a[:8], call_t, tag=tag, info=info, nontrivial=nt)


# ------------------------------------------------------------------------------------------------
# multipitch: the files' 10 ms frame grid as decimals, pitches on a 1/3- or 1/8-semitone MIDI lattice

MP_KINDS = ["asis", "self", "swap", "dropframes", "droppitches", "timeshift", "octave", "detune", "addpitch", "truncate",
            "subspan", "detune+dropframes"]


def multipitch_series(path):
    t, fr = load(mir_eval.io.load_ragged_time_series, path)
    ts = [Fr(int(round(float(x) * 100)), 100) for x in t]
    midi = [[69.0 + 12.0 * math.log2(float(v) / 440.0) for v in f] for f in fr]
    keep = [i for i in range(len(ts)) if i == 0 or ts[i] > ts[i - 1]]
    return [ts[i] for i in keep], [midi[i] for i in keep]


def suite_multipitch(rng, tier, shard, nshards):
    """multipitch.metrics / evaluate / resample_multipitch / compute_num_true_positives on excerpts of the multi-f0 files.
    Frame times stay on the files' 0.01 s grid (estimate frames are only dropped in adjacent pairs and the whole estimate is
    only displaced by 3 ms, so no reference time sits half-way between two estimate frames)"""
    from suites import multipitch as SP
    mp = mir_eval.multipitch
    n = nmax(tier, 150, 300)
    for (rp, ep), kind in plan(_pairs("multipitch"), tier, shard, nshards, MP_KINDS):
        den, w = (3, rng.choice([None, None, Fr(1, 2), Fr(1, 4), Fr(3, 4)])) if rng.random() < 0.6 else \
                 (8, rng.choice([Fr(1, 4), Fr(1, 2), Fr(1)]) + rng.choice([-1, 1]) * Fr(1, 16))
        rt, rm = multipitch_series(rp)
        et, em = multipitch_series(ep)
        i0 = rng.randrange(max(1, len(rt) - n))
        t0, t1 = rt[i0], rt[min(i0 + n, len(rt)) - 1]

        def lat(f):
            return [Fr(int(round(m * den)), den) for m in f]
        R = [[t, lat(f)] for t, f in zip(rt[i0:i0 + n], rm[i0:i0 + n])]
        E = [[t, lat(f)] for t, f in zip(et, em) if t0 <= t <= t1]
        for k in kind.split("+"):
            if k == "self":
                E = [[t, list(f)] for t, f in R]
            elif k == "swap":
                R, E = E, R
            elif k == "dropframes":
                out, skip = [], 0
                for x in E:
                    if skip:
                        skip -= 1
                        continue
                    if rng.random() < 0.08:
                        skip = 1              # this frame and the next one
                        continue
                    out.append(x)
                E = out
            elif k == "droppitches":
                E = [[t, [m for m in f if rng.random() >= 0.25]] for t, f in E]
            elif k == "timeshift":
                E = [[t + Fr(3, 1000), f] for t, f in E]
            elif k in ("octave", "detune"):
                d = Fr(12) if k == "octave" else Fr(rng.choice([-2, -1, 1, 2]), den)
                E = [[t, [m + d if rng.random() < 0.3 and m + d < 120 else m for m in f]] for t, f in E]
            elif k == "addpitch":
                E = [[t, f + [Fr(rng.randint(40 * den, 90 * den), den)] if rng.random() < 0.2 else f] for t, f in E]
            elif k == "truncate":
                E = E[:rng.randint(len(E) // 3, len(E))] if E else E
            elif k == "subspan":
                if R:
                    m_ = len(R) // 2
                    a = rng.randint(0, len(R) - m_)
                    lo, hi = R[a][0], R[min(a + m_, len(R)) - 1][0]
                    R = [x for x in R if lo <= x[0] <= hi]
                    E = [x for x in E if lo <= x[0] <= hi]
        if not R or not E:
            continue
        rt_, rf_, et_, ef_ = [t for t, _ in R], [f for _, f in R], [t for t, _ in E], [f for _, f in E]
        tag = ftag("multipitch", kind)
        info = dict(SP.info_of(kind, rt_, rf_, et_, ef_, w), ref_file=base(rp), est_file=base(ep), perturbation=kind)
        nt = any(rf_) and any(ef_)

        def series(rt_=rt_, rf_=rf_, et_=et_, ef_=ef_):
            a, b = io_ragged(rt_, [[SP.hz(m) for m in f] for f in rf_])
            c, d = io_ragged(et_, [[SP.hz(m) for m in f] for f in ef_])
            return a, b, c, d
        kw = {} if w is None else {"window": float(w)}
        yield Case("multipitch.metrics", [rt_, rf_, et_, ef_, w], lambda series=series, kw=kw: list(mp.metrics(*series(), **kw)),
                   tag=tag, info=info, nontrivial=nt)
        yield Case("multipitch.evaluate", [rt_, rf_, et_, ef_, w],
                   lambda series=series, kw=kw: [[k, float(v)] for k, v in mp.evaluate(*series(), **kw).items()],
                   tag=tag, info=info, nontrivial=nt)

        def call_rs(et_=et_, ef_=ef_, rt_=rt_):
            a, b = io_ragged(et_, [[float(m) for m in f] for f in ef_])
            out = mp.resample_multipitch(a, b, io_events(rt_))
            return [[float(x) for x in f] for f in out]
        yield Case("multipitch.resample_multipitch", [et_, ef_, rt_], call_rs, tag=tag,
                   info={"times": S(et_), "freqs": S(ef_), "target": S(rt_), "ref_file": base(rp), "est_file": base(ep)},
                   nontrivial=bool(et_ and rt_))
        # per-frame true positives in the MIDI domain (frames paired by position), plain and chroma-wrapped
        m_ = min(len(rf_), len(ef_))
        ww = Fr(1, 2) if w is None else w
        for chroma in (False, True):
            a, b = rf_[:m_], ef_[:m_]
            if chroma:
                a, b = [[m % 12 for m in f] for f in a], [[m % 12 for m in f] for f in b]

            def call_tp(a=a, b=b, ww=ww, chroma=chroma):
                return [int(x) for x in mp.compute_num_true_positives(SP.frames_midi(a), SP.frames_midi(b), window=float(ww),
                                                                      chroma=chroma)]
            yield Case("multipitch.compute_num_true_positives", [a, b, ww, chroma], call_tp, tag=tag,
                       info={"ref_midi": S(a), "est_midi": S(b), "window": str(ww), "chroma": chroma, "ref_file": base(rp),
                             "est_file": base(ep)}, nontrivial=any(a) and any(b))


# ------------------------------------------------------------------------------------------------
# transcription (+ velocity): note times on the 1/16 s (sometimes 1/32 s) lattice, pitch on a 0.3-semitone lattice

NOTE_KINDS = ["asis", "self", "swap", "drop", "dup", "shift", "stretch", "transpose", "octave", "truncate", "subspan",
              "drop+shift", "head", "self+head", "self+shift"]


def _note_lattice(iv, hz, lat):
    from suites import transcription as ST
    out = []
    for (a, b), f in zip(iv, hz):
        on = snap(a, lat)
        off = max(on + Fr(1, lat), snap(b, lat))
        m = 69.0 + 12.0 * math.log2(float(f) / 440.0)
        out.append([on, off, ST.PSTEP * int(round(m / float(ST.PSTEP)))])
    return out


def note_perturb(rng, ref, est, kind, lat):
    from suites import transcription as ST
    u = Fr(1, lat)

    def shift(nt, d):
        return [nt[0] + d, nt[1] + d] + list(nt[2:])
    for k in kind.split("+"):
        if k == "stretch":
            est = [[nt[0], max(nt[0] + u, nt[1] + rng.choice([-4, -2, -1, 1, 2, 4]) * u)] + list(nt[2:])
                   if rng.random() < 0.3 else nt for nt in est]
        elif k in ("transpose", "octave"):
            d = Fr(12) if k == "octave" else ST.PSTEP * rng.choice([-4, -3, -1, 1, 2, 3])
            est = [[nt[0], nt[1], nt[2] + d] + list(nt[3:]) if rng.random() < 0.3 else nt for nt in est]
        else:
            ref, est = perturb(rng, ref, est, k, shift, lambda nt: nt[0], u)
    return [list(x) for x in ref], [list(x) for x in est]


def suite_transcription(rng, tier, shard, nshards):
    """note matching and the note-level scores on excerpts of the transcription files; the pairing returned by the real
    match_notes is compared with the model's pair for pair and run through the proved checker (C05)"""
    from suites import transcription as ST
    T = mir_eval.transcription
    n = nmax(tier, 120, 300)
    for (rp, ep), kind in plan(_pairs("transcription"), tier, shard, nshards, NOTE_KINDS):
        lat = rng.choice([16, 16, 32])
        ri, rh = load(mir_eval.io.load_valued_intervals, rp)
        ei, eh = load(mir_eval.io.load_valued_intervals, ep)
        ref, est = excerpt(rng, _note_lattice(ri, rh, lat), _note_lattice(ei, eh, lat), lambda nt: nt[0], n)
        ref, est = note_perturb(rng, ref, est, kind, lat)
        p = dict(ST.DEFAULTS) if rng.random() < 0.6 else ST.params(rng, lat)
        tag = ftag("transcription", kind)
        info = dict(ST.info(lat, p, ref, est), ref_file=base(rp), est_file=base(ep), perturbation=kind)
        nt = bool(ref and est)
        a = [ST.m_ivals(ref), ST.m_pitches(ref), ST.m_ivals(est), ST.m_pitches(est)] + ST.pargs(p)

        def notes(ref=ref, est=est):
            x, y = io_valued(ST.m_ivals(ref), [ST.hz(nt_[2]) for nt_ in ref])
            z, w_ = io_valued(ST.m_ivals(est), [ST.hz(nt_[2]) for nt_ in est])
            return x, y, z, w_
        kw = ST.fkw(p, ST.K_NOTES)
        yield Case("transcription.match_notes", a, lambda notes=notes, kw=kw: ST.pairs_of(T.match_notes(*notes(), **kw)),
                   tag=tag, info=info, nontrivial=nt)
        kwb = ST.fkw(p, ST.K_NOTES + ["beta"])
        yield Case("transcription.precision_recall_f1_overlap", a + [p["beta"]],
                   lambda notes=notes, kw=kwb: T.precision_recall_f1_overlap(*notes(), **kw), tag=tag, info=info, nontrivial=nt)
        yield Case("transcription.evaluate", a + [p["beta"]], lambda notes=notes, kw=kwb: T.evaluate(*notes(), **kw),
                   tag=tag, info=info, nontrivial=nt)
        q = dict(p)
        if q["offset_ratio"] is None:
            q["offset_ratio"] = Fr(1, 5)

        def call_on(notes=notes, kw=ST.fkw(q, ST.K_ONSET + ["beta"])):
            x = notes()
            return T.onset_precision_recall_f1(x[0], x[2], **kw)
        yield Case("transcription.onset_precision_recall_f1",
                   [ST.m_ivals(ref), ST.m_ivals(est), q["onset_tolerance"], q["strict"], q["beta"]], call_on, tag=tag,
                   info=info, nontrivial=nt)

        def call_off(notes=notes, kw=ST.fkw(q, ST.K_OFFSET + ["beta"])):
            x = notes()
            return T.offset_precision_recall_f1(x[0], x[2], **kw)
        yield Case("transcription.offset_precision_recall_f1",
                   [ST.m_ivals(ref), ST.m_ivals(est), q["offset_ratio"], q["offset_min_tolerance"], q["strict"], q["beta"]],
                   call_off, tag=tag, info=info, nontrivial=nt)
        # C05: the real pairing through the proved checker
        try:
            m = ST.pairs_of(T.match_notes(*notes(), **kw))
            res = [True, len(m), len(m), True]
            call = (lambda r=res: r)
        except Exception as e:  # noqa: BLE001
            m = []
            call = (lambda e=e: (_ for _ in ()).throw(e))
        yield Case("transcription.check_match_notes", a + [m], call, tag=tag, info=dict(info, kind="notes", pairs=m),
                   nontrivial=nt)


def _load_velocity(path):
    """the loader of tests/test_transcription_velocity.py"""
    starts, ends, pitches, velocities = mir_eval.io.load_delimited(path, [float, float, int, int])
    return np.array([starts, ends]).T, np.array(pitches), np.array(velocities)


def io_velocity(notes):
    from suites import transcription as ST
    if not notes:
        return np.zeros((0, 2)), np.zeros(0), np.zeros(0)
    txt = "".join("%s\t%s\t%r\t%d\n" % (dec(nt[0]), dec(nt[1]), ST.hz(nt[2]), int(nt[3])) for nt in notes)
    st, en, pi, ve = mir_eval.io.load_delimited(io.StringIO(txt), [float, float, float, int])
    return np.array([st, en]).T, np.array(pi, dtype=float), np.array(ve, dtype=float)


def suite_transcription_velocity(rng, tier, shard, nshards):
    """transcription_velocity on excerpts of its files (the pitch column is read as Hz, as the task's tests do); velocity
    differences of the matched pairs keep a 1e-6 margin from the velocity tolerance, else the case is not sent"""
    from suites import transcription as ST
    T, TV = mir_eval.transcription, mir_eval.transcription_velocity
    n = nmax(tier, 100, 250)
    kinds = NOTE_KINDS + ["velocity", "velocity-scale"]
    for (rp, ep), kind in plan(_pairs("transcription_velocity"), tier, shard, nshards, kinds):
        lat = 16
        ri, rpch, rv = load(_load_velocity, rp)
        ei, epch, ev = load(_load_velocity, ep)
        R = [x + [Fr(int(v))] for x, v in zip(_note_lattice(ri, rpch, lat), rv)]
        E = [x + [Fr(int(v))] for x, v in zip(_note_lattice(ei, epch, lat), ev)]
        R.sort(key=lambda nt: nt[0])
        E.sort(key=lambda nt: nt[0])
        ref, est = excerpt(rng, R, E, lambda nt: nt[0], n)
        if kind == "velocity":
            est = [nt[:3] + [max(Fr(0), nt[3] + rng.choice([-20, -5, -1, 1, 5, 20]))] if rng.random() < 0.4 else nt for nt in est]
        elif kind == "velocity-scale":
            est = [nt[:3] + [Fr(int(nt[3]) // 2 + 10)] for nt in est]
        else:
            ref, est = note_perturb(rng, ref, est, kind, lat)
        p = dict(ST.DEFAULTS) if rng.random() < 0.6 else ST.params(rng, lat)
        vt = rng.choice([Fr(1, 10), Fr(1, 10), Fr(1, 20), Fr(1, 4)])
        rvel, evel = [nt[3] for nt in ref], [nt[3] for nt in est]
        ok = True
        for q in (p, dict(p, offset_ratio=None)):
            try:
                prs = ST.pairs_of(T.match_notes(ST.ivals(ref), ST.pitches(ref), ST.ivals(est), ST.pitches(est), **ST.fkw(q, ST.K_NOTES)))
            except Exception:  # noqa: BLE001
                prs = []
            ok = ok and all(abs(d - vt) > Fr(1, 10 ** 6) for d in ST.vel_diffs(ref, est, rvel, evel, prs))
        if not ok:
            continue
        tag = ftag("transcription_velocity", kind)
        info = dict(ST.info(lat, p, [x[:3] for x in ref], [x[:3] for x in est], ref_vel=S(rvel), est_vel=S(evel), vel_tol=str(vt)),
                    ref_file=base(rp), est_file=base(ep), perturbation=kind)
        a = [ST.m_ivals(ref), ST.m_pitches(ref), rvel, ST.m_ivals(est), ST.m_pitches(est), evel] + ST.pargs(p) + [vt]
        kw = ST.fkw(p, ST.K_NOTES)
        kw["velocity_tolerance"] = float(vt)

        def notes(ref=ref, est=est):
            x = io_velocity(ref)
            y = io_velocity(est)
            return x[0], x[1], x[2], y[0], y[1], y[2]
        nt = bool(ref and est)
        yield Case("transcription_velocity.match_notes", a, lambda notes=notes, kw=kw: ST.pairs_of(TV.match_notes(*notes(), **kw)),
                   tag=tag, info=info, nontrivial=nt)
        kwb = dict(kw, beta=float(p["beta"]))
        yield Case("transcription_velocity.precision_recall_f1_overlap", a + [p["beta"]],
                   lambda notes=notes, kw=kwb: TV.precision_recall_f1_overlap(*notes(), **kw), tag=tag, info=info, nontrivial=nt)
        yield Case("transcription_velocity.evaluate", a + [p["beta"]], lambda notes=notes, kw=kwb: TV.evaluate(*notes(), **kw),
                   tag=tag, info=info, nontrivial=nt)


# ------------------------------------------------------------------------------------------------
# tempo, key, pattern

def suite_tempo(rng, tier, shard, nshards):
    """tempo.detection / evaluate on the tempo files (read with the tests' loader); the relative errors keep a 1e-6 margin
    from the tolerance, else the case is not sent"""
    def rd(path):
        v = mir_eval.io.load_delimited(path, [float] * 3)
        return [Fr(Decimal(repr(float(v[0][0])))), Fr(Decimal(repr(float(v[1][0])))), Fr(Decimal(repr(float(v[2][0]))))]
    kinds = ["asis", "self", "swap", "double", "half", "triple", "jitter", "near-tolerance", "weight"]
    pairs = _pairs("tempo", "lab")
    for (rp, ep), kind in plan(pairs, tier, shard, nshards, kinds, quick=6, thorough=40):
        r, e = load(rd, rp), load(rd, ep)
        ref, w, est = list(r[:2]), r[2], list(e[:2])
        tol = rng.choice([Fr(2, 25), Fr(2, 25), Fr(1, 25), Fr(1, 10), Fr(1, 2)])
        if kind == "self":
            est = list(ref)
        elif kind == "swap":
            ref, est = est, ref
        elif kind in ("double", "half", "triple"):
            est = [x * {"double": 2, "half": Fr(1, 2), "triple": 3}[kind] for x in ref]
        elif kind == "jitter":
            est = [x + Fr(rng.randint(-40, 40), 4) for x in est]
            est = [x if x > 0 else Fr(1) for x in est]
        elif kind == "near-tolerance":
            est = [x * (1 + rng.choice([-1, 1]) * (tol + rng.choice([-1, 1]) * Fr(1, 1000))) for x in ref]
            est = [Fr(int(x * 1000), 1000) for x in est]
        elif kind == "weight":
            w = rng.choice([Fr(0), Fr(1, 4), Fr(1, 2), Fr(3, 4), Fr(1)])
        if any(rr > 0 and abs(abs(rr - ee) / rr - tol) <= Fr(1, 10 ** 6) for rr in ref for ee in est):
            continue

        def through(ref=ref, w=w, est=est):
            a = mir_eval.io.load_delimited(io.StringIO("%s\t%s\t%s\n" % (dec(ref[0]), dec(ref[1]), dec(w))), [float] * 3)
            b = mir_eval.io.load_delimited(io.StringIO("%s\t%s\t%s\n" % (dec(est[0]), dec(est[1]), dec(w))), [float] * 3)
            return np.array([a[0][0], a[1][0]]), a[2][0], np.array([b[0][0], b[1][0]])
        tag = ftag("tempo", kind)
        info = _finfo(rp, ep, kind, op="tempo.detection", args=S([ref, w, est, tol]))
        yield Case("tempo.detection", [ref, w, est, tol],
                   lambda through=through, tol=tol: mir_eval.tempo.detection(*through(), tol=float(tol)), tag=tag, info=info,
                   nontrivial=any(x > 0 for x in ref))
        yield Case("tempo.evaluate", [ref, w, est, tol],
                   lambda through=through, tol=tol: mir_eval.tempo.evaluate(*through(), tol=float(tol)), tag=tag,
                   info=dict(info, op="tempo.evaluate"), nontrivial=any(x > 0 for x in ref))


def suite_key(rng, tier, shard, nshards):
    """key.weighted_score on the key files: every file pair as shipped, reversed, against itself, and every reference
    against every estimate"""
    pairs = _pairs("key")
    keys = {p: load(mir_eval.io.load_key, p) for pr in pairs for p in pr}
    todo = []
    for rp, ep in pairs:
        todo += [(rp, ep, "asis"), (ep, rp, "swap"), (rp, rp, "self")]
    todo += [(rp, ep, "cross") for rp, _ in pairs for _, ep in pairs]
    for i, (rp, ep, kind) in enumerate(todo):
        if i % nshards != shard:
            continue
        r, e = keys[rp], keys[ep]

        def call(r=r, e=e):
            a = mir_eval.io.load_key(io.StringIO("\t".join(r.split(" ", 1)) + "\n"))
            b = mir_eval.io.load_key(io.StringIO("\t".join(e.split(" ", 1)) + "\n"))
            return mir_eval.key.weighted_score(a, b)
        yield Case("key.weighted_score", [r, e], call, tag=ftag("key", kind), info=_finfo(rp, ep, kind, ref=r, est=e))


PAT_KINDS = ["asis", "self", "swap", "dropocc", "droppattern", "shiftocc", "transpose", "thin", "truncate", "jitter"]


def pattern_text(pats):
    out = []
    for i, pat in enumerate(pats):
        out.append("pattern%d\n" % (i + 1))
        for j, occ in enumerate(pat):
            out.append("occurrence%d\n" % (j + 1))
            for t, m in occ:
                out.append("%s, %s\n" % (dec(t), dec(Fr(m))))
    return "".join(out)


def io_patterns(pats):
    """through io.load_patterns (an empty pattern list / empty occurrences cannot be written in the MIREX format and are
    handed over directly)"""
    if not pats or any(not occ for pat in pats for occ in pat) or any(not pat for pat in pats):
        from suites import pattern as SPT
        return SPT.py(pats)
    got = mir_eval.io.load_patterns(io.StringIO(pattern_text(pats)))
    return [[[(t, int(m)) for t, m in occ] for occ in pat] for pat in got]


def suite_pattern(rng, tier, shard, nshards):
    """all pattern-discovery scores on the pattern files (hundreds of onsets per pattern set)"""
    from suites import pattern as SPT
    P = mir_eval.pattern
    lim = nmax(tier, 40, 80)

    def rd(path):
        pats = mir_eval.io.load_patterns(path)
        return [[[(snap(t), int(round(m))) for t, m in occ] for occ in pat] for pat in pats]
    for (rp, ep), kind in plan(_pairs("pattern"), tier, shard, nshards, PAT_KINDS, quick=6, thorough=40):
        ref = [[occ[:lim] for occ in pat] for pat in load(rd, rp)]
        est = [[occ[:lim] for occ in pat] for pat in load(rd, ep)]
        if kind == "self":
            est = [[list(o) for o in p] for p in ref]
        elif kind == "swap":
            ref, est = est, ref
        elif kind == "dropocc":
            est = [[o for o in p if rng.random() >= 0.3] or p[:1] for p in est]
        elif kind == "droppattern":
            est = [p for p in est if rng.random() >= 0.3] or est[:1]
        elif kind == "shiftocc":
            est = [[SPT.shifted(o, Fr(rng.randint(-64, 64), LAT), 0) if rng.random() < 0.5 else o for o in p] for p in est]
        elif kind == "transpose":
            est = [[SPT.shifted(o, Fr(0), rng.choice([12, -5, 7])) if rng.random() < 0.5 else o for o in p] for p in est]
        elif kind == "thin":
            est = [[[x for x in o if rng.random() >= 0.2] or o[:1] for o in p] for p in est]
        elif kind == "truncate":
            est = est[:max(1, len(est) // 2)]
        elif kind == "jitter":
            est = [[[(t + Fr(rng.choice([-1, 1]), LAT), m) if rng.random() < 0.1 else (t, m) for t, m in o] for o in p]
                   for p in est]
        tag = ftag("pattern", kind)
        info = _finfo(rp, ep, kind, n_ref=SPT.n_onsets(ref), n_est=SPT.n_onsets(est), ref=S(SPT.ex(ref)), est=S(SPT.ex(est)))
        nt = SPT.n_onsets(ref) > 0 and SPT.n_onsets(est) > 0
        R, E = SPT.ex(ref), SPT.ex(est)
        tol = rng.choice([None, None, Fr(1, 32), Fr(1, 1024)])
        thres = rng.choice([None, None, Fr(1, 2), Fr(3, 4), Fr(2, 3)])
        nn = rng.choice([None, 1, 2, 5])
        kt = {} if tol is None else {"tol": float(tol)}
        kh = {} if thres is None else {"thres": float(thres)}
        kn = {} if nn is None else {"n": nn}

        def both(ref=ref, est=est):
            return io_patterns(ref), io_patterns(est)
        yield Case("pattern.standard_FPR", [R, E, tol], lambda both=both, kw=kt: P.standard_FPR(*both(), **kw), tag=tag,
                   info=info, nontrivial=nt)
        yield Case("pattern.establishment_FPR", [R, E, None], lambda both=both: P.establishment_FPR(*both()), tag=tag,
                   info=info, nontrivial=nt)
        yield Case("pattern.occurrence_FPR", [R, E, thres, None], lambda both=both, kw=kh: P.occurrence_FPR(*both(), **kw),
                   tag=tag, info=info, nontrivial=nt)
        yield Case("pattern.three_layer_FPR", [R, E], lambda both=both: P.three_layer_FPR(*both()), tag=tag, info=info,
                   nontrivial=nt)
        yield Case("pattern.first_n_three_layer_P", [R, E, nn], lambda both=both, kw=kn: P.first_n_three_layer_P(*both(), **kw),
                   tag=tag, info=info, nontrivial=nt)
        yield Case("pattern.first_n_target_proportion_R", [R, E, nn],
                   lambda both=both, kw=kn: P.first_n_target_proportion_R(*both(), **kw), tag=tag, info=info, nontrivial=nt)
        yield Case("pattern.evaluate", [R, E, None, None, None, None], lambda both=both: P.evaluate(*both()), tag=tag,
                   info=info, nontrivial=nt)


def _registered():
    """name -> (fixture directories of which at least one must exist, generator)"""
    s = {"onset_fixtures": (["onset"], suite_onset_fixtures), "beat_fixtures": (["beat"], suite_beat_fixtures),
         "onset": (["onset"], suite_onset), "beat": (["beat"], suite_beat), "matching": (["beat", "onset"], suite_matching),
         "alignment": (["alignment", "onset", "beat"], suite_alignment),
         "segment_boundary": (["segment"], suite_segment_boundary), "segment_frames": (["segment"], suite_segment_frames),
         "chord": (["chord"], suite_chord), "chord_labels": (["chord"], suite_chord_labels),
         "hierarchy": (["hierarchy", "segment"], suite_hierarchy),
         "melody": (["melody"], suite_melody), "multipitch": (["multipitch"], suite_multipitch),
         "transcription": (["transcription"], suite_transcription),
         "transcription_velocity": (["transcription_velocity"], suite_transcription_velocity),
         "tempo": (["tempo"], suite_tempo), "key": (["key"], suite_key), "pattern": (["pattern"], suite_pattern)}
    return {k: g for k, (need, g) in s.items() if any(have(d) for d in need)}


# a task whose fixture directory is missing is skipped (its suite is not registered)
SUITES = _registered()
