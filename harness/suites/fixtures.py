"""Stream F (DESIGN Part II §2.4): the annotation files shipped in /repo/tests/data, each value perturbed by a per-file
offset, read through mir_eval.io, scored by the real code and by the model on the exact decimal values.

Only hit-based event metrics are run on this stream (beat F-measure after trimming, onset F/P/R): a case is kept only if no
|ref_i - est_j| lies within 1e-6 of the window (decided in exact arithmetic), so that binary64 and the rational model take
the same side of every comparison."""
import glob
import io
import os
from decimal import Decimal
from fractions import Fraction as Fr

import numpy as np
import mir_eval

import core
from core import Case

DATA = os.path.join(core.REPO, "tests", "data")


def _read(path):
    """first column of every non-comment line, rounded to 6 decimals (so the perturbed values stay short decimals)"""
    out = []
    for line in open(path):
        line = line.strip()
        if not line or line.startswith("#"):
            continue
        out.append(Fr(round(Decimal(line.split()[0]), 6)))
    return out


def _pairs(task):
    refs = sorted(glob.glob(os.path.join(DATA, task, "ref*.txt")))
    out = []
    for r in refs:
        e = r.replace("ref", "est")
        if os.path.exists(e):
            out.append((r, e))
    return out


def _perturb(vals, k):
    # a per-file offset that is not a multiple of any default threshold, cumulative so that order is preserved
    d = Fr(1234577 + 1000 * k, 10 ** 10)
    return [v + d * (i % 7 + 1) for i, v in enumerate(vals)]


def _safe(ref, est, w, margin=Fr(1, 10 ** 6)):
    for r in ref:
        for e in est:
            if abs(abs(r - e) - w) <= margin:
                return False
    return True


def _through_io(vals):
    """write the perturbed values as a text file and load them back with the real loader (exact decimal text)"""
    txt = "".join("%s\n" % format(Decimal(v.numerator) / Decimal(v.denominator), "f") for v in vals)
    return mir_eval.io.load_events(io.StringIO(txt))


def _dec(v):
    # exact: denominators are powers of ten
    return v


def suite_onset_fixtures(rng, tier, shard, nshards):
    pairs = _pairs("onset")
    reps = 2 if tier == "quick" else 20
    idx = 0
    for rp, ep in pairs:
        for k in range(reps):
            idx += 1
            if idx % nshards != shard:
                continue
            ref = sorted(_perturb(_read(rp), rng.randint(0, 999)))
            est = sorted(_perturb(_read(ep), rng.randint(0, 999)))
            w = rng.choice([Fr(1, 20), Fr(1, 40), Fr(1, 10), Fr(7, 100)])
            if not _safe(ref, est, w):
                continue

            def call(ref=ref, est=est, w=w):
                f, p, r = mir_eval.onset.f_measure(_through_io(ref), _through_io(est), window=float(w))
                return [p, r, f]
            yield Case("hitmetric.event_prf", [ref, est, w, Fr(1)], call, tag="onset fixture w=%s" % w,
                       info={"ref_file": os.path.basename(rp), "est_file": os.path.basename(ep), "window": str(w), "n_ref": len(ref),
                             "n_est": len(est)}, nontrivial=True)


def suite_beat_fixtures(rng, tier, shard, nshards):
    pairs = _pairs("beat")
    reps = 2 if tier == "quick" else 20
    idx = 0
    for rp, ep in pairs:
        for k in range(reps):
            idx += 1
            if idx % nshards != shard:
                continue
            ref = [v for v in sorted(_perturb(_read(rp), rng.randint(0, 999))) if v >= 5]
            est = [v for v in sorted(_perturb(_read(ep), rng.randint(0, 999))) if v >= 5]
            w = rng.choice([Fr(7, 100), Fr(1, 20), Fr(1, 10)])
            if not _safe(ref, est, w):
                continue

            def call(ref=ref, est=est, w=w):
                return mir_eval.beat.f_measure(_through_io(ref), _through_io(est), f_measure_threshold=float(w))
            yield Case("hitmetric.event_prf", [ref, est, w, Fr(1)], call, tag="beat fixture w=%s" % w,
                       info={"ref_file": os.path.basename(rp), "est_file": os.path.basename(ep), "window": str(w), "n_ref": len(ref),
                             "n_est": len(est)}, nontrivial=True, post=lambda v: v[2])


SUITES = {"onset_fixtures": suite_onset_fixtures, "beat_fixtures": suite_beat_fixtures}
