"""Reduced correspondence suites for the relational slice on hierarchy and chord-level scoring: the C12 suites
(`chord.weighted_accuracy`, `merge_chord_intervals`, segmentation scores, merge + weighted accuracy, the
`chord.evaluate` token pipeline) and the C17 suites (`tmeasure`, `lmeasure`, `_meet`, `_lca`), at a fraction of their
size, so that C01 / C02 / C06 / C08 tie the model functions their chord and hierarchy theorems are about to the
code on every run (the full-size suites run with C12 and C17).  Key: `suites/key.py`."""
import itertools

from props import c12 as _c12
from props import c17 as _c17


def _limited(gen, nquick, nthorough):
    def g(rng, tier, shard, nshards):
        return itertools.islice(gen(rng, tier, shard, nshards), nquick if tier == "quick" else nthorough)
    return g


SUITES = {
    "chord_weighted_accuracy": _limited(_c12.SUITES["weighted_accuracy"], 40, 400),
    "chord_merge_chord_intervals": _limited(_c12.SUITES["merge_chord_intervals"], 25, 250),
    "chord_segmentation": _limited(_c12.SUITES["segmentation"], 40, 400),
    "chord_score": _limited(_c12.SUITES["score"], 25, 250),
    "chord_evaluate": _limited(_c12.SUITES["evaluate"], 25, 250),
    "hierarchy_tmeasure": _limited(_c17.SUITES["tmeasure"], 12, 120),
    "hierarchy_lmeasure": _limited(_c17.SUITES["lmeasure"], 12, 120),
    "hierarchy_meet": _limited(_c17.SUITES["meet"], 12, 120),
    "hierarchy_lca": _limited(_c17.SUITES["lca"], 12, 120),
}


def classify(suite, d):
    return None
