"""key.weighted_score: all ordered pairs of valid key strings + malformed keys (suites written with the C09/C11 slice)."""
from props import c09 as _c09

SUITES = {"key_pairs": _c09.suite_key_pairs, "key_malformed": _c09.suite_key_malformed}
