"""Correspondence suites for mir_eval.melody (model: lean/MirModel/Melody.lean).

Stream E: the five frame measures take cent and voicing arrays directly, so they are exercised on exact
lattices (integer / dyadic cents, dyadic voicings) with pitch differences placed exactly on, one cent below and
one cent above the tolerance, on octave multiples and on the chroma half-way point (600 mod 1200).  Time bases
are multiples of 1/32 s, hops dyadic.
Stream D: `to_cent_voicing` / `evaluate` start from Hz.  The model works in the log domain; the harness converts
a (sign, cent) pair to `sign * base * 2**(cent/1200)` Hz, so `log2` is exercised on the way in.  Cases whose pitch
decisions are closer than 1 cent to the tolerance (asked of the model through `melody.evaluate_margin`) are not sent.
"""
from fractions import Fraction as Fr

import numpy as np
import mir_eval
from mir_eval import melody as M

import core
from core import Case
import gen
import proto

KINDS = ["linear", "linear", "linear", "zero", "nearest"]
TOLS = [Fr(50), Fr(50), Fr(50), Fr(25), Fr(100), Fr(0), Fr(1, 2), Fr(25, 2), Fr(49), Fr(51), Fr(600), Fr(1200),
        Fr(-1), Fr(75, 2)]
DELTAS = [0, 0, 1, 25, 49, 50, 51, 75, 100, 599, 600, 601, 1149, 1150, 1151, 1200, 1249, 1250, 1251, 1800,
          2350, 2400, 2449, 2450, 3600]


def n_cases(tier, quick, thorough):
    return quick if tier == "quick" else thorough


# ------------------------------------------------------------------------------------------------
# frame-level inputs (stream E)

def voicing(rng, n, style=None):
    style = style or rng.choice(["bin", "bin", "bin", "dyadic", "ones", "zeros"])
    if style == "bin":
        return [Fr(rng.randint(0, 1)) for _ in range(n)]
    if style == "ones":
        return [Fr(1)] * n
    if style == "zeros":
        return [Fr(0)] * n
    return [Fr(rng.randint(0, 8), 8) for _ in range(n)]


def cents_pair(rng, n, tol):
    """reference cents on a 25-cent lattice (0 = 'no pitch'); estimate = reference + a difference that is on,
    next to, or far from the threshold, plain or folded by octaves"""
    rc, ec = [], []
    for _ in range(n):
        r = Fr(0) if rng.random() < 0.15 else Fr(25 * rng.randint(48, 300))
        u = rng.random()
        if u < 0.12:
            e = Fr(0)
        elif u < 0.3:
            e = r + rng.choice([-1, 1]) * (tol + rng.choice([0, 0, 1, -1, Fr(1, 8), Fr(-1, 8)])
                                           + 1200 * rng.choice([0, 0, 1, 2]))
        elif u < 0.85:
            e = r + rng.choice([-1, 1]) * rng.choice(DELTAS)
        else:
            e = Fr(25 * rng.randint(48, 300)) + Fr(rng.randint(0, 7), 8)
        rc.append(r)
        ec.append(e)
    return rc, ec


def frame_instance(rng):
    n = rng.choice([0, 1, 1, 2, 3, 4, 5, 6, 8, 12])
    tol = rng.choice(TOLS)
    rv = voicing(rng, n)
    ev = voicing(rng, n)
    rc, ec = cents_pair(rng, n, tol)
    if rng.random() < 0.5:
        # the usual coupling: unvoiced reference frames carry no pitch
        rc = [c if v > 0 else Fr(0) for c, v in zip(rc, rv)]
    fault = "valid"
    u = rng.random()
    if u < 0.05 and n:
        fault = "range"
        k = rng.randrange(n)
        (rv if rng.random() < 0.5 else ev)[k] = rng.choice([Fr(-1, 8), Fr(9, 8), Fr(2), Fr(-1)])
    elif u < 0.12:
        fault = "length"
        which = rng.choice([rv, rc, ev, ec])
        if which and rng.random() < 0.5:
            which.pop()
        else:
            which.append(Fr(1))
    return rv, rc, ev, ec, tol, fault


def _info(**kw):
    return {k: proto.jsonable(v) for k, v in kw.items()}


def suite_frame_measures(rng, tier, shard, nshards):
    n = n_cases(tier, 250, 2000)
    for _ in range(n):
        rv, rc, ev, ec, tol, fault = frame_instance(rng)
        nontrivial = bool(rv) and any(v > 0 for v in rv)
        for op, fn in (("melody.raw_pitch_accuracy", M.raw_pitch_accuracy),
                       ("melody.raw_chroma_accuracy", M.raw_chroma_accuracy),
                       ("melody.overall_accuracy", M.overall_accuracy)):
            yield Case(op, [rv, rc, ev, ec, tol],
                       lambda fn=fn, a=(rv, rc, ev, ec), tol=tol: fn(*[gen.arr(x) for x in a],
                                                                     cent_tolerance=float(tol)),
                       tag="%s tol=%s" % (fault, tol), nontrivial=nontrivial,
                       info=_info(op=op, rv=rv, rc=rc, ev=ev, ec=ec, tol=tol))
        yield Case("melody.validate", [rv, rc, ev, ec],
                   lambda a=(rv, rc, ev, ec): M.validate(*[gen.arr(x) for x in a]),
                   tag=fault, nontrivial=False, info=_info(op="validate", rv=rv, rc=rc, ev=ev, ec=ec))


def suite_voicing_measures(rng, tier, shard, nshards):
    n = n_cases(tier, 250, 2000)
    for _ in range(n):
        u = rng.random()
        nr = rng.choice([0, 1, 1, 2, 3, 4, 6, 8])
        ne = nr if u < 0.8 else rng.choice([0, 1, 1, 2, 3, nr + 1])
        rv, ev = voicing(rng, nr), voicing(rng, ne)
        if rng.random() < 0.06 and nr:
            rv[rng.randrange(nr)] = rng.choice([Fr(-1, 8), Fr(9, 8)])
        if rng.random() < 0.06 and ne:
            ev[rng.randrange(ne)] = rng.choice([Fr(-1, 8), Fr(9, 8)])
        tag = "same-length" if nr == ne else "lengths %s/%s" % (min(nr, 2), min(ne, 2))
        nontrivial = any(v > 0 for v in rv) and any(v == 0 for v in rv)
        for op, fn in (("melody.voicing_recall", M.voicing_recall),
                       ("melody.voicing_false_alarm", M.voicing_false_alarm),
                       ("melody.voicing_measures", M.voicing_measures),
                       ("melody.validate_voicing", M.validate_voicing)):
            yield Case(op, [rv, ev], lambda fn=fn, rv=rv, ev=ev: fn(gen.arr(rv), gen.arr(ev)),
                       tag=tag, nontrivial=nontrivial, info=_info(op=op, rv=rv, ev=ev))


def suite_chroma_dist(rng, tier, shard, nshards):
    """the folding expression itself, through raw_chroma_accuracy on a single frame: score 1 iff chromaDist < tol"""
    n = n_cases(tier, 150, 1200)
    for _ in range(n):
        k = rng.randint(0, 4)
        d = Fr(1200 * k) + rng.choice([0, 1, -1, 50, -50, 49, 51, 599, 600, 601, -599, -600, -601, 300,
                                       Fr(1199, 2), Fr(1201, 2), rng.randint(-600, 600)])
        d = abs(d)
        tol = rng.choice([Fr(50), Fr(1), Fr(600), Fr(601), Fr(599), Fr(300), Fr(51), Fr(49)])
        r = Fr(25 * rng.randint(200, 300))
        e = r + rng.choice([-1, 1]) * d
        if e == 0:
            continue
        yield Case("melody.raw_chroma_accuracy", [[Fr(1)], [r], [Fr(1)], [e], tol],
                   lambda r=r, e=e, tol=tol: M.raw_chroma_accuracy(np.array([1.0]), gen.arr([r]), np.array([1.0]),
                                                                   gen.arr([e]), cent_tolerance=float(tol)),
                   tag="d mod 1200 = %s" % (d % 1200 if d % 1200 in (0, 600) else "other"),
                   info=_info(op="chroma", r=r, e=e, tol=tol))


# ------------------------------------------------------------------------------------------------
# time bases and resampling (stream E)

def time_base(rng, nmax=8, start_zero=None):
    n = rng.choice([1, 2, 3, 4, 5, 6, nmax])
    style = rng.random()
    t0 = Fr(0) if (start_zero if start_zero is not None else rng.random() < 0.7) else Fr(rng.randint(1, 16), 32)
    if style < 0.6:
        step = rng.choice([Fr(1, 32), Fr(1, 16), Fr(1, 8), Fr(3, 32), Fr(1, 4), Fr(1, 2)])
        return [t0 + i * step for i in range(n)]
    ts = [t0]
    for _ in range(n - 1):
        ts.append(ts[-1] + Fr(rng.randint(1, 12), 32))
    return ts


def cent_series(rng, n, zero=0.25):
    out = []
    for _ in range(n):
        if rng.random() < zero:
            out.append(Fr(0))
        else:
            out.append(Fr(25 * rng.randint(96, 300), 2))
    return out


def suite_constant_hop_timebase(rng, tier, shard, nshards):
    n = n_cases(tier, 120, 1000)
    for _ in range(n):
        hop = rng.choice([Fr(1, 32), Fr(1, 16), Fr(1, 8), Fr(3, 32), Fr(1, 4), Fr(1), Fr(5, 32), Fr(0), Fr(-1, 8)])
        u = rng.random()
        if u < 0.3 and hop > 0:
            end = hop * rng.randint(0, 40)                      # end exactly on the grid
        elif u < 0.4 and hop > 0:
            end = hop * rng.randint(0, 40) + rng.choice([-1, 1]) * Fr(1, 64)
        elif u < 0.5:
            end = Fr(rng.randint(-64, 0), 32)
        else:
            end = Fr(rng.randint(0, 256), 32)
        tag = "hop<=0" if hop <= 0 else ("end<0" if end < 0 else "grid" if (end / hop).denominator == 1 else "off-grid")
        yield Case("melody.constant_hop_timebase", [hop, end],
                   lambda hop=hop, end=end: M.constant_hop_timebase(float(hop), float(end)),
                   tag=tag, nontrivial=hop > 0 and end >= hop, info=_info(hop=hop, end=end))
    # decimal hops (D): end/hop kept away from integers
    for _ in range(n // 2):
        hop = rng.choice([Fr(1, 100), Fr(29, 5000), Fr(1, 1000) * rng.randint(2, 50), Fr(256, 44100).limit_denominator(100000)])
        end = Fr(rng.randint(0, 3000), 1000) + Fr(1, 2000)
        q = end / hop
        if min(q - (q.numerator // q.denominator), 1 - (q - (q.numerator // q.denominator))) < Fr(1, 10 ** 6):
            continue
        if hop * 10 ** 10 % 1 != 0:
            continue
        yield Case("melody.constant_hop_timebase", [hop, end],
                   lambda hop=hop, end=end: M.constant_hop_timebase(float(hop), float(end)),
                   tag="decimal", info=_info(hop=hop, end=end))


def resample_instance(rng):
    times = time_base(rng)
    n = len(times)
    freqs = cent_series(rng, n)
    v = [Fr(1) if f != 0 else Fr(0) for f in freqs] if rng.random() < 0.6 else voicing(rng, n)
    kind = rng.choice(KINDS)
    u = rng.random()
    if u < 0.12:
        tn, tag = list(times), "same"
    elif u < 0.2:
        tn, tag = [t + rng.choice([Fr(0), Fr(1, 32)]) for t in times], "same-length"
    else:
        hop = rng.choice([Fr(1, 32), Fr(1, 16), Fr(3, 32), Fr(1, 8), Fr(1, 4)])
        m = rng.randint(1, 12)
        start = times[0] if rng.random() < 0.8 else times[0] + rng.choice([-1, 1, 2]) * Fr(1, 32)
        tn = [start + i * hop for i in range(m)]
        tag = "grid"
        if tn[-1] > max(times):
            tag = "grid-extends"
        if min(tn) < min(times):
            tag = "below-range"
    fault = rng.random()
    if fault < 0.04 and n >= 2:
        k = rng.randrange(1, n)
        times[k] = times[k - 1]
        tag = "duplicate-time"
    elif fault < 0.1 and n >= 3:
        i, j = rng.sample(range(n), 2)
        times[i], times[j] = times[j], times[i]
        tag = "unsorted"
    elif fault < 0.12:
        tn, tag = [], "empty-new"
    return times, freqs, v, tn, kind, tag


def suite_resample(rng, tier, shard, nshards):
    n = n_cases(tier, 500, 4000)
    for _ in range(n):
        times, freqs, v, tn, kind, tag = resample_instance(rng)

        def call(times=times, freqs=freqs, v=v, tn=tn, kind=kind):
            a, b = M.resample_melody_series(gen.arr(times), gen.arr(freqs), gen.arr(v), gen.arr(tn), kind)
            return [a, b]
        yield Case("melody.resample_melody_series", [times, freqs, v, tn, kind], call,
                   tag="%s %s" % (kind, tag), nontrivial=any(f != 0 for f in freqs) and tag != "same",
                   info=_info(times=times, freqs=freqs, voicing=v, times_new=tn, kind=kind))


# ------------------------------------------------------------------------------------------------
# Hz-level functions (log-domain model; harness converts)

def hz(pair, base=10.0):
    s, c = pair
    if s == 0:
        return 0.0
    return (1.0 if s > 0 else -1.0) * base * 2.0 ** (float(c) / 1200.0)


def hz_arr(pairs, base=10.0):
    return np.array([hz(p, base) for p in pairs], dtype=float)


def freq_series(rng, n, zero=0.2, neg=0.15, lattice=Fr(25, 2), base_hit=0.02):
    """(sign, cent) pairs: cents on a 12.5-cent lattice between 2 and 7 octaves above the base frequency"""
    out = []
    for _ in range(n):
        u = rng.random()
        c = lattice * rng.randint(int(2400 / lattice), int(8400 / lattice))
        if rng.random() < base_hit:
            c = Fr(0)                                  # exactly the base frequency: hz2cents gives 0
        if u < zero:
            out.append([0, Fr(0)])
        elif u < zero + neg:
            out.append([-1, c])
        else:
            out.append([1, c])
    return out


def near_freqs(rng, ref, tol=Fr(50)):
    out = []
    for s, c in ref:
        u = rng.random()
        if u < 0.1:
            out.append([0, Fr(0)])
            continue
        if s == 0:
            out.append([rng.choice([0, 0, 1, -1]), Fr(25, 2) * rng.randint(200, 600)] if u < 0.6 else [0, Fr(0)])
            if out[-1][0] == 0:
                out[-1][1] = Fr(0)
            continue
        d = rng.choice([0, 0, 0, Fr(25, 2), 25, Fr(75, 2), 49, 51, Fr(125, 2), 100, 1151, 1200, 1249, 1175, 2400, 600])
        c2 = c + rng.choice([-1, 1]) * d
        if c2 <= 0:
            c2 = c
        out.append([rng.choice([1, 1, 1, 1, -1]), c2])
    return out


def suite_hz_conversions(rng, tier, shard, nshards):
    n = n_cases(tier, 150, 1200)
    for _ in range(n):
        m = rng.choice([0, 1, 2, 3, 5, 8])
        fs = freq_series(rng, m, base_hit=0.1)
        base = rng.choice([10.0, 10.0, 20.0, 440.0])
        yield Case("melody.hz2cents", [fs],
                   lambda fs=fs, base=base: M.hz2cents(hz_arr(fs, base), base_frequency=base),
                   tag="base=%g" % base, nontrivial=any(s != 0 for s, _ in fs), info=_info(freqs=fs, base=base))
        # freq_to_voicing: compare |f| in Hz (model pair -> Hz on the harness side) and the voicing array
        u = rng.random()
        if u < 0.5:
            v = None
        else:
            v = voicing(rng, m if u < 0.92 else m + 1, "dyadic")

        def call(fs=fs, v=v):
            a, b = M.freq_to_voicing(hz_arr(fs), None if v is None else gen.arr(v))
            return [a, b]

        def post(mv):
            return [[hz((int(p[0]), p[1])) for p in mv[0]], mv[1]]
        yield Case("melody.freq_to_voicing", [fs, v], call, post=post,
                   tag="voicing=%s" % ("none" if v is None else "given" if len(v) == m else "wrong-length"),
                   nontrivial=any(s != 0 for s, _ in fs), info=_info(freqs=fs, voicing=v))


def tcv_instance(rng, lattice=32):
    rt = time_base(rng)
    rf = freq_series(rng, len(rt))
    u = rng.random()
    if u < 0.35:
        et = list(rt)
    elif u < 0.5:
        et = [t + Fr(rng.choice([0, 1, 2]), 32) for t in rt][:rng.randint(1, len(rt))]
    else:
        et = time_base(rng)
    if len(et) == len(rt) and rng.random() < 0.7:
        ef = near_freqs(rng, rf)
    else:
        ef = freq_series(rng, len(et))
    ev = voicing(rng, len(et), rng.choice(["bin", "dyadic"])) if rng.random() < 0.3 else None
    rr = voicing(rng, len(rt), rng.choice(["bin", "dyadic"])) if rng.random() < 0.25 else None
    if ev is not None and rng.random() < 0.05:
        ev = ev + [Fr(1)]
    hop = rng.choice([None, None, None, Fr(1, 32), Fr(1, 16), Fr(1, 8), Fr(3, 32), Fr(1, 4)])
    if rng.random() < 0.02:
        hop = rng.choice([Fr(0), Fr(-1, 8)])
    kind = rng.choice(KINDS)
    if rng.random() < 0.03:
        rt = [t - Fr(1, 2) for t in rt]     # negative times
    return rt, rf, et, ef, ev, rr, hop, kind


def tcv_tag(rt, et, ev, rr, hop, kind):
    return "%s hop=%s %s%s%s" % (kind, "none" if hop is None else "yes",
                                 "same-times" if rt == et else "other-times",
                                 " est_voicing" if ev is not None else "", " ref_reward" if rr is not None else "")


def call_tcv(rt, rf, et, ef, ev, rr, hop, kind, base=10.0):
    kw = {"kind": kind, "base_frequency": base}
    if hop is not None:
        kw["hop"] = float(hop)
    return M.to_cent_voicing(gen.arr(rt), hz_arr(rf, base), gen.arr(et), hz_arr(ef, base),
                             None if ev is None else gen.arr(ev), None if rr is None else gen.arr(rr), **kw)


def call_evaluate(rt, rf, et, ef, ev, rr, hop, kind, tol, base=10.0):
    kw = {"kind": kind, "base_frequency": base, "cent_tolerance": float(tol)}
    if hop is not None:
        kw["hop"] = float(hop)
    return M.evaluate(gen.arr(rt), hz_arr(rf, base), gen.arr(et), hz_arr(ef, base),
                      None if ev is None else gen.arr(ev), None if rr is None else gen.arr(rr), **kw)


def suite_to_cent_voicing(rng, tier, shard, nshards):
    n = n_cases(tier, 400, 3000)
    for _ in range(n):
        rt, rf, et, ef, ev, rr, hop, kind = tcv_instance(rng)
        base = rng.choice([10.0, 10.0, 10.0, 55.0])
        yield Case("melody.to_cent_voicing", [rt, rf, et, ef, ev, rr, hop, kind],
                   lambda a=(rt, rf, et, ef, ev, rr, hop, kind), base=base: list(call_tcv(*a, base=base)),
                   tag=tcv_tag(rt, et, ev, rr, hop, kind),
                   nontrivial=any(s != 0 for s, _ in rf) and any(s != 0 for s, _ in ef),
                   info=_info(rt=rt, rf=rf, et=et, ef=ef, ev=ev, rr=rr, hop=hop, kind=kind, base=base))


def margins(cands):
    """ask the model how far each candidate's pitch decisions are from the tolerance (None = no pitched frame,
    Err = the model raises)"""
    lines = ["%d melody.evaluate_margin %s\n" % (i, " ".join(proto.enc(a) for a in c)) for i, c in enumerate(cands)]
    outs = core.run_driver(lines) if lines else []
    return [proto.dec_line(outs[i])[1] for i in range(len(cands))]


def off_grid(t, hop):
    q = t / hop
    fr = q - (q.numerator // q.denominator)
    return min(fr, 1 - fr) >= Fr(1, 10 ** 6)


def decimal_instance(rng):
    """stream D: millisecond time stamps, decimal hop, est close to ref"""
    n = rng.choice([2, 3, 5, 8, 12, 20])
    step = Fr(rng.choice([10, 10, 10, 20, 29, 58]), 1000)
    t0 = Fr(0) if rng.random() < 0.7 else step
    rt = [t0 + i * step for i in range(n)]
    rf = freq_series(rng, n, base_hit=0.0)
    if rng.random() < 0.5:
        et, ef = list(rt), near_freqs(rng, rf)
    else:
        m = rng.choice([2, 3, 5, 8, 12, 20])
        step2 = Fr(rng.choice([10, 20, 29, 7, 13]), 1000)
        et = [i * step2 for i in range(m)]
        ef = freq_series(rng, m, base_hit=0.0)
    hop = rng.choice([None, None, Fr(1, 100), Fr(29, 5000), Fr(1, 200), Fr(3, 1000)])
    # the last time stamp must not be within 1e-6 hops of the hop grid (the float division in
    # constant_hop_timebase may fall either way there): nudge by 0.4 ms, the caller drops what is left
    if hop is not None:
        if not off_grid(max(rt), hop):
            rt = rt[:1] + [t + Fr(1, 2500) for t in rt[1:]]
        if not off_grid(max(et), hop):
            et = et[:1] + [t + Fr(1, 2500) for t in et[1:]]
    kind = rng.choice(["linear", "linear", "zero"])
    return rt, rf, et, ef, None, None, hop, kind


def suite_evaluate(rng, tier, shard, nshards):
    n = n_cases(tier, 400, 3000)
    cands, meta = [], []
    for k in range(n):
        if k % 4 == 3:
            rt, rf, et, ef, ev, rr, hop, kind = decimal_instance(rng)
            if hop is not None and not (off_grid(max(rt), hop) and off_grid(max(et), hop)):
                continue
            stream = "D"
        else:
            rt, rf, et, ef, ev, rr, hop, kind = tcv_instance(rng)
            stream = "E"
        tol = rng.choice([Fr(50), Fr(50), Fr(50), Fr(25), Fr(100), Fr(10), Fr(75, 2) + Fr(1, 4)])
        cands.append([rt, rf, et, ef, ev, rr, hop, kind, tol])
        meta.append(stream)
    ms = margins(cands)
    for c, stream, m in zip(cands, meta, ms):
        if isinstance(m, Fr) and m < 1:
            continue                                           # within 1 cent of the threshold: not claimed
        rt, rf, et, ef, ev, rr, hop, kind, tol = c
        base = 10.0 if stream == "E" else 55.0
        yield Case("melody.evaluate", c,
                   lambda a=tuple(c), base=base: call_evaluate(*a, base=base),
                   tag=stream + " " + tcv_tag(rt, et, ev, rr, hop, kind) + " tol=%s" % tol,
                   nontrivial=any(s != 0 for s, _ in rf) and any(s != 0 for s, _ in ef),
                   info=_info(rt=rt, rf=rf, et=et, ef=ef, ev=ev, rr=rr, hop=hop, kind=kind, tol=tol, base=base))


SUITES = {
    "melody.frame_measures": suite_frame_measures,
    "melody.voicing_measures": suite_voicing_measures,
    "melody.chroma_dist": suite_chroma_dist,
    "melody.constant_hop_timebase": suite_constant_hop_timebase,
    "melody.resample": suite_resample,
    "melody.hz_conversions": suite_hz_conversions,
    "melody.to_cent_voicing": suite_to_cent_voicing,
    "melody.evaluate": suite_evaluate,
}
