"""Helpers shared by the onset / boundary / tempo / alignment suites (slice T_MISC).

* `jargs` / `unjargs`: exact arguments <-> JSON (Fractions as 'p/q' strings).
* `definition_checker(IMPL)`: a CHECKERS entry that runs ONE case through the Lean model (the executable
  definition) and through the real code and reports any difference — used to turn a correspondence
  disagreement into a concrete failing input (`classify`).
* `max_matching(adj)`: a 15-line augmenting-path maximum matching, independent of mir_eval's Hopcroft-Karp.
"""
from fractions import Fraction as Fr
import math

import core
import proto


def jargs(v):
    if isinstance(v, Fr):
        return str(v)
    if isinstance(v, (list, tuple)):
        return [jargs(x) for x in v]
    return v


def unjargs(v):
    if isinstance(v, bool) or v is None:
        return v
    if isinstance(v, str):
        return Fr(v)
    if isinstance(v, int):
        return Fr(v)
    if isinstance(v, float):
        return Fr(v)          # only exact dyadics are ever stored as floats
    if isinstance(v, list):
        return [unjargs(x) for x in v]
    raise TypeError(type(v))


def model_eval(op, args):
    line = "0 %s %s\n" % (op, " ".join(proto.enc(a) for a in args))
    out = core.run_driver([line])
    return proto.dec_line(out[0])[1]


def definition_checker(impl_table, tol=1e-9):
    def check(inp):
        op = inp["op"]
        args = unjargs(inp["args"])
        mv = model_eval(op, args)
        iv = core.impl_result(lambda: impl_table[op](*args))
        d = proto.match(mv, iv, tol)
        if d is not None:
            return "%s%r: code differs from its executable definition: %s" % (op, inp["args"], d)
        return None
    return check


def classify_definition(d):
    """correspondence disagreement -> ("definition", oracle input)"""
    return "definition", {"op": d["op"], "args": d["args"]}


def max_matching(n_left, adj):
    """size of a maximum matching; adj[i] = list of right vertices feasible for left vertex i"""
    match_r = {}

    def try_aug(u, seen):
        for v in adj[u]:
            if v in seen:
                continue
            seen.add(v)
            if v not in match_r or try_aug(match_r[v], seen):
                match_r[v] = u
                return True
        return False

    k = 0
    for u in range(n_left):
        if try_aug(u, set()):
            k += 1
    return k


def fmeasure(p, r, beta=Fr(1)):
    if p == 0 and r == 0:
        return Fr(0)
    return (1 + beta * beta) * p * r / (beta * beta * p + r)


def close(a, b, tol=1e-9):
    if isinstance(a, float) and isinstance(b, float) and math.isnan(a) and math.isnan(b):
        return True
    return abs(float(a) - float(b)) <= tol * max(1.0, abs(float(b)))


def in01(x, tol=1e-9):
    x = float(x)
    return math.isfinite(x) and -tol <= x <= 1.0 + tol
