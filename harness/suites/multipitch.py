"""Value correspondence (model vs real code) for every modelled function of mir_eval.multipitch.

Streams
* times: exact lattice (multiples of 1/32 s), estimate time bases equal / shifted by half a hop (targets exactly
  half-way between two estimate frames: the tie of interp1d('nearest')) / sparser / denser / starting later /
  ending earlier / random / empty / single frame / duplicated time stamps.
* pitches through Hz (metrics, evaluate, validate): MIDI numbers on a 1/8-semitone lattice with windows
  k/8 +- 1/16, or on a 1/3-semitone lattice with windows in {1/4, 1/2 (default), 3/4, 5/4}; every reachable
  pitch difference (plain or circular mod 12) is >= 1/16 semitone away from the window.
* pitches in the MIDI domain (compute_num_true_positives, midi_to_chroma): exact dyadic MIDI values, dyadic
  windows, pairs exactly AT the window on purpose (decides `<=` against `<`).
"""
from fractions import Fraction as Fr

import numpy as np
import mir_eval
from mir_eval import multipitch as mp

from core import Case

LAT = 32


def hz(m):
    return 440.0 * 2.0 ** ((float(m) - 69.0) / 12.0)


def frames_hz(frames):
    return [np.array([hz(m) for m in f], dtype=float) for f in frames]


def frames_midi(frames):
    return [np.array([float(m) for m in f], dtype=float) for f in frames]


def tarr(ts):
    return np.array([float(t) for t in ts], dtype=float)


def S(x):
    """json-able, exact"""
    if isinstance(x, (list, tuple)):
        return [S(v) for v in x]
    return str(x)


def unS(x):
    if isinstance(x, (list, tuple)):
        return [unS(v) for v in x]
    return Fr(x)


# ------------------------------------------------------------------------------------------ generators
def pitch_setup(rng):
    """(lattice denominator, window or None) with a margin between window and every lattice difference"""
    if rng.random() < 0.5:
        den = 8
        w = rng.choice([Fr(1, 4), Fr(1, 2), Fr(1)]) + rng.choice([-1, 1]) * Fr(1, 16)
    else:
        den = 3
        w = rng.choice([None, None, Fr(1, 2), Fr(1, 4), Fr(3, 4), Fr(5, 4)])
    return den, w


def ref_frame(rng, den, kmax=4):
    k = rng.choice([0, 1, 1, 2, 2, 3, kmax])
    out = []
    for _ in range(k):
        if out and rng.random() < 0.3:
            # a close neighbour / an octave relative inside the same frame (makes the matching non-trivial)
            m = rng.choice(out) + rng.choice([Fr(1, den), Fr(-1, den), Fr(2, den), 12, -12, 0])
        else:
            m = Fr(rng.randint(30 * den, 96 * den), den)
        out.append(min(max(m, Fr(17)), Fr(110)))
    return out


def est_frame(rng, ref, den, w, kmax=4, exact_edge=False):
    """an estimate frame correlated with `ref`"""
    ww = Fr(1, 2) if w is None else w
    out = []
    for m in ref:
        u = rng.random()
        if u < 0.15:
            continue
        if u < 0.35:
            e = m
        elif u < 0.6:
            # next to the window edge (on it when exact_edge)
            lat_w = ww if exact_edge else Fr(int(ww * den), den)
            e = m + rng.choice([-1, 1]) * (lat_w + rng.choice([0, 0, 1]) * Fr(1, den))
        elif u < 0.8:
            e = m + rng.choice([12, -12, 24, -24]) + rng.choice([0, 0, 1, -1, 2]) * Fr(1, den)
        else:
            e = Fr(rng.randint(30 * den, 96 * den), den)
        out.append(min(max(e, Fr(17)), Fr(110)))
    for _ in range(rng.choice([0, 0, 0, 1, 2])):
        out.append(Fr(rng.randint(30 * den, 96 * den), den))
    rng.shuffle(out)
    return out[:kmax]


TB_KINDS = ["equal", "half_hop", "sparser", "denser", "later", "earlier", "random", "empty_est", "single_est",
            "dup_est", "offset_small", "empty_ref"]


def time_bases(rng, kind=None, nmax=8):
    """(kind, ref times, est times) on the 1/32 lattice"""
    kind = kind or rng.choice(TB_KINDS)
    hop = Fr(rng.choice([2, 4, 8]), LAT)
    n = rng.choice([1, 2, 3, 4, 5, 6, nmax])
    t0 = Fr(rng.randint(0, 64), LAT)
    rt = [t0 + i * hop for i in range(n)]
    if kind == "equal":
        et = list(rt)
    elif kind == "half_hop":
        s = rng.choice([-1, 1]) * hop / 2
        et = [t + s for t in rt if t + s >= 0]
    elif kind == "sparser":
        et = [t0 + i * 2 * hop for i in range((n + 1) // 2 + rng.choice([0, 1]))]
    elif kind == "denser":
        et = [t0 + i * hop / 2 for i in range(2 * n - rng.choice([0, 1, 2]))]
    elif kind == "later":
        et = rt[rng.randint(1, max(1, n - 1)):] if n > 1 else [rt[0] + hop]
    elif kind == "earlier":
        et = rt[:max(1, n - rng.randint(1, max(1, n - 1)))] if n > 1 else [max(Fr(0), rt[0] - hop)]
    elif kind == "random":
        et = sorted(Fr(rng.randint(0, 4 * LAT), LAT) for _ in range(rng.randint(1, nmax)))
    elif kind == "empty_est":
        et = []
    elif kind == "single_est":
        et = [rng.choice(rt) + rng.choice([0, hop / 2, -hop / 2, 3 * hop])]
        et = [max(Fr(0), et[0])]
    elif kind == "dup_est":
        et = sorted(list(rt) + [rng.choice(rt)])
        if rng.random() < 0.5:
            et = et[:len(rt)]          # same size, not all close
    elif kind == "offset_small":
        et = [t + Fr(1, LAT) for t in rt]    # same size, 1/32 s off: far outside np.allclose
    elif kind == "empty_ref":
        rt = []
        et = [t0 + i * hop for i in range(rng.choice([0, 0, 1, 3]))]
    return kind, rt, et


def instance(rng, kind=None, exact_edge=False, den_w=None):
    den, w = den_w or pitch_setup(rng)
    kind, rt, et = time_bases(rng, kind)
    rf = [ref_frame(rng, den) for _ in rt]
    if rng.random() < 0.08:
        rf = [[] for _ in rt]
    # the estimate describes the same "music": frame content follows the nearest reference frame
    ef = []
    for t in et:
        if rt and rng.random() < 0.85:
            i = min(range(len(rt)), key=lambda i: abs(rt[i] - t))
            ef.append(est_frame(rng, rf[i], den, w, exact_edge=exact_edge))
        else:
            ef.append(est_frame(rng, ref_frame(rng, den), den, w, exact_edge=exact_edge))
    if rng.random() < 0.05:
        ef = [[] for _ in et]
    return kind, rt, rf, et, ef, w


def call_metrics(rt, rf, et, ef, w, fn=None):
    fn = fn or mp.metrics
    kw = {} if w is None else {"window": float(w)}
    return fn(tarr(rt), frames_hz(rf), tarr(et), frames_hz(ef), **kw)


def info_of(kind, rt, rf, et, ef, w):
    return {"kind": kind, "ref_time": S(rt), "ref_midi": S(rf), "est_time": S(et), "est_midi": S(ef),
            "window": None if w is None else str(w)}


# ------------------------------------------------------------------------------------------ suites
def suite_metrics(rng, tier, shard, nshards):
    n = 260 if tier == "quick" else 6000
    for k in range(n):
        kind, rt, rf, et, ef, w = instance(rng, TB_KINDS[k % len(TB_KINDS)] if k < 4 * len(TB_KINDS) else None)
        yield Case("multipitch.metrics", [rt, rf, et, ef, w],
                   lambda a=(rt, rf, et, ef, w): list(call_metrics(*a)),
                   tag="%s w=%s" % (kind, w), info=info_of(kind, rt, rf, et, ef, w),
                   nontrivial=any(rf) and any(ef))


def suite_evaluate(rng, tier, shard, nshards):
    n = 40 if tier == "quick" else 800
    for _ in range(n):
        kind, rt, rf, et, ef, w = instance(rng)

        def call(a=(rt, rf, et, ef, w)):
            d = call_metrics(*a, fn=mp.evaluate)
            return [[k, float(v)] for k, v in d.items()]
        yield Case("multipitch.evaluate", [rt, rf, et, ef, w], call, tag=kind,
                   info=info_of(kind, rt, rf, et, ef, w), nontrivial=any(rf) and any(ef))


def suite_num_true_positives(rng, tier, shard, nshards):
    """MIDI-domain, exact: pairs exactly at the window"""
    n = 300 if tier == "quick" else 8000
    for _ in range(n):
        w = rng.choice([Fr(0), Fr(1, 8), Fr(1, 4), Fr(1, 2), Fr(1, 2), Fr(1), Fr(2), Fr(6), Fr(7)])
        nfr = rng.choice([0, 1, 2, 3, 5])
        rf = [ref_frame(rng, 8, kmax=5) for _ in range(nfr)]
        ef = [est_frame(rng, f, 8, w, kmax=5, exact_edge=True) for f in rf]
        u = rng.random()
        if u < 0.1 and ef:
            ef = ef[:-1]                       # zip stops early, a zero stays behind
        elif u < 0.2:
            ef = ef + [ref_frame(rng, 8)]      # surplus estimate frame ignored
        chroma = rng.random() < 0.5
        if chroma:
            # the code expects values already wrapped; both wrapped and unwrapped inputs are legal floats
            if rng.random() < 0.7:
                rf = [[m % 12 for m in f] for f in rf]
                ef = [[m % 12 for m in f] for f in ef]
        use_default = (w == Fr(1, 2) and rng.random() < 0.5)

        def call(rf=rf, ef=ef, w=w, chroma=chroma, use_default=use_default):
            kw = {} if use_default else {"window": float(w)}
            return [int(x) for x in mp.compute_num_true_positives(frames_midi(rf), frames_midi(ef), chroma=chroma, **kw)]
        yield Case("multipitch.compute_num_true_positives", [rf, ef, None if use_default else w, chroma], call,
                   tag="chroma=%s w=%s" % (chroma, w),
                   info={"ref_midi": S(rf), "est_midi": S(ef), "window": str(w), "chroma": chroma},
                   nontrivial=any(rf) and any(ef))


def suite_resample(rng, tier, shard, nshards):
    n = 300 if tier == "quick" else 8000
    for k in range(n):
        kind, rt, et = time_bases(rng, TB_KINDS[k % len(TB_KINDS)] if k < 4 * len(TB_KINDS) else None)
        if rng.random() < 0.3:
            # arbitrary targets around the estimate range, on and between the midpoints
            lo = min(et) if et else Fr(0)
            rt = sorted(lo + Fr(rng.randint(-8, 80), 2 * LAT) for _ in range(rng.randint(1, 8)))
            kind += "+free"
        fs = [[Fr(100 + 10 * i + j) for j in range(rng.choice([0, 1, 1, 2, 3]))] for i in range(len(et))]
        u = rng.random()
        if u < 0.05 and len(fs) >= 1:
            fs = fs[:-1]
            kind += "+short"
        elif u < 0.1:
            fs = fs + [[Fr(999)]]
            kind += "+long"

        def call(et=et, fs=fs, rt=rt):
            out = mp.resample_multipitch(tarr(et), [np.array([float(x) for x in f]) for f in fs], tarr(rt))
            return [[float(x) for x in f] for f in out]
        yield Case("multipitch.resample_multipitch", [et, fs, rt], call, tag=kind,
                   info={"times": S(et), "freqs": S(fs), "target": S(rt)}, nontrivial=bool(et and rt))


def count_arrays(rng):
    n = rng.choice([0, 1, 2, 3, 5, 8])
    nr = [rng.choice([0, 0, 1, 2, 3, 4]) for _ in range(n)]
    ne = [rng.choice([0, 0, 1, 2, 3, 4]) for _ in range(n)]
    if rng.random() < 0.12:
        nr = [0] * n
    if rng.random() < 0.12:
        ne = [0] * n
    if rng.random() < 0.85:
        tp = [rng.randint(0, min(a, b)) for a, b in zip(nr, ne)]
        kind = "consistent"
    else:
        tp = [rng.randint(0, 5) for _ in range(n)]      # direct calls accept anything
        kind = "arbitrary"
    if rng.random() < 0.06 and n >= 3:
        cut = rng.choice(["tp", "nr", "ne"])
        if cut == "tp":
            tp = tp[:-1]
        elif cut == "nr":
            nr = nr[:-1]
        else:
            ne = ne[:-1]
        kind += "+unequal"
    return kind, tp, nr, ne


def suite_accuracy(rng, tier, shard, nshards):
    n = 300 if tier == "quick" else 8000
    for _ in range(n):
        kind, tp, nr, ne = count_arrays(rng)
        yield Case("multipitch.compute_accuracy", [tp, nr, ne],
                   lambda tp=tp, nr=nr, ne=ne: [float(x) for x in mp.compute_accuracy(
                       np.array(tp, dtype=float), np.array(nr, dtype=int), np.array(ne, dtype=int))],
                   tag=kind, info={"tp": tp, "n_ref": nr, "n_est": ne}, nontrivial=bool(sum(tp)))


def suite_err_score(rng, tier, shard, nshards):
    n = 300 if tier == "quick" else 8000
    for _ in range(n):
        kind, tp, nr, ne = count_arrays(rng)
        yield Case("multipitch.compute_err_score", [tp, nr, ne],
                   lambda tp=tp, nr=nr, ne=ne: [float(x) for x in mp.compute_err_score(
                       np.array(tp, dtype=float), np.array(nr, dtype=int), np.array(ne, dtype=int))],
                   tag=kind, info={"tp": tp, "n_ref": nr, "n_est": ne}, nontrivial=bool(sum(nr)))


def suite_small_functions(rng, tier, shard, nshards):
    n = 100 if tier == "quick" else 2000
    for _ in range(n):
        fs = [[Fr(rng.randint(-24 * 8, 130 * 8), 8) for _ in range(rng.choice([0, 1, 2, 4]))]
              for _ in range(rng.choice([0, 1, 3]))]
        yield Case("multipitch.midi_to_chroma", [fs],
                   lambda fs=fs: [[float(x) for x in f] for f in mp.midi_to_chroma(frames_midi(fs))],
                   tag="midi_to_chroma", info={"midi": S(fs)}, nontrivial=any(fs))
        yield Case("multipitch.compute_num_freqs", [fs],
                   lambda fs=fs: [int(x) for x in mp.compute_num_freqs(frames_midi(fs))],
                   tag="compute_num_freqs", info={"midi": S(fs)}, nontrivial=any(fs))
        hzs = [[Fr(rng.randint(20 * 16, 5000 * 16), 16) for _ in range(rng.choice([0, 1, 3]))]
               for _ in range(rng.choice([1, 2]))]
        yield Case("multipitch.frequencies_to_midi", [hzs],
                   lambda hzs=hzs: [[float(x) for x in f] for f in mp.frequencies_to_midi(frames_midi(hzs))],
                   tag="frequencies_to_midi", info={"hz": S(hzs)}, nontrivial=any(hzs))


def suite_validate(rng, tier, shard, nshards):
    n = 120 if tier == "quick" else 2500
    for _ in range(n):
        kind, rt, rf, et, ef, w = instance(rng)
        fault = rng.choice(["none", "none", "unsorted_ref", "unsorted_est", "late", "short_ref", "long_est",
                            "low", "high"])
        if fault == "unsorted_ref" and len(rt) >= 2 and rt[0] != rt[-1]:
            rt = rt[::-1]
        elif fault == "unsorted_est" and len(et) >= 2 and et[0] != et[-1]:
            et = et[::-1]
        elif fault == "late" and et:
            et = et[:-1] + [Fr(30001)]
        elif fault == "short_ref" and rf:
            rf = rf[:-1]
        elif fault == "long_est":
            ef = ef + [[]]
        elif fault == "low" and rf:
            rf = [f + [Fr(15)] for f in rf]
        elif fault == "high" and ef:
            ef = ef[:-1] + [ef[-1] + [Fr(112)]]
        else:
            fault = "none"

        def call(a=(rt, rf, et, ef)):
            rt, rf, et, ef = a
            return mp.validate(tarr(rt), frames_hz(rf), tarr(et), frames_hz(ef))
        yield Case("multipitch.validate", [rt, rf, et, ef], call, tag=fault,
                   info=info_of(kind, rt, rf, et, ef, None), nontrivial=(fault != "none"))
        if fault != "none":
            yield Case("multipitch.metrics", [rt, rf, et, ef, None],
                       lambda a=(rt, rf, et, ef, None): list(call_metrics(*a)), tag="fault " + fault,
                       info=info_of(kind, rt, rf, et, ef, None), nontrivial=True)


SUITES = {"mp_metrics": suite_metrics, "mp_evaluate": suite_evaluate,
          "mp_num_true_positives": suite_num_true_positives, "mp_resample": suite_resample,
          "mp_accuracy": suite_accuracy, "mp_err_score": suite_err_score,
          "mp_small": suite_small_functions, "mp_validate": suite_validate}


def classify(suite, d):
    """map a disagreeing case to an input of the C18 oracle (the property is then tried on that very input);
    only inputs on which the property is claimed (valid, consistent) are forwarded"""
    i = d.get("info") or {}
    if suite in ("mp_metrics", "mp_evaluate") and "ref_time" in i:
        return "multipitch.metrics", {k: i[k] for k in ("ref_time", "ref_midi", "est_time", "est_midi", "window")}
    if suite in ("mp_accuracy", "mp_err_score"):
        tp, nr, ne = i["tp"], i["n_ref"], i["n_est"]
        if len(tp) == len(nr) == len(ne) and all(0 <= t <= min(a, b) for t, a, b in zip(tp, nr, ne)):
            return "multipitch.compute_scores", {"tp": tp, "n_ref": nr, "n_est": ne}
        return None
    if suite == "mp_num_true_positives":
        return "multipitch.compute_num_true_positives", dict(i)
    if suite == "mp_resample":
        if len(i["times"]) != len(i["freqs"]):
            return None
        return "multipitch.resample_multipitch", dict(i)
    return None


# ------------------------------------------------------------------------------------------------------------
# metamorphic / range oracles on the REAL code (used by C01, C02, C06, C07, C08, C09 for their multipitch part)
EPS = 1e-9
NAMES14 = ["precision", "recall", "accuracy", "e_sub", "e_miss", "e_fa", "e_tot"]
NAMES14 = NAMES14 + ["chroma " + n for n in NAMES14]


def _parse(inp):
    w = inp.get("window")
    return (unS(inp["ref_time"]), unS(inp["ref_midi"]), unS(inp["est_time"]), unS(inp["est_midi"]),
            None if w is None else Fr(w))


def _scores(rt, rf, et, ef, w):
    return [float(x) for x in call_metrics(rt, rf, et, ef, w)]


def _same(a, b, what):
    for k in range(14):
        if abs(a[k] - b[k]) > EPS:
            return "%s: %s %r -> %r" % (what, NAMES14[k], a[k], b[k])
    return None


def check_range(inp):
    s = _scores(*_parse(inp))
    for k, v in enumerate(s):
        if not np.isfinite(v):
            return "%s = %r is not finite" % (NAMES14[k], v)
        if v < -1e-12:
            return "%s = %r < 0" % (NAMES14[k], v)
        if k % 7 in (0, 1, 2, 3, 4) and v > 1 + EPS:
            return "%s = %r > 1" % (NAMES14[k], v)
    return None


def check_self(inp):
    rt, rf, _, _, w = _parse(inp)
    s = _scores(rt, rf, rt, rf, w)
    want = ([1.0, 1.0, 1.0, 0.0, 0.0, 0.0, 0.0] if any(rf) else [0.0] * 7) * 2
    return _same(want, s, "annotation scored against itself (expected -> got)")


def check_swap(inp):
    rt, rf, _, ef, w = _parse(inp)          # common time base: the estimate frames are re-used on rt
    ef = (ef + [[]] * len(rt))[:len(rt)]
    et = rt
    if inp.get("jitter"):
        # the same frame grid written twice (e.g. k*hop vs. parsed decimal text): some stamps differ in the last bit
        et = []
        for t, j in zip(rt, (list(inp["jitter"]) + [0] * len(rt))[:len(rt)]):
            x = float(t)
            if j:
                x = float(np.nextafter(x, np.inf if (j > 0 or x == 0.0) else -np.inf))
            et.append(Fr(x))
    a = _scores(rt, rf, et, ef, w)
    b = _scores(et, ef, rt, rf, w)
    for off in (0, 7):
        if abs(b[off] - a[off + 1]) > EPS or abs(b[off + 1] - a[off]) > EPS:
            return "swap: (P, R) = (%r, %r) but swapped (P, R) = (%r, %r)" % (a[off], a[off + 1], b[off], b[off + 1])
        if abs(b[off + 2] - a[off + 2]) > EPS:
            return "swap: accuracy %r -> %r" % (a[off + 2], b[off + 2])
    return None


def check_widen(inp):
    rt, rf, et, ef, _ = _parse(inp)
    ws = [Fr(x) for x in inp["windows"]]
    prev = None
    for w in sorted(ws):
        s = _scores(rt, rf, et, ef, w)
        for k in (0, 1, 2):
            if s[7 + k] < s[k] - EPS:
                return "window %s: chroma %s %r < raw %r" % (w, NAMES14[k], s[7 + k], s[k])
        if prev is not None:
            for k in (0, 1, 2, 7, 8, 9):
                if s[k] < prev[1][k] - EPS:
                    return "widening the window %s -> %s lowers %s: %r -> %r" % (prev[0], w, NAMES14[k], prev[1][k], s[k])
        prev = (w, s)
    return None


def check_shift_perm(inp):
    rt, rf, et, ef, w = _parse(inp)
    a = _scores(rt, rf, et, ef, w)
    c = Fr(inp["shift"])
    b = _scores([t + c for t in rt], rf, [t + c for t in et], ef, w)
    what = _same(a, b, "adding %s s to all times" % c)
    if what:
        return what
    rf2 = [[f[i] for i in p] for f, p in zip(rf, inp["perm_ref"])]
    ef2 = [[f[i] for i in p] for f, p in zip(ef, inp["perm_est"])]
    return _same(a, _scores(rt, rf2, et, ef2, w), "permuting the pitches inside the frames")


def check_transpose(inp):
    rt, rf, et, ef, w = _parse(inp)
    a = _scores(rt, rf, et, ef, w)
    c = Fr(inp["transpose"])
    b = _scores(rt, [[m + c for m in f] for f in rf], et, [[m + c for m in f] for f in ef], w)
    what = _same(a, b, "transposing reference and estimate by %s semitones" % c)
    if what:
        return what
    ef2 = [[m + 12 * k for m, k in zip(f, ks)] for f, ks in zip(ef, inp["octaves"])]
    b = _scores(rt, rf, et, ef2, w)
    for k in range(7, 14):
        if abs(a[k] - b[k]) > EPS:
            return "shifting estimated pitches by whole octaves: %s %r -> %r" % (NAMES14[k], a[k], b[k])
    return None


def _json(kind, rt, rf, et, ef, w):
    return {"ref_time": S(rt), "ref_midi": S(rf), "est_time": S(et), "est_midi": S(ef),
            "window": None if w is None else str(w)}


def gen_plain(rng, tier, shard, nshards, boost):
    for _ in range((120 if tier == "quick" else 2000) * boost):
        yield _json(*instance(rng))


def gen_widen(rng, tier, shard, nshards, boost):
    for _ in range((80 if tier == "quick" else 1500) * boost):
        den = rng.choice([8, 3])
        if den == 8:
            ws = sorted({rng.choice([Fr(1, 4), Fr(1, 2), Fr(1), Fr(2)]) + rng.choice([-1, 1]) * Fr(1, 16) for _ in range(3)})
        else:
            ws = sorted(set(rng.sample([Fr(1, 4), Fr(1, 2), Fr(3, 4), Fr(5, 4), Fr(7, 4)], 3)))
        d = _json(*instance(rng, den_w=(den, ws[0])))
        d["windows"] = [str(x) for x in ws]
        yield d


def gen_shift_perm(rng, tier, shard, nshards, boost):
    for _ in range((80 if tier == "quick" else 1500) * boost):
        kind, rt, rf, et, ef, w = instance(rng)
        d = _json(kind, rt, rf, et, ef, w)
        d["shift"] = str(Fr(rng.randint(1, 40 * LAT), LAT))
        d["perm_ref"] = [rng.sample(range(len(f)), len(f)) for f in rf]
        d["perm_est"] = [rng.sample(range(len(f)), len(f)) for f in ef]
        yield d


def gen_transpose(rng, tier, shard, nshards, boost):
    for _ in range((80 if tier == "quick" else 1500) * boost):
        den, w = pitch_setup(rng)
        kind, rt, rf, et, ef, w = instance(rng, den_w=(den, w))
        allp = [m for f in rf + ef for m in f]
        lo, hi = (min(allp), max(allp)) if allp else (Fr(60), Fr(60))
        cmin, cmax = Fr(17) - lo, Fr(110) - hi
        if rng.random() < 0.4:
            ks = [k for k in range(-8, 9) if cmin <= 12 * k <= cmax]
            c = Fr(12 * rng.choice(ks))
        else:
            c = Fr(rng.randint(int(cmin * den), int(cmax * den)), den)
        octs = []
        for f in ef:
            row = []
            for m in f:
                ks = [k for k in range(-6, 7) if Fr(17) <= m + 12 * k <= Fr(110)]
                row.append(rng.choice(ks))
            octs.append(row)
        d = _json(kind, rt, rf, et, ef, w)
        d["transpose"] = str(c)
        d["octaves"] = octs
        yield d


def guarded(fn):
    """oracle inputs are valid by construction: an exception of the real code is reported as a failure of the
    property on that input instead of crashing the harness"""
    def run(inp):
        try:
            return fn(inp)
        except Exception as e:  # noqa: BLE001
            return "raised %s: %s" % (type(e).__name__, str(e)[:200])
    return run


META_CHECKERS = {"multipitch.metrics/range": guarded(check_range), "multipitch.metrics/self": guarded(check_self),
                 "multipitch.metrics/swap": guarded(check_swap), "multipitch.metrics/widen": guarded(check_widen),
                 "multipitch.metrics/shift+permute": guarded(check_shift_perm),
                 "multipitch.metrics/transpose+octave": guarded(check_transpose)}
def gen_swap(rng, tier, shard, nshards, boost):
    for d in gen_plain(rng, tier, shard, nshards, boost):
        if rng.random() < 0.3:
            n = len(d["ref_time"])
            d["jitter"] = [rng.choice([0, 0, 1, -1]) for _ in range(n)]
            if n and rng.random() < 0.5:
                d["jitter"][-1] = -1        # the last stamp of one side one ulp before the other's
        yield d


META_ORACLES = {"multipitch.metrics/range": gen_plain, "multipitch.metrics/self": gen_plain,
                "multipitch.metrics/swap": gen_swap, "multipitch.metrics/widen": gen_widen,
                "multipitch.metrics/shift+permute": gen_shift_perm,
                "multipitch.metrics/transpose+octave": gen_transpose}
