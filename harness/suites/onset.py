"""mir_eval.onset — correspondence suites (model vs code) and property oracles on the real code.

Streams: E = 1/32 s lattice with dyadic windows (pairs exactly on / just outside the window edge, duplicates,
empty and singleton sides, times at MAX_TIME), D = millisecond decimals with windows k ms + 0.5 ms (no
comparison within 1e-4 of equality), X = single faults (unsorted, later than MAX_TIME).
"""
from fractions import Fraction as Fr

import mir_eval

from core import Case
import gen
from suites import misc_util as mu

MAXT = Fr(30000)


# ---------------------------------------------------------------------------------------------
# the real code, called on float(...) of the exact arguments
def impl_f_measure(ref, est, w):
    return mir_eval.onset.f_measure(gen.arr(ref), gen.arr(est), window=float(w))


def impl_evaluate(ref, est, w):
    kw = {} if w is None else {"window": float(w)}
    return mir_eval.onset.evaluate(gen.arr(ref), gen.arr(est), **kw)


def impl_validate(ref, est):
    return mir_eval.onset.validate(gen.arr(ref), gen.arr(est))


def impl_rnd64(x):
    return Fr(float(x))                 # Fraction -> float is correctly rounded; Fraction(float) is exact


def impl_window_test64(w, r, e):
    """the hit decision of the real code for one reference / one estimated event given as exact doubles"""
    hit_ref, hit_est = mir_eval.util._fast_hit_windows(gen.arr([r]), gen.arr([e]), float(w))
    return len(hit_ref) == 1


IMPL = {"onset.rnd64": impl_rnd64, "onset.window_test64": impl_window_test64, "onset.f_measure": impl_f_measure, "onset.evaluate": impl_evaluate, "onset.validate": impl_validate}


def case(op, args, tag, nontrivial=True):
    return Case(op, args, (lambda op=op, args=args: IMPL[op](*args)), tag=tag,
                info={"op": op, "args": mu.jargs(args)}, nontrivial=nontrivial)


# ---------------------------------------------------------------------------------------------
def pair_E(rng):
    w = gen.window(rng)
    ref = gen.events(rng)
    u = rng.random()
    if u < 0.6:
        est = gen.near(rng, ref, w)
    elif u < 0.7:
        est = list(ref)
    else:
        est = gen.events(rng)
    if rng.random() < 0.05:
        w = rng.choice([Fr(-1, 32), Fr(1, 20), Fr(1, 10)])
    if rng.random() < 0.1:
        c = Fr(rng.randint(0, 64 * 32), 32)          # far from the origin
        ref, est = [t + c for t in ref], [t + c for t in est]
    return ref, est, w


def pair_D(rng, nmax):
    n = rng.randint(0, nmax)
    ref = sorted(Fr(rng.randint(0, 60000), 1000) for _ in range(n))
    k = rng.choice([0, 10, 25, 50, 100, 500])
    w = Fr(k, 1000) + Fr(1, 2000)
    est = []
    for r in ref:
        if rng.random() < 0.8:
            est.append(max(Fr(0), r + Fr(rng.randint(-2 * k - 3, 2 * k + 3), 1000)))
    for _ in range(rng.randint(0, 3)):
        est.append(Fr(rng.randint(0, 60000), 1000))
    return ref, sorted(est), w


def fault(rng, ref, est):
    kind = rng.choice(["unsorted", "huge", "edge"])
    side = rng.randint(0, 1)
    xs = list([ref, est][side])
    if kind == "unsorted":
        if len(xs) < 2:
            xs = [Fr(3), Fr(1)]
        else:
            i = rng.randrange(len(xs) - 1)
            xs[i], xs[i + 1] = xs[i + 1] + Fr(1, 32), xs[i]
    elif kind == "huge":
        xs = xs + [MAXT + Fr(rng.choice([1, 32, 3200]), 32)]
    else:
        xs = xs + [MAXT]                              # exactly MAX_TIME is allowed
    return (xs, est, kind) if side == 0 else (ref, xs, kind)


def suite_f_measure(rng, tier, shard, nshards):
    n = 500 if tier == "quick" else 1500
    for _ in range(n):
        ref, est, w = pair_E(rng)
        yield case("onset.f_measure", [ref, est, w], "E w=%s" % w, nontrivial=bool(ref and est))
    for _ in range(n // 5):
        ref, est, w = pair_D(rng, 12 if tier == "quick" else 40)
        yield case("onset.f_measure", [ref, est, w], "D", nontrivial=bool(ref and est))
    for _ in range(n // 10):
        ref, est, w = pair_E(rng)
        ref, est, kind = fault(rng, ref, est)
        yield case("onset.f_measure", [ref, est, w], "X " + kind)


def suite_evaluate(rng, tier, shard, nshards):
    n = 200 if tier == "quick" else 1500
    for _ in range(n):
        ref, est, w = pair_E(rng)
        if rng.random() < 0.3:
            w = None
        if rng.random() < 0.1:
            ref, est, _ = fault(rng, ref, est)
        yield case("onset.evaluate", [ref, est, w], "E window=%s" % ("default" if w is None else "given"),
                   nontrivial=bool(ref and est))
    for _ in range(n // 4):
        ref, est, w = pair_E(rng)
        if rng.random() < 0.5:
            ref, est, _ = fault(rng, ref, est)
        yield case("onset.validate", [ref, est], "validate")


def suite_exhaustive(rng, tier, shard, nshards):
    """all pairs of event lists of length <= 2 (quick) / <= 3 (thorough) over an 8-point lattice, w in {0,1/4,1/2}"""
    import itertools
    pts = [Fr(k, 4) for k in range(8)]
    lim = 2 if tier == "quick" else 3
    lists = [list(c) for n in range(lim + 1) for c in itertools.combinations_with_replacement(pts, n)]
    k = 0
    for ref in lists:
        for est in lists:
            for w in (Fr(0), Fr(1, 4), Fr(1, 2)):
                k += 1
                if k % nshards != shard:
                    continue
                if tier == "quick" and rng.random() > 0.5:
                    continue
                yield case("onset.f_measure", [ref, est, w], "exh", nontrivial=bool(ref and est))


def suite_float_gap(rng, tier, shard, nshards):
    """ties the binary64 rounding model (`rnd64`, `windowTest64`) used by the C06 float-gap theorem to real
    doubles: decimal values, their nearest doubles, and the code's hit decision at decimal ties"""
    n = 150 if tier == "quick" else 1500
    for _ in range(n):
        u = rng.random()
        if u < 0.4:
            x = Fr(rng.randint(-10 ** 6, 10 ** 6), 10 ** rng.randint(0, 6))
        elif u < 0.7:
            x = Fr(rng.randint(1, 10 ** 9), rng.randint(1, 10 ** 9))
        else:
            x = Fr(rng.randint(1, 2 ** 60), 2 ** rng.randint(0, 80)) * rng.choice([1, -1])
        yield case("onset.rnd64", [x], "rnd64", nontrivial=Fr(float(x)) != x)
    for _ in range(n):
        a, k = rng.randint(0, 300), rng.randint(1, 100)
        d = rng.choice([10, 100])
        e, w, r = Fr(float(Fr(a, d))), Fr(float(Fr(k, d))), Fr(float(Fr(a + k, d)))
        if rng.random() < 0.5:
            r, e = e, r
        yield case("onset.window_test64", [w, r, e], "decimal tie")


SUITES = {"onset.float_gap": suite_float_gap, "onset.f_measure": suite_f_measure, "onset.evaluate": suite_evaluate, "onset.exhaustive": suite_exhaustive}


# ---------------------------------------------------------------------------------------------
# property oracles on the real code (one JSON input at a time)
def _fpr(ref, est, w):
    return [float(x) for x in impl_f_measure(ref, est, w)]


def check_f_measure(inp):
    prop = inp["prop"]
    ref, est, w = mu.unjargs(inp["ref"]), mu.unjargs(inp["est"]), mu.unjargs(inp["w"])
    if prop == "range":          # C01
        s = _fpr(ref, est, w)
        if not all(mu.in01(x) for x in s):
            return "onset.f_measure(%s,%s,%s) = %r outside [0,1]" % (inp["ref"], inp["est"], inp["w"], s)
    elif prop == "self":         # C02
        s = _fpr(ref, list(ref), w)
        if ref and w >= 0 and s != [1.0, 1.0, 1.0]:
            return "onset.f_measure(x,x,%s) = %r for x=%s, expected (1,1,1)" % (inp["w"], s, inp["ref"])
    elif prop == "definition":   # C04: maximum matching of the window graph, by an independent matcher
        s = _fpr(ref, est, w)
        if ref and est:
            adj = [[j for j, e in enumerate(est) if abs(r - e) <= w] for r in ref]
            k = mu.max_matching(len(ref), adj)
            p, r = Fr(k, len(est)), Fr(k, len(ref))
            want = [float(mu.fmeasure(p, r)), float(p), float(r)]
        else:
            want = [0.0, 0.0, 0.0]
        if not all(mu.close(a, b) for a, b in zip(s, want)):
            return "onset.f_measure(%s,%s,%s) = %r, definition gives %r" % (inp["ref"], inp["est"], inp["w"], s, want)
    elif prop == "swap":         # C06
        a, b = _fpr(ref, est, w), _fpr(est, ref, w)
        if not (mu.close(b[0], a[0]) and mu.close(b[1], a[2]) and mu.close(b[2], a[1])):
            return "onset swap: f(ref,est)=%r f(est,ref)=%r (ref=%s est=%s w=%s)" % (a, b, inp["ref"], inp["est"], inp["w"])
    elif prop == "widen":        # C07
        w2 = mu.unjargs(inp["w2"])
        a, b = _fpr(ref, est, w), _fpr(ref, est, w2)
        if not all(x <= y + 1e-12 for x, y in zip(a, b)):
            return "onset widen: window %s -> %r, window %s -> %r (ref=%s est=%s)" % (inp["w"], a, inp["w2"], b, inp["ref"], inp["est"])
    elif prop == "shift":        # C08
        c = mu.unjargs(inp["c"])
        a, b = _fpr(ref, est, w), _fpr([t + c for t in ref], [t + c for t in est], w)
        if not all(mu.close(x, y, 1e-12) for x, y in zip(a, b)):
            return "onset shift by %s: %r vs %r (ref=%s est=%s w=%s)" % (inp["c"], a, b, inp["ref"], inp["est"], inp["w"])
    else:
        raise ValueError(prop)
    return None


def gen_f_measure(rng, tier, shard, nshards, boost):
    n = (150 if tier == "quick" else 1000) * boost
    for _ in range(n):
        ref, est, w = pair_E(rng)
        w = abs(w)
        base = {"ref": mu.jargs(ref), "est": mu.jargs(est), "w": mu.jargs(w)}
        for prop in ("range", "self", "definition", "swap"):
            yield dict(base, prop=prop)
        w2 = w + rng.choice([Fr(0), Fr(1, 32), Fr(1, 8), Fr(1)])
        yield dict(base, prop="widen", w2=mu.jargs(w2))
        yield dict(base, prop="shift", c=mu.jargs(Fr(rng.randint(0, 32 * 32), 32)))
    # decimal ties: |r - e| equals the window in decimals but not in binary64 (region window_tie_within_rounding)
    for _ in range(10 * boost):
        a, k = rng.randint(0, 60), rng.randint(1, 40)
        yield {"prop": "swap", "ref": [(a + k) / 10], "est": [a / 10], "w": k / 10}


CHECKERS = {"onset.f_measure": check_f_measure}
ORACLES = {"onset.f_measure": gen_f_measure}
