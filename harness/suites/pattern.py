"""Correspondence suites for mir_eval.pattern (model lean/MirModel/Pattern.lean vs the real code).

Stream E only: onsets are multiples of 1/32 s, midi numbers are integers, tolerances / thresholds are small
rationals whose double is the correctly rounded quotient, so every comparison in the code (`np.max(s) >= thres`,
`max|diff| < tol`) is decided identically by binary64 and by the rational model; the means of maxima differ by
rounding only (compared at 1e-9).
"""
from fractions import Fraction as Fr

import mir_eval
from mir_eval import pattern as mp

from core import Case

LAT = 32
CARD = "cardinality_score"


# ---------------------------------------------------------------------------------------------
# generators (exact values: onset Fraction, midi int)

def point(rng, tmax=4):
    return (Fr(rng.randint(0, tmax * LAT), LAT), rng.randint(58, 66))


def occurrence(rng, nmax=6, empty=0.0, dup=0.0):
    if rng.random() < empty:
        return []
    n = rng.choice([1, 1, 2, 3, 4, 5, nmax])
    pts = []
    while len(pts) < n:
        p = point(rng)
        if p not in pts:
            pts.append(p)
    if pts and rng.random() < dup:
        pts.insert(rng.randint(0, len(pts)), rng.choice(pts))
    return pts


def shifted(occ, dt, dm):
    return [(t + dt, m + dm) for (t, m) in occ]


def pattern(rng, empty=0.0, dup=0.0):
    """a prototype and 0-2 further occurrences that are noisy translations of it"""
    proto = occurrence(rng, empty=empty, dup=dup)
    out = [proto]
    for _ in range(rng.choice([0, 1, 1, 2])):
        occ = shifted(proto, Fr(rng.randint(0, 2 * LAT), LAT), rng.choice([0, 0, 12, -5]))
        occ = perturb_occ(rng, occ)
        if rng.random() < empty:
            occ = []
        out.append(occ)
    return out


def perturb_occ(rng, occ):
    occ = list(occ)
    u = rng.random()
    if u < 0.4:
        return occ
    if u < 0.6 and len(occ) > 1:
        del occ[rng.randrange(len(occ))]
    elif u < 0.8:
        p = point(rng)
        if p not in occ:
            occ.insert(rng.randint(0, len(occ)), p)
    elif occ:
        k = rng.randrange(len(occ))
        p = (occ[k][0] + Fr(rng.choice([-1, 1]), LAT), occ[k][1])
        if p not in occ and p[0] >= 0:
            occ[k] = p
    return occ


def patterns(rng, nmax=4, empty=0.0, dup=0.0, allow_zero=True):
    lo = 0 if allow_zero else 1
    n = rng.choice([lo, 1, 1, 2, 2, 3, nmax])
    return [pattern(rng, empty=empty, dup=dup) for _ in range(n)]


def estimate_of(rng, ref, empty=0.0):
    """an estimate correlated with `ref`: copies, translations (standard_FPR), partial / noisy copies, extras"""
    est = []
    for pat in ref:
        u = rng.random()
        if u < 0.15:
            continue
        if u < 0.35:
            est.append([list(o) for o in pat])
        elif u < 0.55:
            dt, dm = Fr(rng.randint(0, LAT), LAT), rng.choice([0, 3, -2])
            est.append([shifted(o, dt, dm) for o in pat])
        else:
            est.append([perturb_occ(rng, perturb_occ(rng, o)) for o in pat if rng.random() < 0.8] or
                       [perturb_occ(rng, pat[0])])
        if rng.random() < 0.15:        # a second estimate equivalent to the same reference
            est.append([shifted(o, Fr(1, 2), 0) for o in pat])
    for _ in range(rng.choice([0, 0, 1, 2])):
        est.append(pattern(rng, empty=empty))
    rng.shuffle(est)
    if rng.random() < 0.1:
        est = []
    return est


def pair(rng, empty=0.0, dup=0.0):
    u = rng.random()
    ref = patterns(rng, empty=empty, dup=dup)
    if u < 0.12:
        return ref, [[list(o) for o in p] for p in ref]
    if u < 0.2:
        # several translation-equivalent references against one estimate (precision > 1 in standard_FPR)
        base = pattern(rng)
        ref = [[shifted(o, Fr(k, 4), k) for o in base] for k in range(rng.choice([2, 3]))]
        return ref, [[list(o) for o in base]]
    if u < 0.3:
        return ref, patterns(rng, empty=empty, dup=dup)
    return ref, estimate_of(rng, ref, empty=empty)


def py(pats):
    """exact values -> what the implementation receives"""
    return [[[(float(t), int(m)) for (t, m) in occ] for occ in pat] for pat in pats]


def ex(pats):
    """exact values -> protocol lists"""
    return [[[[t, Fr(m)] for (t, m) in occ] for occ in pat] for pat in pats]


def n_onsets(pats):
    return sum(len(o) for p in pats for o in p)


def shape_tag(ref, est):
    def k(p):
        if not p:
            return "none"
        if n_onsets(p) == 0:
            return "allempty"
        if any(len(o) == 0 for pat in p for o in pat):
            return "emptyocc"
        return "n%d" % min(len(p), 3)
    return "ref=%s est=%s" % (k(ref), k(est))


def info(ref, est, **kw):
    d = {"ref": ex(ref), "est": ex(est)}
    d.update(kw)
    return d


def sizes(tier, q, t):
    return q if tier == "quick" else t


# ---------------------------------------------------------------------------------------------
# suites

def suite_helpers(rng, tier, shard, nshards):
    for _ in range(sizes(tier, 120, 1000)):
        ref, est = pair(rng, empty=0.1, dup=0.1)
        yield Case("pattern._n_onset_midi", [ex(ref)], lambda ref=ref: mp._n_onset_midi(py(ref)),
                   tag="n_onset", info=info(ref, est), nontrivial=n_onsets(ref) > 0)
        yield Case("pattern.validate", [ex(ref), ex(est)], lambda ref=ref, est=est: mp.validate(py(ref), py(est)),
                   tag="validate", info=info(ref, est))
        P = ref[0] if ref else [occurrence(rng, empty=0.2)]
        Q = est[0] if est else [occurrence(rng, empty=0.2)]
        if rng.random() < 0.1:
            P = []
        if rng.random() < 0.1:
            Q = []
        metric = CARD if rng.random() < 0.9 else "other"
        yield Case("pattern._compute_score_matrix", [ex([P])[0], ex([Q])[0], metric],
                   lambda P=P, Q=Q, metric=metric: mp._compute_score_matrix(py([P])[0], py([Q])[0], metric),
                   tag="score_matrix %s" % ("card" if metric == CARD else "other"),
                   info={"P": ex([P])[0], "Q": ex([Q])[0], "metric": metric}, nontrivial=bool(P and Q))
        a = P[0] if P else []
        b = Q[0] if Q else []
        if rng.random() < 0.3:
            b = perturb_occ(rng, a)
        if rng.random() < 0.2 and a:
            a = a + [rng.choice(a)]           # repeated point: the set semantics shows
        yield Case("pattern._occurrence_intersection", [ex([[a]])[0][0], ex([[b]])[0][0]],
                   lambda a=a, b=b: mp._occurrence_intersection(py([[a]])[0][0], py([[b]])[0][0]),
                   tag="intersection", info={"P": ex([[a]])[0][0], "Q": ex([[b]])[0][0]},
                   nontrivial=bool(set(a) & set(b)))
    # malformed points: validate's ValueError
    for _ in range(sizes(tier, 10, 50)):
        ref, est = pair(rng)
        if not ref:
            continue
        bad = ex(ref)
        bad[0][0] = list(bad[0][0]) + [[Fr(1), Fr(60), Fr(3)]]
        badpy = py(ref)
        badpy[0][0] = list(badpy[0][0]) + [(1.0, 60, 3)]
        yield Case("pattern.validate", [bad, ex(est)], lambda b=badpy, est=est: mp.validate(b, py(est)),
                   tag="validate 3-tuple", info={"ref": bad, "est": ex(est)})
        yield Case("pattern.establishment_FPR", [ex(est), bad, None],
                   lambda b=badpy, est=est: mp.establishment_FPR(py(est), b),
                   tag="establishment 3-tuple", info={"ref": ex(est), "est": bad})


TOLS = [None, None, Fr(1, 32), Fr(1, 1024), Fr(0), Fr(1), Fr(1, 16), Fr(3, 64)]


def standard_pair(rng):
    """prototype pairs whose first differences sit exactly on / next to the tolerance"""
    ref, est = pair(rng, empty=0.05)
    tol = rng.choice(TOLS)
    if ref and rng.random() < 0.4:
        base = ref[rng.randrange(len(ref))]
        proto = list(base[0])
        if len(proto) >= 2 and tol is not None:
            k = rng.randrange(1, len(proto))
            d = rng.choice([tol, tol - Fr(1, 1024), tol + Fr(1, 1024), Fr(0)])
            proto = [(t + (d if i >= k else 0), m) for i, (t, m) in enumerate(proto)]
            proto = [(abs(t), m) for (t, m) in proto]
        est = est + [[shifted(proto, Fr(rng.randint(0, LAT), LAT), rng.choice([0, 2]))]]
        rng.shuffle(est)
    return ref, est, tol


def suite_standard(rng, tier, shard, nshards):
    for _ in range(sizes(tier, 300, 2000)):
        ref, est, tol = standard_pair(rng)
        if tol is None:
            call = lambda ref=ref, est=est: mp.standard_FPR(py(ref), py(est))
        else:
            call = lambda ref=ref, est=est, tol=tol: mp.standard_FPR(py(ref), py(est), tol=float(tol))
        yield Case("pattern.standard_FPR", [ex(ref), ex(est), tol], call,
                   tag="%s tol=%s" % (shape_tag(ref, est), tol), info=info(ref, est, tol=tol),
                   nontrivial=n_onsets(ref) > 0 and n_onsets(est) > 0)


def suite_establishment(rng, tier, shard, nshards):
    for _ in range(sizes(tier, 300, 2000)):
        ref, est = pair(rng, empty=0.06, dup=0.05)
        u = rng.random()
        if u < 0.85:
            metric, call = None, (lambda ref=ref, est=est: mp.establishment_FPR(py(ref), py(est)))
        else:
            metric = CARD if u < 0.93 else "nope"
            call = (lambda ref=ref, est=est, metric=metric:
                    mp.establishment_FPR(py(ref), py(est), similarity_metric=metric))
        yield Case("pattern.establishment_FPR", [ex(ref), ex(est), metric], call,
                   tag="%s metric=%s" % (shape_tag(ref, est), metric), info=info(ref, est, metric=metric),
                   nontrivial=n_onsets(ref) > 0 and n_onsets(est) > 0)


THRES = [None, None, Fr(1, 2), Fr(3, 4), Fr(1), Fr(0), Fr(2, 3), Fr(3, 5), Fr(1, 3), Fr(4, 5), Fr(5, 4)]


def score_values(ref, est):
    """establishment scores of all pattern pairs (exact), to put `thres` exactly on one of them"""
    vals = set()
    for rp in ref:
        for ep in est:
            best = None
            for p in rp:
                for q in ep:
                    d = max(len(p), len(q))
                    if d:
                        v = Fr(len(set(p) & set(q)), d)
                        best = v if best is None or v > best else best
            if best is not None and best > 0:
                vals.add(best)
    return sorted(vals)


def suite_occurrence(rng, tier, shard, nshards):
    for _ in range(sizes(tier, 350, 2500)):
        ref, est = pair(rng, empty=0.05, dup=0.05)
        thres = rng.choice(THRES)
        vals = score_values(ref, est)
        if vals and rng.random() < 0.4:
            thres = rng.choice(vals)           # threshold coincidence: `>=` decides
        kw = {}
        if thres is not None:
            kw["thres"] = float(thres)
        metric = None
        if rng.random() < 0.08:
            metric = rng.choice([CARD, "nope"])
            kw["similarity_metric"] = metric
        yield Case("pattern.occurrence_FPR", [ex(ref), ex(est), thres, metric],
                   lambda ref=ref, est=est, kw=kw: mp.occurrence_FPR(py(ref), py(est), **kw),
                   tag="%s thres=%s" % (shape_tag(ref, est), "score" if thres in vals else thres),
                   info=info(ref, est, thres=thres, metric=metric),
                   nontrivial=n_onsets(ref) > 0 and n_onsets(est) > 0)


def suite_three_layer(rng, tier, shard, nshards):
    for _ in range(sizes(tier, 300, 2000)):
        ref, est = pair(rng, empty=0.05, dup=0.05)
        yield Case("pattern.three_layer_FPR", [ex(ref), ex(est)],
                   lambda ref=ref, est=est: mp.three_layer_FPR(py(ref), py(est)),
                   tag=shape_tag(ref, est), info=info(ref, est),
                   nontrivial=n_onsets(ref) > 0 and n_onsets(est) > 0)


NS = [None, None, 0, 1, 2, 3, 5, 7, -1, -2]


def suite_first_n(rng, tier, shard, nshards):
    for _ in range(sizes(tier, 250, 1500)):
        ref, est = pair(rng, empty=0.04)
        if rng.random() < 0.3:
            est = est + patterns(rng, nmax=6, allow_zero=False)
        n = rng.choice(NS)
        kw = {} if n is None else {"n": n}
        for op, fn in (("pattern.first_n_three_layer_P", mp.first_n_three_layer_P),
                       ("pattern.first_n_target_proportion_R", mp.first_n_target_proportion_R)):
            yield Case(op, [ex(ref), ex(est), n], lambda ref=ref, est=est, kw=kw, fn=fn: fn(py(ref), py(est), **kw),
                       tag="%s n=%s nest=%d" % (op.split(".")[1][:12], n, min(len(est), 6)),
                       info=info(ref, est, n=n), nontrivial=n_onsets(ref) > 0 and n_onsets(est) > 0)


def suite_evaluate(rng, tier, shard, nshards):
    for _ in range(sizes(tier, 150, 800)):
        ref, est = pair(rng, empty=0.03)
        kw, args = {}, [None, None, None, None]
        if rng.random() < 0.3:
            t = rng.choice([Fr(1, 32), Fr(1, 1024), Fr(1)])
            kw["tol"], args[0] = float(t), t
        if rng.random() < 0.3:
            t = rng.choice([Fr(1, 2), Fr(3, 4), Fr(2, 3), Fr(1)])
            kw["thres"], args[1] = float(t), t
        if rng.random() < 0.1:
            kw["similarity_metric"], args[2] = CARD, CARD
        if rng.random() < 0.4:
            n = rng.choice([0, 1, 2, 5, -1])
            kw["n"], args[3] = n, n
        if rng.random() < 0.1:
            kw["thresh"] = 0.9            # a stray keyword: matches no parameter, dropped by filter_kwargs
        yield Case("pattern.evaluate", [ex(ref), ex(est)] + args,
                   lambda ref=ref, est=est, kw=kw: mir_eval.pattern.evaluate(py(ref), py(est), **kw),
                   tag="%s kw=%s" % (shape_tag(ref, est), ",".join(sorted(kw))), info=info(ref, est, kw=args),
                   nontrivial=n_onsets(ref) > 0 and n_onsets(est) > 0)


def wellformed(rng):
    while True:
        ref, est = pair(rng)
        if ref and est and all(len(o) > 0 for p in ref + est for o in p):
            return ref, est


def suite_spec(rng, tier, shard, nshards):
    """the documented definitions (Layer S, executable) against the real code, on defined inputs"""
    for _ in range(sizes(tier, 200, 1200)):
        ref, est = wellformed(rng)
        yield Case("pattern.spec.establishment", [ex(ref), ex(est)],
                   lambda ref=ref, est=est: mp.establishment_FPR(py(ref), py(est)),
                   tag="spec establishment", info=info(ref, est))
        thres = rng.choice([Fr(1, 2), Fr(3, 4), Fr(2, 3), Fr(1)] + score_values(ref, est))
        yield Case("pattern.spec.occurrence", [ex(ref), ex(est), thres],
                   lambda ref=ref, est=est, thres=thres: mp.occurrence_FPR(py(ref), py(est), thres=float(thres)),
                   tag="spec occurrence", info=info(ref, est, thres=thres))
        yield Case("pattern.spec.three_layer", [ex(ref), ex(est)],
                   lambda ref=ref, est=est: mp.three_layer_FPR(py(ref), py(est)),
                   tag="spec three_layer", info=info(ref, est))
        ref, est, tol = standard_pair(rng)
        if ref and est and all(len(p[0]) > 0 for p in ref + est) and n_onsets(ref) and n_onsets(est):
            tol = Fr(1, 100000) if tol is None else tol
            yield Case("pattern.spec.standard", [ex(ref), ex(est), tol],
                       lambda ref=ref, est=est, tol=tol: mp.standard_FPR(py(ref), py(est), tol=float(tol)),
                       tag="spec standard", info=info(ref, est, tol=tol))


def small_universe():
    """all occurrences over a 3-point universe (incl. empty), used for the exhaustive small scope"""
    pts = [(Fr(0), 60), (Fr(1, 2), 62), (Fr(1), 60)]
    occs = []
    for mask in range(8):
        occs.append([p for i, p in enumerate(pts) if (mask >> i) & 1])
    return occs


def suite_exhaustive(rng, tier, shard, nshards):
    """every pair of pattern lists built from <=2 patterns of <=2 occurrences over a 3-point universe (thorough:
    sampled densely; quick: a slice), all four FPR metrics"""
    occs = small_universe()
    pats = [[a] for a in occs] + [[a, b] for a in occs for b in occs]
    lists = [[p] for p in pats] + [[p, q] for p in pats[:24] for q in pats[:24]]
    stride = 97 if tier == "quick" else 13
    idx = 0
    for i, ref in enumerate(lists):
        for j in range((i * 7) % stride, len(lists), stride):
            est = lists[j]
            idx += 1
            if idx % nshards != shard:
                continue
            yield Case("pattern.establishment_FPR", [ex(ref), ex(est), None],
                       lambda ref=ref, est=est: mp.establishment_FPR(py(ref), py(est)),
                       tag="exh establishment", info=info(ref, est))
            yield Case("pattern.occurrence_FPR", [ex(ref), ex(est), Fr(1, 2), None],
                       lambda ref=ref, est=est: mp.occurrence_FPR(py(ref), py(est), thres=0.5),
                       tag="exh occurrence", info=info(ref, est, thres=Fr(1, 2)))
            yield Case("pattern.three_layer_FPR", [ex(ref), ex(est)],
                       lambda ref=ref, est=est: mp.three_layer_FPR(py(ref), py(est)),
                       tag="exh three_layer", info=info(ref, est))
            yield Case("pattern.standard_FPR", [ex(ref), ex(est), None],
                       lambda ref=ref, est=est: mp.standard_FPR(py(ref), py(est)),
                       tag="exh standard", info=info(ref, est))


SUITES = {
    "pattern_helpers": suite_helpers,
    "pattern_standard": suite_standard,
    "pattern_establishment": suite_establishment,
    "pattern_occurrence": suite_occurrence,
    "pattern_three_layer": suite_three_layer,
    "pattern_first_n": suite_first_n,
    "pattern_evaluate": suite_evaluate,
    "pattern_spec": suite_spec,
    "pattern_exhaustive": suite_exhaustive,
}


def case_input(d):
    """annotations and parameters of a (disagreeing) correspondence case, as a json-able oracle input"""
    i = d.get("info") or {}
    if "ref" not in i or "est" not in i:
        return None
    inp = {"ref": i["ref"], "est": i["est"], "tol": i.get("tol"), "thres": i.get("thres"), "n": i.get("n")}
    kw = i.get("kw")
    if kw:
        inp.update({"tol": kw[0], "thres": kw[1], "n": kw[3]})
    if isinstance(inp["n"], str):
        inp["n"] = int(inp["n"])
    return inp


def classify(suite, d):
    """default mapping for property modules: the site name is the property module's business"""
    inp = case_input(d)
    return None if inp is None else ("pattern.definition", inp)
