"""mir_eval.tempo (validate_tempi, validate, detection, evaluate) — correspondence suites and property oracles.

Tempi live on a lattice on which `|ref - est| / ref` and the tolerance are the correctly rounded images of
different small rationals or of the *same* rational (reference tempi that are multiples of 25 and estimates
at exactly ref*(1 +- tol)), so `<=` at the threshold is decided identically in binary64 and in Rat.
The 12-point lattice x tolerances {0, 1/25, 2/25, 1/2, 1} is enumerated exhaustively.
"""
from fractions import Fraction as Fr
import itertools

import numpy as np
import mir_eval

from core import Case
import gen
from suites import misc_util as mu

LATTICE = [Fr(x) for x in (0, 25, 27, 46, 50, 54, 60, 92, 100, 108, 120, 200)]
TOLS = [Fr(0), Fr(1, 25), Fr(2, 25), Fr(1, 2), Fr(1)]
WEIGHTS = [Fr(0), Fr(1, 4), Fr(1, 2), Fr(3, 4), Fr(1)]


def impl_validate_tempi(t, reference):
    return mir_eval.tempo.validate_tempi(gen.arr(t), reference=reference)


def impl_validate(ref, w, est):
    return mir_eval.tempo.validate(gen.arr(ref), float(w), gen.arr(est))


def impl_detection(ref, w, est, tol):
    return mir_eval.tempo.detection(gen.arr(ref), float(w), gen.arr(est), tol=float(tol))


def impl_evaluate(ref, w, est, tol):
    kw = {} if tol is None else {"tol": float(tol)}
    return mir_eval.tempo.evaluate(gen.arr(ref), float(w), gen.arr(est), **kw)


IMPL = {"tempo.validate_tempi": impl_validate_tempi, "tempo.validate": impl_validate,
        "tempo.detection": impl_detection, "tempo.evaluate": impl_evaluate}


def case(op, args, tag, nontrivial=True):
    return Case(op, args, (lambda op=op, args=args: IMPL[op](*args)), tag=tag,
                info={"op": op, "args": mu.jargs(args)}, nontrivial=nontrivial)


def ref_pair(rng):
    u = rng.random()
    if u < 0.5:
        a = Fr(25 * rng.randint(1, 8))
        b = a * rng.choice([2, 3, Fr(1, 2)]) if rng.random() < 0.6 else Fr(25 * rng.randint(1, 8))
    elif u < 0.8:
        a, b = Fr(rng.randint(30, 240)), Fr(rng.randint(30, 240))
    elif u < 0.9:
        a, b = Fr(rng.randint(120, 960), 4), Fr(rng.randint(120, 960), 4)
    else:
        a, b = Fr(0), Fr(rng.randint(30, 240))          # a zero reference tempo is allowed (one of them)
    pair = [a, b] if rng.random() < 0.7 else [b, a]
    return pair


def est_pair(rng, ref, tol):
    def one(r):
        u = rng.random()
        if u < 0.25:
            return r
        if u < 0.5 and r.denominator == 1 and r % 25 == 0:
            return r * (1 + rng.choice([-1, 1]) * tol)          # exactly on the threshold, exactly representable
        if u < 0.6:
            return r * (1 + rng.choice([-1, 1]) * tol) + rng.choice([-1, 1]) * Fr(1, 4)   # next to it
        if u < 0.75:
            return r * rng.choice([2, Fr(1, 2), 3])
        if u < 0.8:
            return Fr(0)
        return Fr(rng.randint(20, 300))
    e = [max(Fr(0), one(rng.choice(ref))), max(Fr(0), one(rng.choice(ref)))]
    # keep every value exactly representable in binary64 (dyadic), else snap to a quarter
    return [x if (x.denominator & (x.denominator - 1)) == 0 else Fr(round(x * 4), 4) for x in e]


def suite_detection(rng, tier, shard, nshards):
    n = 600 if tier == "quick" else 2000
    for _ in range(n):
        tol = rng.choice(TOLS)
        ref = ref_pair(rng)
        est = est_pair(rng, ref, tol)
        w = rng.choice(WEIGHTS)
        hit_possible = any(r > 0 for r in ref)
        yield case("tempo.detection", [ref, w, est, tol], "tol=%s" % tol, nontrivial=hit_possible)
    for _ in range(n // 5):                                           # X: single faults
        tol = rng.choice(TOLS)
        ref = ref_pair(rng)
        est = est_pair(rng, ref, tol)
        w = rng.choice(WEIGHTS)
        kind = rng.choice(["ref-size", "est-size", "negative", "ref-zero", "est-zero-ok", "weight", "tol"])
        if kind == "ref-size":
            ref = ref[:1] if rng.random() < 0.5 else ref + [Fr(60)]
        elif kind == "est-size":
            est = rng.choice([[], est[:1], est + [Fr(60)]])
        elif kind == "negative":
            if rng.random() < 0.5:
                ref = [ref[0], -ref[1] - 1]
            else:
                est = [-est[0] - 1, est[1]]
        elif kind == "ref-zero":
            ref = [Fr(0), Fr(0)]
        elif kind == "est-zero-ok":
            est = [Fr(0), Fr(0)]
        elif kind == "weight":
            w = rng.choice([Fr(-1, 4), Fr(5, 4)])
        else:
            tol = rng.choice([Fr(-1, 100), Fr(101, 100)])
        yield case("tempo.detection", [ref, w, est, tol], "X " + kind)
        yield case("tempo.validate", [ref, w, est], "X validate " + kind)
        yield case("tempo.validate_tempi", [ref, True], "X validate_tempi ref " + kind)
        yield case("tempo.validate_tempi", [est, False], "X validate_tempi est " + kind)


def suite_evaluate(rng, tier, shard, nshards):
    n = 200 if tier == "quick" else 2000
    for _ in range(n):
        tol = rng.choice(TOLS + [None, None])
        ref = ref_pair(rng)
        est = est_pair(rng, ref, Fr(2, 25) if tol is None else tol)
        yield case("tempo.evaluate", [ref, rng.choice(WEIGHTS), est, tol],
                   "tol=%s" % ("default" if tol is None else "given"))


def suite_exhaustive(rng, tier, shard, nshards):
    """every (ref0, ref1, est0, est1) on the 12-point lattice; quick: one random (tol, weight) each and a
    quarter of the points; thorough: all five tolerances"""
    k = 0
    for r0, r1, e0, e1 in itertools.product(LATTICE, repeat=4):
        if r0 == 0 and r1 == 0:
            continue
        k += 1
        if k % nshards != shard:
            continue
        if tier == "quick":
            if rng.random() > 0.25:
                continue
            yield case("tempo.detection", [[r0, r1], rng.choice(WEIGHTS), [e0, e1], rng.choice(TOLS)], "exh")
        else:
            w = rng.choice(WEIGHTS)
            for tol in TOLS:
                yield case("tempo.detection", [[r0, r1], w, [e0, e1], tol], "exh")


SUITES = {"tempo.detection": suite_detection, "tempo.evaluate": suite_evaluate, "tempo.exhaustive": suite_exhaustive}


# ---------------------------------------------------------------------------------------------
def _det(ref, w, est, tol):
    p, one, both = impl_detection(ref, w, est, tol)
    return float(p), one, both


def check_detection(inp):
    prop = inp["prop"]
    ref, est = mu.unjargs(inp["ref"]), mu.unjargs(inp["est"])
    w, tol = mu.unjargs(inp["w"]), mu.unjargs(inp["tol"])
    ctx = "(ref=%s weight=%s est=%s tol=%s)" % (inp["ref"], inp["w"], inp["est"], inp["tol"])
    if prop == "range":           # C01: p in [0,1], flags are exactly booleans
        p, one, both = _det(ref, w, est, tol)
        if not mu.in01(p) or type(one) is not bool or type(both) is not bool:
            return "tempo.detection = %r: p-score outside [0,1] or flags not bool %s" % ((p, one, both), ctx)
    elif prop == "self":          # C02 (both reference tempi positive)
        if all(r > 0 for r in ref):
            s = _det(ref, w, list(ref), tol)
            if not (mu.close(s[0], 1.0) and s[1] is True and s[2] is True):
                return "tempo.detection(x, w, x) = %r, expected (1, True, True) %s" % (s, ctx)
    elif prop == "definition":    # C04: the docstring's |est - ref| <= tol * ref, exact on this lattice
        p, one, both = _det(ref, w, est, tol)
        hits = [r > 0 and any(abs(e - r) <= tol * r for e in est) for r in ref]
        want = (float(w * hits[0] + (1 - w) * hits[1]), any(hits), all(hits))
        if not (mu.close(p, want[0]) and one == want[1] and both == want[2]):
            return "tempo.detection = %r, definition gives %r %s" % ((p, one, both), want, ctx)
    elif prop == "widen":         # C07: larger tol never lowers anything; both-correct implies one-correct
        tol2 = mu.unjargs(inp["tol2"])
        a, b = _det(ref, w, est, tol), _det(ref, w, est, tol2)
        if a[0] > b[0] + 1e-12 or (a[1] and not b[1]) or (a[2] and not b[2]):
            return "tempo.detection tol %s -> %r, tol %s -> %r %s" % (inp["tol"], a, inp["tol2"], b, ctx)
        if a[2] and not a[1]:
            return "tempo.detection both_correct without one_correct: %r %s" % (a, ctx)
    elif prop == "est-swap":      # C08
        a, b = _det(ref, w, est, tol), _det(ref, w, est[::-1], tol)
        if not (mu.close(a[0], b[0], 1e-12) and a[1:] == b[1:]):
            return "tempo.detection changes when the two estimates are swapped: %r vs %r %s" % (a, b, ctx)
    else:
        raise ValueError(prop)
    return None


def gen_detection(rng, tier, shard, nshards, boost):
    n = (200 if tier == "quick" else 1200) * boost
    for _ in range(n):
        tol = rng.choice(TOLS)
        ref = ref_pair(rng)
        est = est_pair(rng, ref, tol)
        base = {"ref": mu.jargs(ref), "est": mu.jargs(est), "w": mu.jargs(rng.choice(WEIGHTS)), "tol": mu.jargs(tol)}
        for prop in ("range", "self", "definition", "est-swap"):
            yield dict(base, prop=prop)
        tol2 = min(Fr(1), tol + rng.choice([Fr(0), Fr(1, 100), Fr(1, 25), Fr(1, 2)]))
        yield dict(base, prop="widen", tol2=mu.jargs(tol2))


CHECKERS = {"tempo.detection": check_detection}
ORACLES = {"tempo.detection": gen_detection}
