"""Value correspondence suites for mir_eval.transcription / transcription_velocity (model vs real code).

Streams
  E16  onset/offset times on the 1/16 s lattice (4-decimal rounding of distances is the identity)
  E32  times on the 1/32 s lattice (odd multiples exercise np.round's half-even rule at 4 decimals)
  pitch: MIDI numbers on a 0.3-semitone lattice (differences are multiples of 30 cents), tolerances chosen
         >= 1 cent away from every reachable difference; the code receives 440*2**((m-69)/12) Hz.
  X    single-fault malformed inputs (negative time, non-positive duration, length mismatch, non-positive
       pitch, negative velocity)
"""
from fractions import Fraction as Fr

import numpy as np

import mir_eval
from mir_eval import transcription as T
from mir_eval import transcription_velocity as TV

from core import Case

DEFAULTS = {"onset_tolerance": Fr(1, 20), "pitch_tolerance": Fr(50), "offset_ratio": Fr(1, 5),
            "offset_min_tolerance": Fr(1, 20), "strict": False, "beta": Fr(1)}
VEL_DEFAULT = Fr(1, 10)

ONSET_TOLS = [Fr(1, 20), Fr(1, 20), Fr(1, 16), Fr(1, 8), Fr(1, 32), Fr(0), Fr(1, 4), Fr(3, 16),
              Fr(312, 10000), Fr(313, 10000), Fr(937, 10000), Fr(938, 10000), Fr(1, 10)]
MIN_TOLS = [Fr(1, 20), Fr(1, 20), Fr(1, 16), Fr(1, 8), Fr(0), Fr(312, 10000), Fr(313, 10000), Fr(1, 4)]
RATIOS = [Fr(1, 5), Fr(1, 5), None, Fr(1, 8), Fr(1, 4), Fr(1, 2), Fr(0)]
PITCH_TOLS = [Fr(50), Fr(50), Fr(50), Fr(25), Fr(10), Fr(100), Fr(0), Fr(35), Fr(200), Fr(29), Fr(31), Fr(61), Fr(117, 2)]
BETAS = [Fr(1), Fr(1), Fr(1, 4), Fr(4), Fr(1, 2), Fr(2)]
PSTEP = Fr(3, 10)   # pitch lattice in semitones


def hz(m):
    """MIDI number (Fraction) -> Hz (float), the conversion named in the model's header"""
    return 440.0 * 2.0 ** ((float(m) - 69.0) / 12.0)


def ivals(notes):
    return np.array([[float(n[0]), float(n[1])] for n in notes], dtype=float).reshape(-1, 2)


def pitches(notes):
    return np.array([hz(n[2]) for n in notes], dtype=float)


def m_ivals(notes):
    return [[n[0], n[1]] for n in notes]


def m_pitches(notes):
    return [n[2] for n in notes]


def params(rng, lat):
    p = {"onset_tolerance": rng.choice(ONSET_TOLS), "pitch_tolerance": rng.choice(PITCH_TOLS),
         "offset_ratio": rng.choice(RATIOS), "offset_min_tolerance": rng.choice(MIN_TOLS),
         "strict": rng.random() < 0.35, "beta": rng.choice(BETAS)}
    if rng.random() < 0.25:
        p = dict(DEFAULTS)
    return p


def off_tol(p, n):
    r = p["offset_ratio"] if p["offset_ratio"] is not None else Fr(1, 5)
    return max(r * (n[1] - n[0]), p["offset_min_tolerance"])


def ref_notes(rng, lat, nmax=8, tmax=6):
    n = min(nmax, rng.choice([0, 1, 1, 2, 3, 4, 5, 6, 8]))
    out = []
    for _ in range(n):
        u = rng.random()
        if out and u < 0.12:
            out.append(list(rng.choice(out)))                     # exact duplicate
        elif out and u < 0.4:
            b = rng.choice(out)                                   # near an existing note
            on = max(Fr(0), b[0] + Fr(rng.randint(-3, 3), lat))
            du = max(Fr(1, lat), (b[1] - b[0]) + Fr(rng.randint(-2, 2), lat))
            out.append([on, on + du, b[2] + PSTEP * rng.choice([0, 0, 1, -1, 2, -2, 40])])
        else:
            on = Fr(rng.randint(0, tmax * lat), lat)
            du = Fr(rng.choice([1, 1, 2, 3, 4, 5, 8, 10, 16, 20, 40]), lat)
            out.append([on, on + du, Fr(40) + PSTEP * rng.randint(0, 120)])
    if rng.random() < 0.6:
        out.sort(key=lambda x: (x[0], x[1], x[2]))
    return out


def est_notes(rng, ref, p, lat, nmax=8, tmax=6):
    """an estimate correlated with ref: perturbations exactly on / just outside each threshold"""
    if rng.random() < 0.15:
        return ref_notes(rng, lat, nmax, tmax)
    step = Fr(1, lat)
    out = []
    for r in ref:
        u = rng.random()
        if u < 0.12:
            continue
        on, off, pm = r
        v = rng.random()
        if v < 0.25:
            pass
        elif v < 0.45:
            on = on + rng.choice([-1, 1]) * p["onset_tolerance"]
        elif v < 0.55:
            on = on + rng.choice([-1, 1]) * (p["onset_tolerance"] + step)
        elif v < 0.65:
            on = on + Fr(rng.randint(-3, 3), lat)
        w = rng.random()
        if w < 0.25:
            pass
        elif w < 0.45:
            off = off + rng.choice([-1, 1]) * off_tol(p, r)
        elif w < 0.55:
            off = off + rng.choice([-1, 1]) * (off_tol(p, r) + step)
        elif w < 0.7:
            off = off + Fr(rng.randint(-4, 4), lat)
        # snap to the lattice of this stream (thresholds such as 1/20 are not lattice points)
        on = Fr(round(on * lat), lat)
        off = Fr(round(off * lat), lat)
        on = max(Fr(0), on)
        if off <= on:
            off = on + step
        pm = pm + PSTEP * rng.choice([0, 0, 0, 1, -1, 2, -2, 3, 40, -40])
        out.append([on, off, pm])
    for _ in range(rng.choice([0, 0, 1, 2])):
        out += ref_notes(rng, lat, 1, tmax)
    if rng.random() < 0.3:
        rng.shuffle(out)
    return out[:nmax + 2]


def gadget(rng, lat, nmax=8):
    """a cluster of mutually near notes: one lattice step apart is feasible, two steps are not, in onset and in
    pitch independently, so the feasibility graph is far from complete and greedy pairing is often not maximum"""
    p = dict(DEFAULTS)
    p["onset_tolerance"] = Fr(1, lat)
    p["pitch_tolerance"] = rng.choice([Fr(50), Fr(35), Fr(10), Fr(31), Fr(29)])
    p["offset_ratio"] = rng.choice([None, None, Fr(1, 8), Fr(1, 5)])
    p["offset_min_tolerance"] = rng.choice([Fr(1, lat), Fr(2, lat), Fr(1, 20)])
    p["strict"] = rng.random() < 0.2
    p["beta"] = rng.choice(BETAS)
    t0 = Fr(rng.randint(0, 2 * lat), lat)
    span_t = rng.choice([1, 2, 3, 4])
    span_p = rng.choice([0, 1, 2, 4])

    def note():
        on = t0 + Fr(rng.randint(0, span_t), lat)
        return [on, on + Fr(rng.choice([8, 8, 9, 16]), lat), Fr(60) + PSTEP * rng.randint(0, span_p)]
    ref = [note() for _ in range(rng.randint(2, nmax))]
    est = [note() for _ in range(rng.randint(2, nmax))]
    if rng.random() < 0.2:
        est = [list(n) for n in ref]
        rng.shuffle(est)
    return lat, p, ref, est


def instance(rng, lat=None, nmax=8):
    if lat is None:
        lat = rng.choice([16, 16, 32])
    if rng.random() < 0.25:
        return gadget(rng, lat, nmax)
    p = params(rng, lat)
    ref = ref_notes(rng, lat, nmax)
    est = est_notes(rng, ref, p, lat, nmax)
    return lat, p, ref, est


def pargs(p):
    return [p["onset_tolerance"], p["pitch_tolerance"], p["offset_ratio"], p["offset_min_tolerance"], p["strict"]]


def fkw(p, keys):
    """the float keyword arguments the real code receives"""
    out = {}
    for k in keys:
        v = p[k]
        out[k] = v if isinstance(v, bool) or v is None else float(v)
    return out


K_NOTES = ["onset_tolerance", "pitch_tolerance", "offset_ratio", "offset_min_tolerance", "strict"]
K_ONSET = ["onset_tolerance", "strict"]
K_OFFSET = ["offset_ratio", "offset_min_tolerance", "strict"]


def info(lat, p, ref, est, **extra):
    d = {"lat": lat, "params": {k: (v if isinstance(v, bool) or v is None else str(v)) for k, v in p.items()},
         "ref": [[str(x) for x in n] for n in ref], "est": [[str(x) for x in n] for n in est]}
    d.update(extra)
    return d


def pairs_of(m):
    return [[int(a), int(b)] for a, b in m]


def nsize(tier, quick, thorough):
    return quick if tier == "quick" else thorough


def tagof(lat, p):
    return "E%d ratio=%s strict=%s" % (lat, p["offset_ratio"], p["strict"])


# ---------------------------------------------------------------------------------------------
# matching functions: the model's pairing must be the code's pairing, and the code's pairing must pass the
# proved checker against the model's feasibility graph

def suite_match_notes(rng, tier, shard, nshards):
    for _ in range(nsize(tier, 300, 6000)):
        lat, p, ref, est = instance(rng)
        a = [m_ivals(ref), m_pitches(ref), m_ivals(est), m_pitches(est)] + pargs(p)

        def call(ref=ref, est=est, p=p):
            return pairs_of(T.match_notes(ivals(ref), pitches(ref), ivals(est), pitches(est), **fkw(p, K_NOTES)))
        yield Case("transcription.match_notes", a, call, tag=tagof(lat, p), info=info(lat, p, ref, est),
                   nontrivial=bool(ref and est))


def suite_match_onsets_offsets(rng, tier, shard, nshards):
    for _ in range(nsize(tier, 100, 4000)):
        lat, p, ref, est = instance(rng)
        if p["offset_ratio"] is None:
            p["offset_ratio"] = Fr(1, 5)

        def call_on(ref=ref, est=est, p=p):
            return pairs_of(T.match_note_onsets(ivals(ref), ivals(est), **fkw(p, K_ONSET)))
        yield Case("transcription.match_note_onsets",
                   [m_ivals(ref), m_ivals(est), p["onset_tolerance"], p["strict"]], call_on,
                   tag="onsets " + tagof(lat, p), info=info(lat, p, ref, est), nontrivial=bool(ref and est))

        def call_off(ref=ref, est=est, p=p):
            return pairs_of(T.match_note_offsets(ivals(ref), ivals(est), **fkw(p, K_OFFSET)))
        yield Case("transcription.match_note_offsets",
                   [m_ivals(ref), m_ivals(est), p["offset_ratio"], p["offset_min_tolerance"], p["strict"]],
                   call_off, tag="offsets " + tagof(lat, p), info=info(lat, p, ref, est),
                   nontrivial=bool(ref and est))


def suite_check_pairs(rng, tier, shard, nshards):
    """C05: pairs returned by the real code -> proved checker `validB` + `maxMatchSize` in the driver"""
    for _ in range(nsize(tier, 250, 5000)):
        lat, p, ref, est = instance(rng, nmax=rng.choice([8, 8, 12]))
        if rng.random() < 0.4:
            # dense instance: many mutually feasible notes (where the choice of matching is not forced)
            base = ref_notes(rng, lat, 1) or [[Fr(1), Fr(2), Fr(60)]]
            b0, b1, bp = base[0][0], max(base[0][1], base[0][0] + Fr(3, lat)), base[0][2]
            ref = [[b0 + Fr(rng.randint(0, 2), lat), b1 + Fr(rng.randint(0, 2), lat),
                    bp + PSTEP * rng.randint(0, 2)] for _ in range(rng.randint(2, 7))]
            est = [[b0 + Fr(rng.randint(0, 2), lat), b1 + Fr(rng.randint(0, 2), lat),
                    bp + PSTEP * rng.randint(0, 2)] for _ in range(rng.randint(2, 7))]
        kind = rng.choice(["notes", "notes", "onsets", "offsets"])
        if kind != "notes" and p["offset_ratio"] is None:
            p["offset_ratio"] = Fr(1, 4)
        try:
            if kind == "notes":
                m = T.match_notes(ivals(ref), pitches(ref), ivals(est), pitches(est), **fkw(p, K_NOTES))
            elif kind == "onsets":
                m = T.match_note_onsets(ivals(ref), ivals(est), **fkw(p, K_ONSET))
            else:
                m = T.match_note_offsets(ivals(ref), ivals(est), **fkw(p, K_OFFSET))
            m = pairs_of(m)
            res = [True, len(m), len(m), True]
            call = (lambda r=res: r)
        except Exception as e:  # noqa: BLE001
            m = []
            call = (lambda e=e: (_ for _ in ()).throw(e))
        if kind == "notes":
            op = "transcription.check_match_notes"
            a = [m_ivals(ref), m_pitches(ref), m_ivals(est), m_pitches(est)] + pargs(p) + [m]
        elif kind == "onsets":
            op = "transcription.check_match_note_onsets"
            a = [m_ivals(ref), m_ivals(est), p["onset_tolerance"], p["strict"], m]
        else:
            op = "transcription.check_match_note_offsets"
            a = [m_ivals(ref), m_ivals(est), p["offset_ratio"], p["offset_min_tolerance"], p["strict"], m]
        yield Case(op, a, call, tag=kind + " " + tagof(lat, p), info=info(lat, p, ref, est, kind=kind, pairs=m),
                   nontrivial=bool(ref and est))


# ---------------------------------------------------------------------------------------------
# scores

def kw_subset(rng, p, keys):
    """explicit keyword arguments; sometimes a parameter at its documented default is left out"""
    kw = fkw(p, keys)
    for k in list(kw):
        if p[k] == DEFAULTS[k] and rng.random() < 0.5:
            del kw[k]
    return kw


def suite_prf_overlap(rng, tier, shard, nshards):
    for _ in range(nsize(tier, 300, 6000)):
        lat, p, ref, est = instance(rng)
        if rng.random() < 0.15:
            est = [list(n) for n in ref]
        kw = kw_subset(rng, p, K_NOTES + ["beta"])
        a = [m_ivals(ref), m_pitches(ref), m_ivals(est), m_pitches(est)] + pargs(p) + [p["beta"]]

        def call(ref=ref, est=est, kw=kw):
            return T.precision_recall_f1_overlap(ivals(ref), pitches(ref), ivals(est), pitches(est), **kw)
        yield Case("transcription.precision_recall_f1_overlap", a, call, tag=tagof(lat, p),
                   info=info(lat, p, ref, est), nontrivial=bool(ref and est))


def suite_onset_offset_prf(rng, tier, shard, nshards):
    for _ in range(nsize(tier, 80, 3000)):
        lat, p, ref, est = instance(rng)
        if p["offset_ratio"] is None:
            p["offset_ratio"] = Fr(1, 5)
        kw = kw_subset(rng, p, K_ONSET + ["beta"])

        def call_on(ref=ref, est=est, kw=kw):
            return T.onset_precision_recall_f1(ivals(ref), ivals(est), **kw)
        yield Case("transcription.onset_precision_recall_f1",
                   [m_ivals(ref), m_ivals(est), p["onset_tolerance"], p["strict"], p["beta"]], call_on,
                   tag="onset " + tagof(lat, p), info=info(lat, p, ref, est), nontrivial=bool(ref and est))
        kw2 = kw_subset(rng, p, K_OFFSET + ["beta"])

        def call_off(ref=ref, est=est, kw=kw2):
            return T.offset_precision_recall_f1(ivals(ref), ivals(est), **kw)
        yield Case("transcription.offset_precision_recall_f1",
                   [m_ivals(ref), m_ivals(est), p["offset_ratio"], p["offset_min_tolerance"], p["strict"],
                    p["beta"]], call_off,
                   tag="offset " + tagof(lat, p), info=info(lat, p, ref, est), nontrivial=bool(ref and est))


def suite_aor(rng, tier, shard, nshards):
    """average_overlap_ratio on arbitrary index pairs (not necessarily a matching), incl. the empty one"""
    for _ in range(nsize(tier, 80, 3000)):
        lat, p, ref, est = instance(rng)
        m = []
        if ref and est:
            for _ in range(rng.choice([0, 1, 2, 3, 5])):
                m.append([rng.randrange(len(ref)), rng.randrange(len(est))])
        if rng.random() < 0.05:
            m.append([len(ref), 0])     # IndexError

        def call(ref=ref, est=est, m=m):
            return T.average_overlap_ratio(ivals(ref), ivals(est), [tuple(x) for x in m])
        yield Case("transcription.average_overlap_ratio", [m_ivals(ref), m_ivals(est), m], call,
                   tag="E%d n=%d" % (lat, len(m)), info=info(lat, p, ref, est, pairs=m), nontrivial=bool(m))


def suite_evaluate(rng, tier, shard, nshards):
    for _ in range(nsize(tier, 80, 3000)):
        lat, p, ref, est = instance(rng)
        if rng.random() < 0.1:
            est = [list(n) for n in ref]
        kw = kw_subset(rng, p, K_NOTES + ["beta"])
        a = [m_ivals(ref), m_pitches(ref), m_ivals(est), m_pitches(est)] + pargs(p) + [p["beta"]]

        def call(ref=ref, est=est, kw=kw):
            return T.evaluate(ivals(ref), pitches(ref), ivals(est), pitches(est), **kw)
        yield Case("transcription.evaluate", a, call, tag=tagof(lat, p), info=info(lat, p, ref, est),
                   nontrivial=bool(ref and est))


# ---------------------------------------------------------------------------------------------
# X stream: single faults

def corrupt(rng, ref, est, lat):
    """returns (ref_ivals, ref_pitches, est_ivals, est_pitches, fault) in model form; pitch None = non-positive Hz"""
    ri, rp, ei, ep = m_ivals(ref), m_pitches(ref), m_ivals(est), m_pitches(est)
    side = rng.choice(["ref", "est"])
    iv, pp = (ri, rp) if side == "ref" else (ei, ep)
    fault = rng.choice(["none", "negative", "zero_duration", "negative_duration", "length", "nonpositive_pitch"])
    if fault != "none" and fault != "length" and not iv:
        fault = "length"
    if fault == "negative":
        k = rng.randrange(len(iv))
        iv[k] = [Fr(-1, lat), iv[k][1]]
    elif fault == "zero_duration":
        k = rng.randrange(len(iv))
        iv[k] = [iv[k][0], iv[k][0]]
    elif fault == "negative_duration":
        k = rng.randrange(len(iv))
        iv[k] = [iv[k][1], iv[k][0]]
    elif fault == "length":
        if pp and rng.random() < 0.5:
            pp.pop()
        else:
            pp.append(Fr(60))
    elif fault == "nonpositive_pitch":
        pp[rng.randrange(len(pp))] = None
    return ri, rp, ei, ep, side + ":" + fault


def np_iv(iv):
    return np.array([[float(a), float(b)] for a, b in iv], dtype=float).reshape(-1, 2)


def np_p(pp, rng_choice=0.0):
    return np.array([(hz(m) if m is not None else rng_choice) for m in pp], dtype=float)


def suite_validate(rng, tier, shard, nshards):
    for _ in range(nsize(tier, 120, 4000)):
        lat, p, ref, est = instance(rng, nmax=5)
        ri, rp, ei, ep, fault = corrupt(rng, ref, est, lat)
        bad = rng.choice([0.0, -440.0])
        which = rng.choice(["validate", "validate_intervals", "prf", "evaluate", "onset", "offset"])
        inf = {"fault": fault, "lat": lat}
        if which == "validate":
            yield Case("transcription.validate", [ri, rp, ei, ep],
                       lambda ri=ri, rp=rp, ei=ei, ep=ep, bad=bad: T.validate(np_iv(ri), np_p(rp, bad), np_iv(ei), np_p(ep, bad)),
                       tag="validate " + fault, info=inf)
        elif which == "validate_intervals":
            yield Case("transcription.validate_intervals", [ri, ei],
                       lambda ri=ri, ei=ei: T.validate_intervals(np_iv(ri), np_iv(ei)),
                       tag="validate_intervals " + fault, info=inf)
        elif which == "prf":
            yield Case("transcription.precision_recall_f1_overlap", [ri, rp, ei, ep] + pargs(p) + [p["beta"]],
                       lambda ri=ri, rp=rp, ei=ei, ep=ep, bad=bad, p=p: T.precision_recall_f1_overlap(
                           np_iv(ri), np_p(rp, bad), np_iv(ei), np_p(ep, bad), **fkw(p, K_NOTES + ["beta"])),
                       tag="prf " + fault, info=inf)
        elif which == "evaluate":
            yield Case("transcription.evaluate", [ri, rp, ei, ep] + pargs(p) + [p["beta"]],
                       lambda ri=ri, rp=rp, ei=ei, ep=ep, bad=bad, p=p: T.evaluate(
                           np_iv(ri), np_p(rp, bad), np_iv(ei), np_p(ep, bad), **fkw(p, K_NOTES + ["beta"])),
                       tag="evaluate " + fault, info=inf)
        elif which == "onset":
            yield Case("transcription.onset_precision_recall_f1", [ri, ei, p["onset_tolerance"], p["strict"], p["beta"]],
                       lambda ri=ri, ei=ei, p=p: T.onset_precision_recall_f1(np_iv(ri), np_iv(ei), **fkw(p, K_ONSET + ["beta"])),
                       tag="onset " + fault, info=inf)
        else:
            if p["offset_ratio"] is None:
                p["offset_ratio"] = Fr(1, 5)
            yield Case("transcription.offset_precision_recall_f1",
                       [ri, ei, p["offset_ratio"], p["offset_min_tolerance"], p["strict"], p["beta"]],
                       lambda ri=ri, ei=ei, p=p: T.offset_precision_recall_f1(np_iv(ri), np_iv(ei), **fkw(p, K_OFFSET + ["beta"])),
                       tag="offset " + fault, info=inf)


# ---------------------------------------------------------------------------------------------
# numeric primitives tied directly to NumPy

def suite_round4(rng, tier, shard, nshards):
    for _ in range(nsize(tier, 150, 5000)):
        den = rng.choice([16, 32, 32, 64, 64, 128, 10000])
        x = Fr(rng.randint(0, 8 * den), den)
        yield Case("transcription.round4", [x], lambda x=x: float(np.around(float(x), decimals=T.N_DECIMALS)),
                   tol=1e-15, tag="den=%d" % den, info={"x": str(x)}, nontrivial=(x * 20000).denominator == 1 and (x * 20000) % 2 == 1)


def suite_lstsq(rng, tier, shard, nshards):
    for _ in range(nsize(tier, 80, 3000)):
        n = rng.choice([1, 1, 2, 2, 3, 4, 6])
        xs = [Fr(rng.randint(0, 127)) for _ in range(n)]
        if rng.random() < 0.3:
            xs = [xs[0]] * n            # rank deficient: minimum-norm solution
        ys = [Fr(rng.randint(0, 64), 64) for _ in range(n)]

        def call(xs=xs, ys=ys):
            A = np.vstack([np.array([float(x) for x in xs]), np.ones(len(xs))]).T
            return np.linalg.lstsq(A, np.array([float(y) for y in ys]), rcond=None)[0]
        yield Case("transcription.lstsq_line", [xs, ys], call, tol=1e-7,
                   tag="n=%d rank=%d" % (n, 1 if len(set(xs)) == 1 else 2), info={"xs": [str(x) for x in xs], "ys": [str(y) for y in ys]})


def suite_bipartite(rng, tier, shard, nshards):
    """the dict-order transliteration of util._bipartite_match against the real routine on random graphs,
    fed exactly as match_notes feeds it (hits in row-major order, G[est_i].append(ref_i))"""
    for _ in range(nsize(tier, 300, 8000)):
        nr, ne = rng.randint(1, 9), rng.randint(1, 9)
        dens = rng.choice([0.1, 0.2, 0.3, 0.4, 0.5, 0.7, 0.9])
        hits = [[i, j] for i in range(nr) for j in range(ne) if rng.random() < dens]
        if rng.random() < 0.3:   # a long alternating path: greedy is far from maximum
            k = rng.randint(2, 8)
            hits = sorted([[i, i] for i in range(k)] + [[i + 1, i] for i in range(k - 1)] +
                          [[rng.randrange(k), rng.randrange(k)] for _ in range(rng.choice([0, 1, 2]))])
            hits = [list(x) for x in sorted(set(map(tuple, hits)))]

        def call(hits=hits):
            G = {}
            for ref_i, est_i in hits:
                if est_i not in G:
                    G[est_i] = []
                G[est_i].append(ref_i)
            m = sorted(mir_eval.util._bipartite_match(G).items())
            return [[list(x) for x in m], len(m)]
        yield Case("transcription.bipartite_match_items", [hits], call, tag="dens=%s" % dens,
                   info={"hits": hits}, nontrivial=bool(hits))


# ---------------------------------------------------------------------------------------------
# transcription_velocity

def velocities(rng, n):
    if n and rng.random() < 0.15:
        return [Fr(rng.randint(0, 127))] * n
    if n and rng.random() < 0.2:      # velocity range 0 or 1: the max(1, range) floor is in force
        v0 = rng.randint(0, 126)
        return [Fr(v0 + rng.randint(0, 1)) for _ in range(n)]
    return [Fr(rng.randint(0, 127)) for _ in range(n)]


def est_velocities(rng, rv, ref, est):
    """mostly an affine image of a reference velocity plus small noise, so that the tolerance matters"""
    a, b = rng.choice([1, 1, 2]), rng.randint(0, 20)
    out = []
    for k in range(len(est)):
        if rv and rng.random() < 0.8:
            out.append(Fr(max(0, a * int(rv[k % len(rv)]) // 2 + b + rng.choice([0, 0, 0, 1, -1, 5, -8, 20]))))
        else:
            out.append(Fr(rng.randint(0, 127)))
    return out


def vel_diffs(ref, est, rv, ev, pairs):
    """exact |regressed est velocity - normalised ref velocity| of every matched pair (for the margin rule)"""
    if not pairs:
        return []
    mn, mx = min(rv), max(rv)
    rng_ = max(Fr(1), mx - mn)
    ys = [(rv[i] - mn) / rng_ for i, _ in pairs]
    xs = [ev[j] for _, j in pairs]
    n = len(xs)
    sx, sy = sum(xs), sum(ys)
    sxx = sum(x * x for x in xs)
    sxy = sum(x * y for x, y in zip(xs, ys))
    det = n * sxx - sx * sx
    if det == 0:
        c, yb = sx / n, sy / n
        s, b = c * yb / (c * c + 1), yb / (c * c + 1)
    else:
        s, b = (n * sxy - sx * sy) / det, (sy * sxx - sx * sxy) / det
    return [abs(s * x + b - y) for x, y in zip(xs, ys)]


def vel_instance(rng):
    """an instance whose velocity differences keep a 1e-6 margin from the velocity tolerance"""
    while True:
        lat, p, ref, est = instance(rng)
        rv = velocities(rng, len(ref))
        ev = est_velocities(rng, rv, ref, est)
        vt = rng.choice([Fr(1, 10), Fr(1, 10), Fr(1, 20), Fr(1, 4), Fr(1, 100), Fr(0), Fr(1, 2), Fr(1)])
        if not ref:
            return lat, p, ref, est, rv, ev, vt
        ok = True
        for q in (p, dict(p, offset_ratio=None)):     # evaluate() also scores without offsets
            # the margin rule looks at the pairs the code under test returns; whatever a CHANGED match_notes hands back
            # (an exception, indices outside the arrays, not pairs at all) must not break case generation: the rule is
            # then simply not applied and the case itself shows the disagreement with the model
            try:
                pairs = pairs_of(T.match_notes(ivals(ref), pitches(ref), ivals(est), pitches(est), **fkw(q, K_NOTES)))
                if not all(0 <= i < len(rv) and 0 <= j < len(ev) for i, j in pairs):
                    pairs = []
                diffs = vel_diffs(ref, est, rv, ev, pairs)
            except Exception:  # noqa: BLE001
                diffs = []
            ok = ok and all(abs(d - vt) > Fr(1, 10 ** 6) or (d == 0 and vt == 0) for d in diffs)
        if ok:
            return lat, p, ref, est, rv, ev, vt


def farr(xs):
    return np.array([float(x) for x in xs], dtype=float)


def suite_velocity(rng, tier, shard, nshards):
    for _ in range(nsize(tier, 250, 5000)):
        lat, p, ref, est, rv, ev, vt = vel_instance(rng)
        kw = fkw(p, K_NOTES)
        kw["velocity_tolerance"] = float(vt)
        which = rng.choice(["match", "prf", "prf", "evaluate"])
        base = [m_ivals(ref), m_pitches(ref), rv, m_ivals(est), m_pitches(est), ev] + pargs(p) + [vt]
        inf = info(lat, p, ref, est, ref_vel=[str(v) for v in rv], est_vel=[str(v) for v in ev], vel_tol=str(vt))
        if which == "match":
            def call(ref=ref, est=est, rv=rv, ev=ev, kw=kw):
                return pairs_of(TV.match_notes(ivals(ref), pitches(ref), farr(rv), ivals(est), pitches(est), farr(ev), **kw))
            yield Case("transcription_velocity.match_notes", base, call, tag="match " + tagof(lat, p), info=inf,
                       nontrivial=bool(ref and est))
        else:
            kw = dict(kw)
            kw["beta"] = float(p["beta"])
            if vt == VEL_DEFAULT and rng.random() < 0.5:
                del kw["velocity_tolerance"]
            fn = TV.precision_recall_f1_overlap if which == "prf" else TV.evaluate
            op = "transcription_velocity.precision_recall_f1_overlap" if which == "prf" else "transcription_velocity.evaluate"

            def call(ref=ref, est=est, rv=rv, ev=ev, kw=kw, fn=fn):
                return fn(ivals(ref), pitches(ref), farr(rv), ivals(est), pitches(est), farr(ev), **kw)
            yield Case(op, base + [p["beta"]], call, tag=which + " " + tagof(lat, p), info=inf,
                       nontrivial=bool(ref and est))


def suite_velocity_validate(rng, tier, shard, nshards):
    for _ in range(nsize(tier, 60, 2000)):
        lat, p, ref, est = instance(rng, nmax=5)
        rv = velocities(rng, len(ref))
        ev = velocities(rng, len(est))
        ri, rp, ei, ep, fault = corrupt(rng, ref, est, lat)
        vf = rng.choice(["none", "none", "vel_length", "vel_negative"])
        side = rng.choice(["ref", "est"])
        vv = rv if side == "ref" else ev
        if vf == "vel_length":
            if vv and rng.random() < 0.5:
                vv.pop()
            else:
                vv.append(Fr(3))
        elif vf == "vel_negative" and vv:
            vv[rng.randrange(len(vv))] = Fr(-1)
        bad = rng.choice([0.0, -440.0])
        which = rng.choice(["validate", "prf", "evaluate"])
        inf = {"fault": fault, "vel_fault": side + ":" + vf, "lat": lat}
        tg = "%s %s %s" % (which, fault, vf)
        if which == "validate":
            yield Case("transcription_velocity.validate", [ri, rp, rv, ei, ep, ev],
                       lambda ri=ri, rp=rp, rv=rv, ei=ei, ep=ep, ev=ev, bad=bad: TV.validate(
                           np_iv(ri), np_p(rp, bad), farr(rv), np_iv(ei), np_p(ep, bad), farr(ev)),
                       tag=tg, info=inf)
        else:
            # a valid input would need the velocity margin rule; only faulty inputs (and empty sides) here
            if fault.endswith(":none") and vf == "none" and ri and ei:
                continue
            fn = TV.precision_recall_f1_overlap if which == "prf" else TV.evaluate
            op = "transcription_velocity.precision_recall_f1_overlap" if which == "prf" else "transcription_velocity.evaluate"
            kw = fkw(p, K_NOTES + ["beta"])
            yield Case(op, [ri, rp, rv, ei, ep, ev] + pargs(p) + [VEL_DEFAULT, p["beta"]],
                       lambda ri=ri, rp=rp, rv=rv, ei=ei, ep=ep, ev=ev, bad=bad, kw=kw, fn=fn: fn(
                           np_iv(ri), np_p(rp, bad), farr(rv), np_iv(ei), np_p(ep, bad), farr(ev), **kw),
                       tag=tg, info=inf)


SUITES = {
    "transcription.match_notes": suite_match_notes,
    "transcription.match_onsets_offsets": suite_match_onsets_offsets,
    "transcription.check_pairs": suite_check_pairs,
    "transcription.prf_overlap": suite_prf_overlap,
    "transcription.onset_offset_prf": suite_onset_offset_prf,
    "transcription.average_overlap_ratio": suite_aor,
    "transcription.evaluate": suite_evaluate,
    "transcription.validate": suite_validate,
    "transcription.bipartite_match": suite_bipartite,
    "transcription.round4": suite_round4,
    "transcription.lstsq": suite_lstsq,
    "transcription_velocity.scores": suite_velocity,
    "transcription_velocity.validate": suite_velocity_validate,
}
