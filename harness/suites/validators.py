"""C14, validator level: exception CLASS (ok / ValueError / other) of every real mir_eval validator vs the Lean
model (lean/MirModel/Validate.lean), on a valid stream and on single-fault streams (one generator per fault class).

Arrays are described as (shape, row-major data of Fractions); the real code receives
`np.array([float(x) ...]).reshape(shape)` of exactly the descriptor sent to the model.  Values are dyadic (times
on the 1/32 s lattice, bounds hit exactly: 30000 s, 20 / 5000 Hz, voicing / weight / tolerance 0 and 1), so every
comparison the validators make is exact in binary64.  `np.allclose` thresholds are approached with a margin
(asserted per case).
"""
import contextlib
from fractions import Fraction as Fr

import numpy as np
import mir_eval
import mir_eval.alignment
import mir_eval.transcription_velocity

from core import Case

LAT = 32
MAX_TIME = Fr(30000)
MAX_FREQ = Fr(5000)
MIN_FREQ = Fr(20)


# ---------------------------------------------------------------------------------------------
# array descriptors

class A:
    """an ndarray as the model sees it: shape + row-major data (Fractions)"""
    __slots__ = ("shape", "data")

    def __init__(self, shape, data):
        self.shape = tuple(int(s) for s in shape)
        self.data = [Fr(x) for x in data]
        n = 1
        for s in self.shape:
            n *= s
        assert n == len(self.data), (self.shape, len(self.data))

    def np(self):
        return np.array([float(x) for x in self.data], dtype=float).reshape(self.shape)

    def enc(self):
        return [list(self.shape), list(self.data)]

    def reshape(self, shape):
        return A(shape, self.data)

    def __len__(self):
        return len(self.data)


def vec(xs):
    return A((len(xs),), xs)


def mat2(rows):
    return A((len(rows), 2), [x for r in rows for x in r])


def scalar(x):
    return A((), [x])


def lat(rng, lo=0, hi=64):
    return Fr(rng.randint(lo * LAT, hi * LAT), LAT)


def to_np(enc):
    """(shape, data) descriptor (Fractions or 'p/q' strings) -> the ndarray the real code receives"""
    shape, data = enc
    return np.array([float(Fr(x)) for x in data], dtype=float).reshape(tuple(int(k) for k in shape))


def _f(x):
    return float(Fr(x))


@contextlib.contextmanager
def _only_checks():
    """observe only the checks tmeasure / lmeasure make before computing: the computation itself is stubbed"""
    H = mir_eval.hierarchy
    saved = (H._lca, H._meet, H._gauc)
    H._lca = lambda *a, **k: None
    H._meet = lambda *a, **k: None
    H._gauc = lambda *a, **k: 0.0
    try:
        yield
    finally:
        H._lca, H._meet, H._gauc = saved


def _tmeasure(fs, w, r, e):
    with _only_checks():
        mir_eval.hierarchy.tmeasure([to_np(a) for a in r], [to_np(a) for a in e],
                                    window=None if w is None else _f(w), frame_size=_f(fs))


def _lmeasure(fs, r, e):
    with _only_checks():
        def labs(h):
            return [["l"] * (int(a[0][0]) if a[0] else 0) for a in h]
        mir_eval.hierarchy.lmeasure([to_np(a) for a in r], labs(r), [to_np(a) for a in e], labs(e), frame_size=_f(fs))


def _patterns(p):
    return [[[tuple(_f(x) for x in om) for om in occ] for occ in pat] for pat in p]


def _labels(prefix, n):
    return ["%s%d" % (prefix, i) for i in range(int(n))]


# op -> the real call, from the protocol-level ("real") arguments of a case
REAL = {
    "util.validate_events": lambda a, m: mir_eval.util.validate_events(to_np(a), _f(m)),
    "util.validate_intervals": lambda a: mir_eval.util.validate_intervals(to_np(a)),
    "util.validate_frequencies": lambda a, mx, mn, neg: mir_eval.util.validate_frequencies(to_np(a), _f(mx), _f(mn), neg),
    "beat.validate": lambda r, e: mir_eval.beat.validate(to_np(r), to_np(e)),
    "onset.validate": lambda r, e: mir_eval.onset.validate(to_np(r), to_np(e)),
    "tempo.validate_tempi": lambda t, ref: mir_eval.tempo.validate_tempi(to_np(t), reference=ref),
    "tempo.validate": lambda r, w, e: mir_eval.tempo.validate(to_np(r), _f(w), to_np(e)),
    "tempo.detection": lambda r, w, e, tol: mir_eval.tempo.detection(to_np(r), _f(w), to_np(e), _f(tol)),
    "key.validate_key": lambda k: mir_eval.key.validate_key(k),
    "key.validate": lambda r, e: mir_eval.key.validate(r, e),
    "alignment.validate": lambda r, e: mir_eval.alignment.validate(to_np(r), to_np(e)),
    "multipitch.validate": lambda rt, rf, et, ef: mir_eval.multipitch.validate(
        to_np(rt), [to_np(f) for f in rf], to_np(et), [to_np(f) for f in ef]),
    "melody.validate_voicing": lambda r, e: mir_eval.melody.validate_voicing(to_np(r), to_np(e)),
    "melody.validate": lambda a, b, c, d: mir_eval.melody.validate(to_np(a), to_np(b), to_np(c), to_np(d)),
    "transcription.validate_intervals": lambda r, e: mir_eval.transcription.validate_intervals(to_np(r), to_np(e)),
    "transcription.validate": lambda a, b, c, d: mir_eval.transcription.validate(to_np(a), to_np(b), to_np(c), to_np(d)),
    "transcription_velocity.validate": lambda *xs: mir_eval.transcription_velocity.validate(*[to_np(x) for x in xs]),
    "pattern.validate": lambda r, e: mir_eval.pattern.validate(_patterns(r), _patterns(e)),
    "segment.validate_boundary": lambda r, e, trim: mir_eval.segment.validate_boundary(to_np(r), to_np(e), trim),
    "segment.validate_structure": lambda ri, nr, ei, ne: mir_eval.segment.validate_structure(
        to_np(ri), _labels("r", nr), to_np(ei), _labels("e", ne)),
    "hierarchy.validate_hier_intervals": lambda h: mir_eval.hierarchy.validate_hier_intervals([to_np(a) for a in h]),
    "hierarchy.tmeasure": _tmeasure,
    "hierarchy.lmeasure": _lmeasure,
    # real arguments differ from the model's: the labels / comparison scores / sample data themselves
    "chord.validate": lambda r, e: mir_eval.chord.validate(list(r), list(e)),
    "chord.weighted_accuracy": lambda comp, w: mir_eval.chord.weighted_accuracy(np.array([_f(c) for c in comp]), to_np(w)),
    "separation.validate": lambda r, e: mir_eval.separation.validate(to_np(r), to_np(e)),
}


def run_real(op, real_args):
    """run the real validator; only the exception behaviour is observed"""
    REAL[op](*real_args)
    return None


def mk(op, args, tag, nontrivial=True, real=None):
    """one case: `args` go to the model; the real code gets `real` (default: the very same descriptors)"""
    real = args if real is None else real
    return Case("validate." + op, args, lambda: run_real(op, real), tag=tag,
                info={"op": op, "real": real, "stream": tag}, nontrivial=bool(nontrivial))


def count(tier, quick, thorough=None):
    """iterations per shard: the thorough tier runs 6x the quick count on 16 instead of 8 shards"""
    return quick if tier == "quick" else 6 * quick


# ---------------------------------------------------------------------------------------------
# events

def ev_valid(rng, nmin=0, nmax=6, top=MAX_TIME):
    n = rng.randint(nmin, nmax)
    out = []
    for _ in range(n):
        u = rng.random()
        if out and u < 0.2:
            out.append(rng.choice(out))                 # duplicate times are valid
        elif u < 0.3:
            out.append(top)                             # exactly max_time is valid
        elif u < 0.4:
            out.append(Fr(0))
        else:
            out.append(min(top, lat(rng)))
    return vec(sorted(out))


def ev_unsorted(rng, top=MAX_TIME):
    while True:
        a = ev_valid(rng, 2, 6, top)
        d = a.data
        idx = [i for i in range(len(d) - 1) if d[i] != d[i + 1]]
        if idx:
            i = rng.choice(idx)
            d[i], d[i + 1] = d[i + 1], d[i]
            return vec(d)


def ev_ndim(rng, top=MAX_TIME):
    a = ev_valid(rng, 1, 6, top)
    n = len(a)
    k = rng.choice(["col", "row", "0d", "3d", "2xk"])
    if k == "col":
        return a.reshape((n, 1))
    if k == "row":
        return a.reshape((1, n))
    if k == "3d":
        return a.reshape((1, n, 1))
    if k == "2xk" and n % 2 == 0:
        return a.reshape((2, n // 2))
    return scalar(a.data[0])


def ev_huge(rng, top=MAX_TIME):
    a = ev_valid(rng, 0, 5, top)
    d = a.data + [top + rng.choice([Fr(1, LAT), Fr(1), Fr(10 ** 6)])]
    return vec(sorted(d))


EV_FAULTS = {"unsorted": ev_unsorted, "multi-dimensional": ev_ndim, "too-large": ev_huge}


def suite_util_events(rng, tier, shard, nshards):
    n = count(tier, 40, 1500)
    for _ in range(n):
        top = rng.choice([MAX_TIME, Fr(64), Fr(8)])
        for tag, g in [("valid", ev_valid)] + [("fault:" + k, f) for k, f in EV_FAULTS.items()]:
            a = g(rng, top=top)
            yield mk("util.validate_events", [a.enc(), top], tag, bool(a.data))
        # two faults at once (the first failing check wins)
        a = ev_unsorted(rng, top)
        a = A(a.shape, a.data[:-1] + [top + 1]).reshape((len(a), 1))
        yield mk("util.validate_events", [a.enc(), top], "fault:several")


def suite_beat_onset(rng, tier, shard, nshards):
    n = count(tier, 30, 1000)
    for _ in range(n):
        for mod in ("beat", "onset"):
            streams = [("valid", ev_valid, ev_valid)]
            for k, f in EV_FAULTS.items():
                streams.append(("fault:ref-" + k, f, ev_valid))
                streams.append(("fault:est-" + k, ev_valid, f))
            for tag, gr, ge in streams:
                r, e = gr(rng), ge(rng)
                yield mk(mod + ".validate", [r.enc(), e.enc()], mod + " " + tag, bool(r.data or e.data))


# ---------------------------------------------------------------------------------------------
# intervals

def iv_valid(rng, nmin=0, nmax=5):
    """arbitrary (possibly overlapping, unordered) intervals with positive durations"""
    rows = []
    for _ in range(rng.randint(nmin, nmax)):
        s = Fr(0) if rng.random() < 0.25 else lat(rng, 0, 32)
        rows.append((s, s + Fr(rng.randint(1, 8 * LAT), LAT)))
    return mat2(rows)


def seg_valid(rng, end=None, nmin=1, nmax=5, start=Fr(0)):
    """a segmentation: contiguous intervals from `start` to `end`"""
    if end is None:
        end = lat(rng, 1, 32)
    n = rng.randint(nmin, nmax)
    cuts = set()
    for _ in range(n - 1):
        c = start + (end - start) * Fr(rng.randint(1, 31), 32)
        cuts.add(c)
    b = [start] + sorted(cuts) + [end]
    return mat2([(b[i], b[i + 1]) for i in range(len(b) - 1)])


def iv_negative(rng, base=iv_valid):
    a = base(rng, nmin=1)
    rows = [list(a.data[2 * i:2 * i + 2]) for i in range(len(a) // 2)]
    i = rng.randrange(len(rows))
    if rng.random() < 0.5:
        rows[i][0] = -Fr(rng.randint(1, 64), LAT)          # start < 0 <= end: duration stays positive
    else:
        rows[i] = [-Fr(2), -Fr(1)]                          # wholly negative, positive duration
    return mat2(rows)


def iv_duration(rng, base=iv_valid):
    a = base(rng, nmin=1)
    rows = [list(a.data[2 * i:2 * i + 2]) for i in range(len(a) // 2)]
    i = rng.randrange(len(rows))
    if rng.random() < 0.5:
        rows[i][1] = rows[i][0]                             # zero duration
    else:
        rows[i] = [rows[i][1], rows[i][0]]                  # negative duration, times stay >= 0
    return mat2(rows)


def iv_shape(rng, base=iv_valid, zero_d=True):
    a = base(rng, nmin=1)
    n = len(a) // 2
    k = rng.choice(["nx3", "flat", "3d", "empty1d", "nx1", "2xn", "nx4"] + (["0d"] if zero_d else []))
    if k == "nx3":
        d = []
        for i in range(n):
            d += [a.data[2 * i], a.data[2 * i + 1], a.data[2 * i + 1] + 1]
        return A((n, 3), d)
    if k == "flat":
        return A((2 * n,), a.data)
    if k == "3d":
        return A((n, 2, 1), a.data)
    if k == "empty1d":
        return A((0,), [])
    if k == "0d":
        return scalar(a.data[1])
    if k == "nx1":
        return A((2 * n, 1), a.data)
    if k == "nx4" and n % 2 == 0:
        return A((n // 2, 4), a.data)
    if n != 2:
        return A((2, n), a.data)
    return A((n, 2, 1), a.data)


IV_FAULTS = {"negative": iv_negative, "non-positive-duration": iv_duration, "not-n-by-2": iv_shape}
# where `len(intervals)` is taken before anything else a 0-d array raises TypeError: kept out of the fault stream
# (it is sent separately as a `shape:` case, which makes no claim)
IV_FAULTS_SIZED = dict(IV_FAULTS)
IV_FAULTS_SIZED["not-n-by-2"] = lambda rng, base=iv_valid: iv_shape(rng, base, zero_d=False)


def suite_util_intervals(rng, tier, shard, nshards):
    n = count(tier, 50, 2000)
    for _ in range(n):
        for tag, g in [("valid", iv_valid), ("valid-segmentation", seg_valid)] + \
                [("fault:" + k, f) for k, f in IV_FAULTS.items()]:
            a = g(rng)
            yield mk("util.validate_intervals", [a.enc()], tag, bool(a.data))
        a = A((0, 2), [])
        yield mk("util.validate_intervals", [a.enc()], "valid-empty", False)


def _two_sided(rng, valid, faults):
    """(tag, ref, est) for the valid stream and every single fault on either side"""
    out = [("valid", valid(rng), valid(rng))]
    for k, f in faults.items():
        out.append(("fault:ref-" + k, f(rng), valid(rng)))
        out.append(("fault:est-" + k, valid(rng), f(rng)))
    return out


def suite_interval_pairs(rng, tier, shard, nshards):
    """transcription.validate_intervals and segment.validate_boundary"""
    n = count(tier, 25, 800)
    for _ in range(n):
        for tag, r, e in _two_sided(rng, iv_valid, IV_FAULTS):
            yield mk("transcription.validate_intervals", [r.enc(), e.enc()], "transcription " + tag, bool(r.data or e.data))
        for tag, r, e in _two_sided(rng, seg_valid, IV_FAULTS_SIZED) + \
                [("shape:0d-ref", scalar(lat(rng)), seg_valid(rng)), ("shape:0d-est", seg_valid(rng), scalar(lat(rng)))]:
            trim = rng.random() < 0.5
            yield mk("segment.validate_boundary", [r.enc(), e.enc(), trim], "boundary " + tag)
        # an estimate that starts earlier / runs longer than the reference is valid for validate_boundary
        r, e = seg_valid(rng), seg_valid(rng, start=Fr(1, 4))
        yield mk("segment.validate_boundary", [r.enc(), e.enc(), False], "boundary valid-misaligned")


# ---------------------------------------------------------------------------------------------
# frequencies

def fq_valid(rng, nmin=0, nmax=5):
    out = []
    for _ in range(rng.randint(nmin, nmax)):
        u = rng.random()
        if u < 0.15:
            out.append(MIN_FREQ)
        elif u < 0.3:
            out.append(MAX_FREQ)
        else:
            out.append(Fr(rng.randint(20 * 8, 5000 * 8), 8))
    return vec(out)


def fq_high(rng):
    a = fq_valid(rng)
    d = a.data + [MAX_FREQ + rng.choice([Fr(1, 8), Fr(1000)])]
    rng.shuffle(d)
    return vec(d)


def fq_low(rng):
    a = fq_valid(rng)
    d = a.data + [rng.choice([Fr(0), MIN_FREQ - Fr(1, 8), Fr(1)])]
    rng.shuffle(d)
    return vec(d)


def fq_ndim(rng):
    a = fq_valid(rng, nmin=1)
    k = rng.choice(["col", "row", "0d"])
    if k == "col":
        return a.reshape((len(a), 1))
    if k == "row":
        return a.reshape((1, len(a)))
    return scalar(a.data[0])


def fq_negative(rng):
    """negative values whose magnitude is in range"""
    a = fq_valid(rng, nmin=1)
    d = list(a.data)
    i = rng.randrange(len(d))
    d[i] = -d[i]
    return vec(d)


FQ_FAULTS = {"too-high": fq_high, "too-low": fq_low, "multi-dimensional": fq_ndim}


def suite_util_frequencies(rng, tier, shard, nshards):
    n = count(tier, 40, 1500)

    def one(a, neg, tag):
        return mk("util.validate_frequencies", [a.enc(), MAX_FREQ, MIN_FREQ, neg], tag, bool(a.data))
    for _ in range(n):
        for neg in (False, True):
            yield one(fq_valid(rng), neg, "valid allow_negatives=%s" % neg)
            for k, f in FQ_FAULTS.items():
                yield one(f(rng), neg, "fault:%s allow_negatives=%s" % (k, neg))
        yield one(fq_negative(rng), True, "valid negative allow_negatives=True")
        # known quirk (mirrored by the model): negatives pass although allow_negatives=False
        yield one(fq_negative(rng), False, "quirk:negative-accepted allow_negatives=False")
        a = fq_negative(rng)
        yield one(vec([x * 1000 for x in a.data]), True, "fault:negative-too-high allow_negatives=True")


# ---------------------------------------------------------------------------------------------
# tempo

def tp_valid(rng, reference=True):
    while True:
        d = [rng.choice([Fr(0), Fr(60), Fr(rng.randint(1, 400 * 4), 4)]) for _ in range(2)]
        if not reference or any(x != 0 for x in d):
            break
    return A(rng.choice([(2,), (2,), (2,), (2, 1), (1, 2)]), d)


def tp_size(rng, reference=True):
    n = rng.choice([0, 1, 3, 4])
    return vec([Fr(rng.randint(1, 400)) for _ in range(n)])


def tp_negative(rng, reference=True):
    a = tp_valid(rng, reference)
    d = list(a.data)
    i = rng.randrange(2)
    d[i] = -Fr(rng.randint(1, 400 * 4), 4)
    if reference and d[1 - i] == 0:
        d[1 - i] = Fr(60)
    return A(a.shape, d)


def tp_zero(rng, reference=True):
    return A(rng.choice([(2,), (2, 1)]), [0, 0])


def _weight(rng):
    return rng.choice([Fr(0), Fr(1), Fr(1, 2), Fr(rng.randint(0, 32), 32)])


def _bad_unit(rng):
    return rng.choice([-Fr(1, 32), Fr(33, 32), Fr(-5), Fr(2)])


def suite_tempo(rng, tier, shard, nshards):
    n = count(tier, 40, 1500)
    for _ in range(n):
        for ref in (True, False):
            streams = [("valid", tp_valid), ("fault:wrong-size", tp_size), ("fault:negative", tp_negative)]
            streams.append(("fault:all-zero-reference", tp_zero) if ref else ("valid all-zero-estimate", tp_zero))
            for tag, g in streams:
                a = g(rng, ref)
                yield mk("tempo.validate_tempi", [a.enc(), ref], "tempi %s reference=%s" % (tag, ref))
        # validate / detection: one fault at a time in (ref tempi, weight, est tempi, tol)
        parts = [("valid", None)]
        for side in ("ref", "est"):
            parts += [("fault:%s-wrong-size" % side, (side, tp_size)), ("fault:%s-negative" % side, (side, tp_negative))]
        parts += [("fault:ref-all-zero", ("ref", tp_zero)), ("valid est-all-zero", ("est", tp_zero)),
                  ("fault:weight-out-of-range", ("w", None)), ("fault:tolerance-out-of-range", ("tol", None))]
        for tag, fault in parts:
            r, e, w, tol = tp_valid(rng, True), tp_valid(rng, False), _weight(rng), _weight(rng)
            if fault:
                where, g = fault
                if where == "ref":
                    r = g(rng, True)
                elif where == "est":
                    e = g(rng, False)
                elif where == "w":
                    w = _bad_unit(rng)
                else:
                    tol = _bad_unit(rng)
            if where_is_not_tol(fault):
                yield mk("tempo.validate", [r.enc(), w, e.enc()], "fn " + tag)
            # detection goes on to compute: two-valued arrays are sent 1-d (validate_tempi checks the size only, so
            # a (1,2) / (2,1) array passes the checks and then fails inside the computation)
            r1 = vec(r.data) if len(r) == 2 else r
            e1 = vec(e.data) if len(e) == 2 else e
            yield mk("tempo.detection", [r1.enc(), w, e1.enc(), tol], "detection " + tag)


def where_is_not_tol(fault):
    return not (fault and fault[0] == "tol")


# ---------------------------------------------------------------------------------------------
# key

TONICS = ["c", "c#", "db", "d", "d#", "eb", "e", "f", "f#", "gb", "g", "g#", "ab", "a", "a#", "bb", "b"]
MODES = ["major", "minor", "other"]
SPACES = [" ", "  ", "\t", "\n", " \t ", "\x0b", "\x0c", "\r", "\x1c", "\x1d", "\x1e", "\x1f"]
BAD_TONICS = ["h", "c##", "cb", "e#", "fb", "b#", "do", "1", "c-", "#", "xx", ""]
BAD_MODES = ["Major", "MINOR", "maj", "min", "m", "dorian", "majo", "majorr", "Other", "x", ""]


def _case_mix(rng, s):
    return "".join(c.upper() if rng.random() < 0.5 else c for c in s)


def key_valid(rng):
    if rng.random() < 0.1:
        return rng.choice(["x", "X"])
    pad = (lambda: rng.choice(["", "", "", " ", "\t", "\n "]))
    return pad() + _case_mix(rng, rng.choice(TONICS)) + rng.choice(SPACES) + rng.choice(MODES) + pad()


def key_bad_tonic(rng):
    t = rng.choice([x for x in BAD_TONICS if x])
    return _case_mix(rng, t) + rng.choice(SPACES) + rng.choice(MODES)


def key_bad_mode(rng):
    m = rng.choice([x for x in BAD_MODES if x])
    return _case_mix(rng, rng.choice(TONICS)) + rng.choice(SPACES) + m


def key_bad_form(rng):
    k = rng.choice(["one", "three", "empty", "spaces", "x-mode", "x-padded", "glued", "xx"])
    if k == "one":
        return rng.choice(TONICS + MODES)
    if k == "three":
        return "%s %s %s" % (rng.choice(TONICS), rng.choice(MODES), rng.choice(MODES + TONICS))
    if k == "empty":
        return ""
    if k == "spaces":
        return rng.choice(SPACES)
    if k == "x-mode":
        return _case_mix(rng, "x") + " " + rng.choice(MODES)
    if k == "x-padded":
        return rng.choice([" x", "x ", "\tX", "X\n"])
    if k == "glued":
        return rng.choice(TONICS) + rng.choice(MODES)
    return "x x"


def key_random(rng):
    toks = TONICS + MODES + BAD_TONICS + BAD_MODES + ["x", "X"]
    n = rng.randint(0, 3)
    s = rng.choice(["", "", " "])
    for i in range(n):
        s += _case_mix(rng, rng.choice(toks)) if rng.random() < 0.5 else rng.choice(toks)
        s += rng.choice(SPACES + [""]) if i < n - 1 else rng.choice(["", "", " "])
    return s


KEY_FAULTS = {"unknown-tonic": key_bad_tonic, "unknown-mode": key_bad_mode, "malformed": key_bad_form}


def suite_key(rng, tier, shard, nshards):

    def one(s, tag):
        return mk("key.validate_key", [s], tag)
    # exhaustive: every tonic (and 'x', and bad tonics) x every mode (and bad modes), both letter cases
    idx = 0
    for t in TONICS + ["x"] + BAD_TONICS:
        for m in MODES + BAD_MODES:
            for up in (False, True):
                idx += 1
                if idx % nshards != shard:
                    continue
                s = (t.upper() if up else t) + " " + m
                yield one(s, "table")
    n = count(tier, 30, 1500)
    for _ in range(n):
        yield one(key_valid(rng), "valid")
        for k, f in KEY_FAULTS.items():
            yield one(f(rng), "fault:" + k)
        yield one(key_random(rng), "random-tokens")
        streams = [("valid", key_valid, key_valid)]
        for k, f in KEY_FAULTS.items():
            streams += [("fault:ref-" + k, f, key_valid), ("fault:est-" + k, key_valid, f)]
        for tag, gr, ge in streams:
            r, e = gr(rng), ge(rng)
            yield mk("key.validate", [r, e], "pair " + tag)


# ---------------------------------------------------------------------------------------------
# alignment

def al_valid(rng, n=None):
    n = rng.randint(1, 6) if n is None else n
    out = []
    for _ in range(n):
        u = rng.random()
        out.append(rng.choice(out) if (out and u < 0.2) else (Fr(0) if u < 0.3 else lat(rng)))
    return vec(sorted(out))


def al_unsorted(rng, n):
    while True:
        d = al_valid(rng, n).data
        idx = [i for i in range(n - 1) if d[i] != d[i + 1]]
        if idx:
            i = rng.choice(idx)
            d[i], d[i + 1] = d[i + 1], d[i]
            return vec(d)


def al_negative(rng, n):
    d = al_valid(rng, n).data
    k = rng.randint(1, n)
    d = [-(x + Fr(1, LAT)) for x in reversed(d[:k])] + d[k:]     # stays sorted
    return vec(d)


def al_ndim(rng, n):
    a = al_valid(rng, n)
    return rng.choice([a.reshape((n, 1)), a.reshape((1, n)), scalar(a.data[0])])


def suite_alignment(rng, tier, shard, nshards):
    n = count(tier, 30, 1000)

    def one(r, e, tag):
        return mk("alignment.validate", [r.enc(), e.enc()], tag)
    for _ in range(n):
        k = rng.randint(2, 6)
        yield one(al_valid(rng, k), al_valid(rng, k), "valid")
        yield one(al_valid(rng, 1), al_valid(rng, 1), "valid-single")
        for nm, f in (("unsorted", al_unsorted), ("negative", al_negative), ("multi-dimensional", al_ndim)):
            yield one(f(rng, k), al_valid(rng, k), "fault:ref-" + nm)
            yield one(al_valid(rng, k), f(rng, k), "fault:est-" + nm)
        yield one(vec([]), vec([]), "fault:empty")
        yield one(vec([]), al_valid(rng, k), "fault:empty-ref")
        yield one(al_valid(rng, k), al_valid(rng, k + rng.choice([-1, 1, 2])), "fault:unequal-length")
        yield one(al_valid(rng, k), vec([]), "fault:unequal-length")


# ---------------------------------------------------------------------------------------------
# multipitch

def mp_valid(rng):
    t = ev_valid(rng, 0, 5)
    return t, [fq_valid(rng, 0, 3) for _ in range(len(t))]


def suite_multipitch(rng, tier, shard, nshards):
    n = count(tier, 25, 800)

    def one(rt, rf, et, ef, tag):
        return mk("multipitch.validate", [rt.enc(), [f.enc() for f in rf], et.enc(), [f.enc() for f in ef]], tag, bool(rt.data or et.data))
    for _ in range(n):
        (rt, rf), (et, ef) = mp_valid(rng), mp_valid(rng)
        yield one(rt, rf, et, ef, "valid")
        for side in ("ref", "est"):
            for k, f in EV_FAULTS.items():
                (rt, rf), (et, ef) = mp_valid(rng), mp_valid(rng)
                bad = f(rng)
                fr = [fq_valid(rng, 0, 2) for _ in range(len(bad))]
                if side == "ref":
                    rt, rf = bad, fr
                else:
                    et, ef = bad, fr
                yield one(rt, rf, et, ef, "fault:%s-time-%s" % (side, k))
            (rt, rf), (et, ef) = mp_valid(rng), mp_valid(rng)
            if side == "ref":
                rf = rf + [fq_valid(rng)] if (rng.random() < 0.5 or not rf) else rf[:-1]
            else:
                ef = ef + [fq_valid(rng)] if (rng.random() < 0.5 or not ef) else ef[:-1]
            yield one(rt, rf, et, ef, "fault:%s-unequal-length" % side)
            for k, f in list(FQ_FAULTS.items()) + [("negative(quirk:accepted)", fq_negative)]:
                while True:
                    (rt, rf), (et, ef) = mp_valid(rng), mp_valid(rng)
                    tgt = rf if side == "ref" else ef
                    if tgt:
                        break
                tgt[rng.randrange(len(tgt))] = f(rng)
                yield one(rt, rf, et, ef, ("quirk:" if "quirk" in k else "fault:") + "%s-frequency-%s" % (side, k))


# ---------------------------------------------------------------------------------------------
# melody

def vo_valid(rng, n):
    return vec([rng.choice([Fr(0), Fr(1), Fr(rng.randint(0, 8), 8)]) for _ in range(n)])


def cents(rng, n):
    return vec([rng.choice([Fr(0), Fr(rng.randint(1000 * 4, 8000 * 4), 4)]) for _ in range(n)])


def suite_melody(rng, tier, shard, nshards):
    n = count(tier, 30, 1000)

    def v2(r, e, tag):
        return mk("melody.validate_voicing", [r.enc(), e.enc()], "voicing " + tag, bool(r.data))

    def v4(a, b, c, d, tag):
        return mk("melody.validate", [a.enc(), b.enc(), c.enc(), d.enc()], "fn " + tag, bool(a.data))
    for _ in range(n):
        k = rng.randint(0, 6)
        yield v2(vo_valid(rng, k), vo_valid(rng, k), "valid")
        yield v2(vo_valid(rng, k), vo_valid(rng, k + rng.choice([1, 2])), "fault:unequal-length")
        yield v2(vo_valid(rng, k + 1), vo_valid(rng, k), "fault:unequal-length")
        for side in (0, 1):
            for bad, nm in ((-Fr(1, 8), "below-0"), (Fr(9, 8), "above-1"), (Fr(-3), "below-0"), (Fr(2), "above-1")):
                vs = [vo_valid(rng, k + 1), vo_valid(rng, k + 1)]
                d = list(vs[side].data)
                d[rng.randrange(k + 1)] = bad
                vs[side] = vec(d)
                yield v2(vs[0], vs[1], "fault:%s-voicing-%s" % ("ref" if side == 0 else "est", nm))
        # shapes: 0-d raises IndexError; 2-d with equal first axis is accepted
        yield v2(scalar(1), vo_valid(rng, 1), "shape:0d-ref")
        yield v2(vo_valid(rng, 1), scalar(0), "shape:0d-est")
        yield v2(vo_valid(rng, k + 1).reshape((k + 1, 1)), vo_valid(rng, k + 1), "shape:2d-accepted")
        yield v2(vo_valid(rng, k + 1).reshape((1, k + 1)), vo_valid(rng, k + 1), "shape:2d-row")
        yield v4(vo_valid(rng, k), cents(rng, k), vo_valid(rng, k), cents(rng, k), "valid")
        for pos in range(4):
            arrs = [vo_valid(rng, k + 1), cents(rng, k + 1), vo_valid(rng, k + 1), cents(rng, k + 1)]
            arrs[pos] = (vo_valid if pos % 2 == 0 else cents)(rng, k + rng.choice([0, 2, 3]))
            yield v4(*arrs, tag="fault:unequal-length-%d" % pos)
            arrs = [vo_valid(rng, k + 1), cents(rng, k + 1), vo_valid(rng, k + 1), cents(rng, k + 1)]
            arrs[pos] = scalar(1)
            yield v4(*arrs, tag="shape:0d-%d" % pos)
            # `or` short-circuits: a length mismatch on the reference side hides a 0-d estimate
            arrs = [vo_valid(rng, k + 1), cents(rng, k + 2), vo_valid(rng, k + 1), cents(rng, k + 1)]
            arrs[pos] = scalar(1)
            yield v4(*arrs, tag="shape:0d-and-mismatch-%d" % pos)


# ---------------------------------------------------------------------------------------------
# transcription (+ velocity)

def notes_valid(rng, nmin=0, nmax=4):
    iv = iv_valid(rng, nmin, nmax)
    n = len(iv) // 2
    p = vec([Fr(rng.randint(20 * 4, 5000 * 4), 4) for _ in range(n)])
    v = vec([rng.choice([Fr(0), Fr(127), Fr(rng.randint(0, 127))]) for _ in range(n)])
    return iv, p, v


def suite_transcription(rng, tier, shard, nshards):
    n = count(tier, 20, 700)

    def t4(ri, rp, ei, ep, tag):
        return mk("transcription.validate", [ri.enc(), rp.enc(), ei.enc(), ep.enc()], "notes " + tag, bool(ri.data or ei.data))

    def t6(ri, rp, rv, ei, ep, ev, tag):
        return mk("transcription_velocity.validate", [ri.enc(), rp.enc(), rv.enc(), ei.enc(), ep.enc(), ev.enc()], "velocity " + tag, bool(ri.data or ei.data))

    def both(r, e, tag):
        yield t4(r[0], r[1], e[0], e[1], tag)
        yield t6(r[0], r[1], r[2], e[0], e[1], e[2], tag)

    def corrupt(rng, kind):
        iv, p, v = notes_valid(rng, 1, 4)
        n = len(p)
        if kind in IV_FAULTS:
            iv2 = IV_FAULTS[kind](rng)
            m = iv2.shape[0] if iv2.shape else 0
            p = vec([Fr(440)] * m)
            v = vec([Fr(64)] * m)
            return iv2, p, v
        if kind == "pitch-length":
            p = vec(p.data + [Fr(440)]) if rng.random() < 0.5 else vec(p.data[:-1])
        elif kind == "non-positive-pitch":
            d = list(p.data)
            d[rng.randrange(n)] = rng.choice([Fr(0), -Fr(440), -Fr(1, 4)])
            p = vec(d)
        elif kind == "pitch-0d":
            p = scalar(440)
        elif kind == "pitch-2d":
            p = p.reshape((n, 1))
        return iv, p, v

    def corrupt_v(rng, kind):
        iv, p, v = notes_valid(rng, 1, 4)
        n = len(v)
        if kind == "velocity-length":
            v = vec(v.data + [Fr(64)]) if rng.random() < 0.5 else vec(v.data[:-1])
        elif kind == "negative-velocity":
            d = list(v.data)
            d[rng.randrange(n)] = rng.choice([-Fr(1), -Fr(1, 4)])
            v = vec(d)
        elif kind == "velocity-0d":
            v = scalar(64)
        return iv, p, v

    for _ in range(n):
        yield from both(notes_valid(rng), notes_valid(rng), "valid")
        yield from both(notes_valid(rng, 0, 0), notes_valid(rng), "valid-empty-ref")
        yield from both(notes_valid(rng), notes_valid(rng, 0, 0), "valid-empty-est")
        for kind, cls in [(k, "fault") for k in IV_FAULTS] + [("pitch-length", "fault"), ("non-positive-pitch", "fault"),
                                                              ("pitch-0d", "shape"), ("pitch-2d", "shape")]:
            yield from both(corrupt(rng, kind), notes_valid(rng), "%s:ref-%s" % (cls, kind))
            yield from both(notes_valid(rng), corrupt(rng, kind), "%s:est-%s" % (cls, kind))
        for kind, cls in (("velocity-length", "fault"), ("negative-velocity", "fault"), ("velocity-0d", "shape")):
            r, e = corrupt_v(rng, kind), notes_valid(rng)
            yield t6(r[0], r[1], r[2], e[0], e[1], e[2], "%s:ref-%s" % (cls, kind))
            r, e = notes_valid(rng), corrupt_v(rng, kind)
            yield t6(r[0], r[1], r[2], e[0], e[1], e[2], "%s:est-%s" % (cls, kind))


# ---------------------------------------------------------------------------------------------
# pattern

def pat_valid(rng, allow_empty=True):
    pats = []
    for _ in range(rng.randint(0 if allow_empty else 1, 3)):
        occs = []
        for _ in range(rng.randint(1, 3)):
            occs.append([[lat(rng, 0, 16), Fr(rng.randint(40, 90))] for _ in range(rng.randint(0, 3))])
        pats.append(occs)
    return pats


def pat_no_occurrence(rng):
    p = pat_valid(rng)
    p.insert(rng.randint(0, len(p)), [])
    return p


def pat_tuple(rng):
    while True:
        p = pat_valid(rng, False)
        slots = [(i, j, k) for i, pt in enumerate(p) for j, oc in enumerate(pt) for k in range(len(oc))]
        if slots:
            break
    i, j, k = rng.choice(slots)
    t = p[i][j][k]
    p[i][j][k] = rng.choice([t + [Fr(1)], t[:1], [], t + [Fr(1), Fr(2)]])
    return p


def suite_pattern(rng, tier, shard, nshards):
    n = count(tier, 40, 1500)

    def one(r, e, tag):
        return mk("pattern.validate", [r, e], tag, bool(r or e))
    for _ in range(n):
        yield one(pat_valid(rng), pat_valid(rng), "valid")
        yield one([], pat_valid(rng), "valid-empty-ref")
        yield one(pat_valid(rng), [], "valid-empty-est")
        for nm, f in (("pattern-without-occurrence", pat_no_occurrence), ("not-a-2-tuple", pat_tuple)):
            yield one(f(rng), pat_valid(rng), "fault:ref-" + nm)
            yield one(pat_valid(rng), f(rng), "fault:est-" + nm)


# ---------------------------------------------------------------------------------------------
# segment.validate_structure / hierarchy

ATOL = Fr(1, 10 ** 8)
RTOL = Fr(1, 10 ** 5)


def close_margin_ok(a, b):
    """|a-b| is not within 1e-12 of the allclose threshold (so binary64 decides like the rationals)"""
    return abs(abs(a - b) - (ATOL + RTOL * abs(b))) > Fr(1, 10 ** 12)


def st_valid(rng, end=None, nearly=True):
    """a segmentation from (about) 0 to `end`; returns (intervals, number of labels)"""
    if end is None:
        end = lat(rng, 1, 32)
    start = rng.choice([Fr(0), Fr(0), Fr(0), Fr(1, 2 ** 30)]) if nearly else Fr(0)     # 9.3e-10 <= atol: accepted
    a = seg_valid(rng, end=end, start=start)
    return a, len(a) // 2


def st_start(rng, end=None):
    if end is None:
        end = lat(rng, 2, 32)
    start = rng.choice([Fr(1, 2 ** 26), Fr(1, LAT), Fr(1), Fr(1, 2 ** 20)])             # 1.5e-8 > atol: rejected
    a = seg_valid(rng, end=end, start=start)
    return a, len(a) // 2


def st_labels(rng, end=None):
    a, n = st_valid(rng, end)
    return a, rng.choice([n + 1, n - 1, 0 if n != 0 else 2])


def suite_structure(rng, tier, shard, nshards):
    n = count(tier, 30, 1000)

    def one(r, e, tag):
        (ri, nr), (ei, ne) = r, e
        if ri.data and ei.data:
            assert close_margin_ok(max(ri.data), max(ei.data))
        return mk("segment.validate_structure", [ri.enc(), nr, ei.enc(), ne], tag)
    empty = (A((0, 2), []), 0)
    for _ in range(n):
        end = lat(rng, 2, 32)
        yield one(st_valid(rng, end), st_valid(rng, end), "valid")
        # ends that differ by less than atol + rtol*|est end| are accepted; by more, rejected
        for delta, tag in ((Fr(1, 2 ** 17), "valid-end-within-tolerance"), (-Fr(1, 2 ** 17), "valid-end-within-tolerance"),
                           (Fr(1, 2 ** 9), "fault:ends-differ"), (-Fr(1, 2 ** 9), "fault:ends-differ"),
                           (Fr(1), "fault:ends-differ"), (-Fr(1, 4), "fault:ends-differ")):
            yield one(st_valid(rng, end), st_valid(rng, end + delta), tag)
        yield one(empty, st_valid(rng, end), "valid-empty-ref")
        yield one(st_valid(rng, end), empty, "valid-empty-est")
        yield one(empty, empty, "valid-empty-both")
        yield one(st_start(rng, end), st_valid(rng, end), "fault:ref-does-not-start-at-0")
        yield one(st_valid(rng, end), st_start(rng, end), "fault:est-does-not-start-at-0")
        yield one(empty, st_start(rng, end), "fault:est-does-not-start-at-0")
        yield one(st_labels(rng, end), st_valid(rng, end), "fault:ref-label-count")
        yield one(st_valid(rng, end), st_labels(rng, end), "fault:est-label-count")
        for k, f in IV_FAULTS.items():
            bad = f(rng)
            nb = bad.shape[0] if bad.shape else 0
            yield one((bad, nb), st_valid(rng, end), "fault:ref-" + k)
            bad = f(rng)
            nb = bad.shape[0] if bad.shape else 0
            yield one(st_valid(rng, end), (bad, nb), "fault:est-" + k)


def hier_valid(rng, end=None, nlev=None):
    if end is None:
        end = lat(rng, 2, 16)
    nlev = rng.randint(1, 3) if nlev is None else nlev
    return [st_valid(rng, end)[0] for _ in range(nlev)]


def hier_fault(rng, kind, end=None, nlev=None):
    """a hierarchy with >= 2 levels and one fault in one level"""
    if end is None:
        end = lat(rng, 2, 16)
    nlev = rng.randint(2, 3) if nlev is None else nlev
    h = hier_valid(rng, end, nlev)
    i = rng.randrange(nlev)
    if kind == "does-not-start-at-0":
        h[i] = st_start(rng, end)[0]
    elif kind == "ends-differ":
        h[i] = st_valid(rng, end + rng.choice([Fr(1), -Fr(1, 2), Fr(1, 2 ** 9)]))[0]
    else:
        h[i] = IV_FAULTS_SIZED[kind](rng, base=lambda rng, nmin=1: seg_valid(rng, end=end, nmin=nmin))
    return h


HIER_FAULTS = ["does-not-start-at-0", "ends-differ"] + list(IV_FAULTS)


def suite_hierarchy(rng, tier, shard, nshards):
    n = count(tier, 20, 600)

    def enc(h):
        return [a.enc() for a in h]

    def hv(h, tag):
        return mk("hierarchy.validate_hier_intervals", [enc(h)], "hier " + tag)

    def tm(fs, w, r, e, tag):
        return mk("hierarchy.tmeasure", [fs, w, enc(r), enc(e)], "tmeasure " + tag)

    def lm(fs, r, e, tag):
        return mk("hierarchy.lmeasure", [fs, enc(r), enc(e)], "lmeasure " + tag)

    frames = [Fr(1, 8), Fr(1, 4), Fr(1, 2), Fr(1), Fr(1, 10)]
    for _ in range(n):
        end = lat(rng, 2, 16)
        yield hv(hier_valid(rng, end), "valid")
        yield hv(hier_valid(rng, end, 1), "valid-single-level")
        yield hv([], "shape:no-levels")
        for kind in HIER_FAULTS:
            yield hv(hier_fault(rng, kind, end), "fault:" + kind)
        # known quirk (mirrored by the model): a one-level hierarchy is never looked at
        for kind in HIER_FAULTS:
            if kind == "ends-differ":
                continue
            lvl = st_start(rng, end)[0] if kind == "does-not-start-at-0" else IV_FAULTS_SIZED[kind](rng)
            yield hv([lvl], "quirk:single-level-unchecked-" + kind)
        h = hier_valid(rng, end, 2)
        h[rng.randrange(2)] = scalar(1)
        yield hv(h, "shape:0d-level")
        # tmeasure / lmeasure parameter checks
        fs = rng.choice(frames)
        w = rng.choice([None, fs, fs * 2, Fr(15), fs + Fr(1, 32)])
        yield tm(fs, w, hier_valid(rng, end), hier_valid(rng, end), "valid")
        yield lm(fs, hier_valid(rng, end), hier_valid(rng, end), "valid")
        bad_fs = rng.choice([Fr(0), -Fr(1, 4), -Fr(1, 10)])
        yield tm(bad_fs, w, hier_valid(rng, end), hier_valid(rng, end), "fault:frame-size-not-positive")
        yield lm(bad_fs, hier_valid(rng, end), hier_valid(rng, end), "fault:frame-size-not-positive")
        yield tm(fs, fs - rng.choice([Fr(1, 32), fs, fs * 2]), hier_valid(rng, end), hier_valid(rng, end),
                 "fault:frame-size-exceeds-window")
        for kind in HIER_FAULTS:
            good, bad = hier_valid(rng, end), hier_fault(rng, kind, end)
            if rng.random() < 0.5:
                yield tm(fs, w, bad, good, "fault:ref-" + kind)
                yield lm(fs, good, bad, "fault:est-" + kind)
            else:
                yield tm(fs, w, good, bad, "fault:est-" + kind)
                yield lm(fs, bad, good, "fault:ref-" + kind)


# ---------------------------------------------------------------------------------------------
# chord

GOOD_LABELS = ["N", "X", "C", "C:maj", "A:min", "G#:dim", "Bb:maj7", "D:min7/b3", "F#:sus4", "E:(1,3,5)", "C:maj(9)",
               "Ab:hdim7", "G:7/5", "C/3", "Db:aug", "B:min9", "E:maj6(*5)", "F:1", "A:5", "C##:maj", "Dbb:min"]
BAD_LABELS = ["", "H:maj", "C:foo", "c:maj", "C::maj", "C:maj/", "C:maj/x", "N:maj", "1:maj", "C:(1,3", "C:maj7/8x",
              "C maj", ":maj", "C:", "C:min/#", "Cmaj", "C:(h)"]


def suite_chord(rng, tier, shard, nshards):
    n = count(tier, 30, 1000)

    def labels(rng, k, bad_at=None):
        ls = [rng.choice(GOOD_LABELS) for _ in range(k)]
        ok = [True] * k
        if bad_at is not None:
            ls[bad_at] = rng.choice(BAD_LABELS)
            ok[bad_at] = False
        return ls, ok

    def one(r, e, tag):
        return mk("chord.validate", [r[1], e[1]], "fn " + tag, bool(r[0]), real=[r[0], e[0]])

    def wa(ncomp, w, tag):
        comp = [rng.choice([Fr(0), Fr(1), Fr(1, 2), Fr(-1)]) for _ in range(ncomp)]
        return mk("chord.weighted_accuracy", [ncomp, w.enc()], "weighted_accuracy " + tag, ncomp > 0,
                  real=[comp, w.enc()])

    # the two pools are what the Bool sent to the model claims they are
    for i, lab in enumerate(GOOD_LABELS + BAD_LABELS):
        if i % nshards == shard:
            ok = lab in GOOD_LABELS
            yield mk("chord.validate", [[ok], [True]], "fn pool", real=[[lab], ["N"]])
    for _ in range(n):
        k = rng.randint(0, 5)
        yield one(labels(rng, k), labels(rng, k), "valid")
        yield one(labels(rng, k), labels(rng, k + rng.choice([1, 2])), "fault:unequal-length")
        yield one(labels(rng, k + 1), labels(rng, k), "fault:unequal-length")
        yield one(labels(rng, k + 1, rng.randrange(k + 1)), labels(rng, k + 1), "fault:ref-malformed-label")
        yield one(labels(rng, k + 1), labels(rng, k + 1, rng.randrange(k + 1)), "fault:est-malformed-label")
        yield one(labels(rng, k + 1, rng.randrange(k + 1)), labels(rng, k + 2), "fault:several")
        wv = vec([rng.choice([Fr(0), Fr(rng.randint(0, 64), LAT)]) for _ in range(k)])
        yield wa(k, wv, "valid")
        yield wa(k, vec([0] * k), "valid-zero-weights")
        yield wa(k + rng.choice([1, 2]), wv, "fault:unequal-length")
        yield wa(k, vec(wv.data + [Fr(1)]), "fault:unequal-length")
        d = list(wv.data) + [Fr(1)]
        d[rng.randrange(len(d))] = -Fr(rng.randint(1, 64), LAT)
        yield wa(k + 1, vec(d), "fault:negative-weight")
        yield wa(1, scalar(1), "shape:0d-weights")


# ---------------------------------------------------------------------------------------------
# separation

def src_array(rng, shape, silent_at=None, cancel=False):
    """integer-valued sources; `silent_at` zeroes one source (or makes its channels cancel)"""
    n = 1
    for s in shape:
        n *= s
    x = np.array([rng.choice([-2, -1, 1, 2, 3]) for _ in range(n)], dtype=float).reshape(shape)
    if len(shape) >= 2 and n > 0:
        # no accidental silence: first sample of every source is made positive on every channel
        x[:, 0] = np.abs(x[:, 0])
        if rng.random() < 0.3:
            x[:, 1:] = 0                                   # a source with a single non-zero sample is not silent
    if silent_at is not None:
        if cancel and len(shape) == 3 and shape[2] >= 2:
            x[silent_at] = 0
            x[silent_at, :, 0] = 1
            x[silent_at, :, 1] = -1                         # channels cancel in np.sum(axis=2)
        else:
            x[silent_at] = 0
    return x


def silent_flags(x):
    """independent of _any_source_silent: a source is silent iff every (channel-summed) sample is zero"""
    if x.ndim < 1:
        return []
    out = []
    for i in range(x.shape[0]):
        s = x[i]
        if s.ndim >= 2:
            s = [sum(float(v) for v in np.ravel(row)) for row in s]
        else:
            s = [float(v) for v in np.ravel(s)]
        out.append(all(v == 0 for v in s))
    return out


def suite_separation(rng, tier, shard, nshards):
    n = count(tier, 25, 800)

    def one(r, e, tag):
        return mk("separation.validate", [[list(r.shape), silent_flags(r)], [list(e.shape), silent_flags(e)]], tag,
                  r.size > 0, real=[desc(r), desc(e)])

    def desc(x):
        return [list(x.shape), [Fr(int(v)) for v in np.ravel(x)]]

    def shape(rng):
        if rng.random() < 0.5:
            return (rng.randint(1, 4), rng.randint(1, 5))
        return (rng.randint(1, 3), rng.randint(1, 4), rng.randint(1, 2))
    for _ in range(n):
        sh = shape(rng)
        yield one(src_array(rng, sh), src_array(rng, sh), "valid")
        sh2 = list(sh)
        sh2[rng.randrange(len(sh2))] += rng.choice([1, 2])
        yield one(src_array(rng, sh), src_array(rng, tuple(sh2)), "fault:shapes-differ")
        yield one(src_array(rng, sh), src_array(rng, sh + (1,) if len(sh) == 2 else sh[:2]), "fault:shapes-differ")
        sh4 = (rng.randint(1, 2), rng.randint(1, 2), rng.randint(1, 2), rng.randint(1, 2))
        yield one(src_array(rng, sh4), src_array(rng, sh4), "fault:too-many-dimensions")
        i = rng.randrange(sh[0])
        yield one(src_array(rng, sh, silent_at=i), src_array(rng, sh), "fault:silent-reference")
        yield one(src_array(rng, sh), src_array(rng, sh, silent_at=i), "fault:silent-estimate")
        sh3 = (rng.randint(1, 3), rng.randint(1, 3), 2)
        j = rng.randrange(sh3[0])
        yield one(src_array(rng, sh3, silent_at=j, cancel=True), src_array(rng, sh3), "fault:silent-by-cancellation")
        big = (101 + rng.randint(0, 2), rng.randint(1, 2))
        yield one(src_array(rng, big), src_array(rng, big), "fault:too-many-sources")
        yield one(src_array(rng, (100, 1)), src_array(rng, (100, 1)), "valid-100-sources")
        # empty arrays only warn (but the source-count check still applies)
        for es in ((0, 3), (2, 0), (0,), (2, 0, 2), (101, 0)):
            yield one(np.zeros(es), np.zeros(es), "shape:empty")
        # fewer than two axes with data: np.all(axis=1) raises AxisError (a ValueError)
        k = rng.randint(1, 4)
        yield one(src_array(rng, (k,)) + 5, src_array(rng, (k,)) + 5, "shape:1d")
        yield one(np.array(1.0), np.array(2.0), "shape:0d")


# ---------------------------------------------------------------------------------------------
# the validators as REGENERATED from the source (translator part `validators`, lean/MirGen/Validators.lean, driver op
# `gen.validators <"module.function"> <args...>`) vs the real validators: every case of the suites above whose op the
# translator covers is sent to the generated definition as well (same descriptors, exception class compared exactly);
# plus arbitrary-shape arguments, and the run-time library's primitives themselves (`pyval.*`, lean/MirModel/PyVal.lean)
# against NumPy.

ODD_SHAPES = [(), (0,), (1,), (2,), (3,), (4,), (0, 2), (1, 2), (2, 2), (3, 2), (2, 3), (2, 1), (1, 1), (2, 0), (1, 3),
              (2, 2, 1), (1, 2, 2), (2, 1, 2), (3, 1, 1), (0, 2, 2), (1, 1, 1, 1)]


def odd_array(rng, shape=None, lo=-4, hi=8):
    shape = rng.choice(ODD_SHAPES) if shape is None else shape
    n = 1
    for k in shape:
        n *= k
    u = rng.random()
    if u < 0.3:
        d = sorted(lat(rng, 0, hi) for _ in range(n))                 # increasing, non-negative
    elif u < 0.5:
        d = [Fr(rng.randint(0, 3)) for _ in range(n)]                 # many ties / zeros
    else:
        d = [lat(rng, lo, hi) if rng.random() < 0.8 else Fr(rng.choice([0, 1, 2, 20, 5000, 30000, 30001])) for _ in range(n)]
    return A(shape, d)


def _bc_compatible(s, t):
    for a, b in zip(reversed(s), reversed(t)):
        if not (a == b or a == 1 or b == 1):
            return False
    return True


def _arr_out(r):
    r = np.asarray(r)
    return [[int(k) for k in r.shape], [float(v) if r.dtype != bool else bool(v) for v in np.ravel(r)]]


def _gen_covered():
    from translate import validators as TV
    return {"%s.%s" % w for w in TV.WANTED}


# ops whose arguments are all plain arrays (+ their scalar parameters): fed arbitrary shapes
_ODD_OPS = {
    "util.validate_events": lambda rng: [odd_array(rng).enc(), rng.choice([MAX_TIME, Fr(4), Fr(0)])],
    "util.validate_intervals": lambda rng: [odd_array(rng).enc()],
    "util.validate_frequencies": lambda rng: [odd_array(rng).enc(), rng.choice([MAX_FREQ, Fr(4)]), rng.choice([MIN_FREQ, Fr(1), Fr(0)]),
                                              rng.random() < 0.5],
    "beat.validate": lambda rng: [odd_array(rng).enc(), odd_array(rng).enc()],
    "onset.validate": lambda rng: [odd_array(rng).enc(), odd_array(rng).enc()],
    "tempo.validate_tempi": lambda rng: [odd_array(rng).enc(), rng.random() < 0.5],
    "tempo.validate": lambda rng: [odd_array(rng).enc(), _weight(rng), odd_array(rng).enc()],
    "segment.validate_boundary": lambda rng: [odd_array(rng).enc(), odd_array(rng).enc(), rng.random() < 0.5],
    "segment.validate_structure": lambda rng: [odd_array(rng).enc(), rng.randint(0, 3), odd_array(rng).enc(), rng.randint(0, 3)],
    "alignment.validate": lambda rng: [odd_array(rng).enc(), odd_array(rng).enc()],
    "melody.validate_voicing": lambda rng: [odd_array(rng, lo=0, hi=1).enc(), odd_array(rng, lo=0, hi=1).enc()],
    "melody.validate": lambda rng: [odd_array(rng).enc() for _ in range(4)],
    "transcription.validate_intervals": lambda rng: [odd_array(rng).enc(), odd_array(rng).enc()],
    "transcription.validate": lambda rng: [odd_array(rng).enc() for _ in range(4)],
    "transcription_velocity.validate": lambda rng: [odd_array(rng).enc() for _ in range(6)],
    "multipitch.validate": lambda rng: [odd_array(rng).enc(), [odd_array(rng, lo=0, hi=64).enc() for _ in range(rng.randint(0, 3))],
                                        odd_array(rng).enc(), [odd_array(rng, lo=0, hi=64).enc() for _ in range(rng.randint(0, 3))]],
    "hierarchy.validate_hier_intervals": lambda rng: [[odd_array(rng).enc() for _ in range(rng.randint(0, 3))]],
}


def _prim_cases(rng):
    """the primitives of lean/MirModel/PyVal.lean against NumPy, on arrays of arbitrary shape"""
    import mir_eval.util as U
    a = odd_array(rng)
    x = a.np()
    s = lat(rng, -2, 6)

    def P(op, args, call):
        return Case("pyval." + op, args, call, tag="prim " + op, info={"op": "pyval." + op, "stream": "prim"})
    k = rng.randint(0, 2)
    yield P("shapeAt", [a.enc(), k], lambda: x.shape[k])
    yield P("ndim", [a.enc()], lambda: x.ndim)
    yield P("size", [a.enc()], lambda: x.size)
    yield P("len", [a.enc()], lambda: len(x))
    yield P("amax", [a.enc()], lambda: x.max())
    yield P("amin", [a.enc()], lambda: np.min(x))
    yield P("asum", [a.enc()], lambda: x.sum())
    yield P("abs", [a.enc()], lambda: _arr_out(np.abs(x)))
    yield P("gtS", [a.enc(), s], lambda: _arr_out(x > float(s)))
    yield P("anyLtS", [a.enc(), s], lambda: (x < float(s)).any())
    yield P("allGeS", [a.enc(), s], lambda: np.all(x >= float(s)))
    yield P("allFinite", [a.enc()], lambda: np.all(np.isfinite(x)))
    yield P("orLtGt", [a.enc(), Fr(0), Fr(1)], lambda: _arr_out(np.logical_or(x < 0, x > 1)))
    yield P("diff", [a.enc()], lambda: _arr_out(np.diff(x)))
    yield P("tail1", [a.enc()], lambda: _arr_out(x[1:]))
    yield P("init1", [a.enc()], lambda: _arr_out(x[:-1]))
    if len(a.shape) <= 2:
        yield P("col", [a.enc(), k], lambda: _arr_out(x[:, k]))
    yield P("generateLabels", [a.enc()], lambda: len(U.generate_labels(x)))
    # two arrays: one shape, or shapes that cannot be broadcast (ValueError); broadcastable unequal shapes are
    # outside the library's domain and not generated
    b = odd_array(rng, a.shape if rng.random() < 0.6 else None)
    if b.shape == a.shape or not _bc_compatible(a.shape, b.shape):
        y = b.np()
        yield P("leA", [a.enc(), b.enc()], lambda: _arr_out(x <= y))
        yield P("sub", [a.enc(), b.enc()], lambda: _arr_out(x - y))
    xs = [odd_array(rng) for _ in range(rng.randint(0, 3))]
    yield P("listGet", [[v.enc() for v in xs], k], lambda: _arr_out([v.np() for v in xs][k]))
    u, v = lat(rng, 0, 32), lat(rng, 0, 32)
    if rng.random() < 0.5:
        v = u + rng.choice([Fr(1, 2 ** 30), Fr(1, 2 ** 17), Fr(1, 2 ** 9), -Fr(1, 2 ** 17)])
    if close_margin_ok(u, v):
        yield P("allclose", [u, v], lambda: bool(np.allclose(float(u), float(v))))


def suite_gen_validators(rng, tier, shard, nshards):
    import random as _random
    covered = _gen_covered()
    for name in sorted(SUITES):
        if name in ("gen_validators", "key", "chord"):
            continue
        sub = _random.Random(rng.randint(0, 2 ** 62))
        for c in SUITES[name](sub, tier, shard, nshards):
            op = c.info["op"]
            if op in covered:
                yield Case("gen.validators", [op] + list(c.args), c.call, tag="gen " + c.tag,
                           info=c.info, nontrivial=c.nontrivial)
    n = count(tier, 40, 1500)
    for _ in range(n):
        for op in sorted(_ODD_OPS):
            if op in covered:
                args = _ODD_OPS[op](rng)
                yield Case("gen.validators", [op] + args, (lambda op=op, args=args: run_real(op, args)),
                           tag="gen shape:arbitrary", info={"op": op, "real": args, "stream": "shape:arbitrary"})
        for c in _prim_cases(rng):
            yield c
        p = pat_valid(rng)
        yield Case("gen.validators", ["pattern._n_onset_midi", p],
                   (lambda p=p: mir_eval.pattern._n_onset_midi(_patterns(p))), tag="gen pattern count",
                   info={"op": "pattern._n_onset_midi", "real": [p], "stream": "shape:count"})


SUITES = {
    "util_events": suite_util_events,
    "beat_onset": suite_beat_onset,
    "util_intervals": suite_util_intervals,
    "interval_pairs": suite_interval_pairs,
    "util_frequencies": suite_util_frequencies,
    "tempo": suite_tempo,
    "key": suite_key,
    "alignment": suite_alignment,
    "multipitch": suite_multipitch,
    "melody": suite_melody,
    "transcription": suite_transcription,
    "pattern": suite_pattern,
    "structure": suite_structure,
    "hierarchy": suite_hierarchy,
    "chord": suite_chord,
    "separation": suite_separation,
    "gen_validators": suite_gen_validators,
}


# ---------------------------------------------------------------------------------------------
# validator-level statement of C14, on the real code alone (no model): the stream a case comes from says what
# the documented behaviour is -- `valid…` must return, `fault:…` / `quirk:…` must raise ValueError
# (InvalidChordException for a malformed chord label).  `shape:…`, `table`, `random-tokens`, `pool` cases make no
# claim (their behaviour is only compared with the model).

OP_SUITE = {
    "util.validate_events": "util_events", "beat.validate": "beat_onset", "onset.validate": "beat_onset",
    "util.validate_intervals": "util_intervals", "transcription.validate_intervals": "interval_pairs",
    "segment.validate_boundary": "interval_pairs", "util.validate_frequencies": "util_frequencies",
    "tempo.validate_tempi": "tempo", "tempo.validate": "tempo", "tempo.detection": "tempo",
    "key.validate_key": "key", "key.validate": "key", "alignment.validate": "alignment",
    "multipitch.validate": "multipitch", "melody.validate_voicing": "melody", "melody.validate": "melody",
    "transcription.validate": "transcription", "transcription_velocity.validate": "transcription",
    "pattern.validate": "pattern", "segment.validate_structure": "structure",
    "hierarchy.validate_hier_intervals": "hierarchy", "hierarchy.tmeasure": "hierarchy",
    "hierarchy.lmeasure": "hierarchy", "chord.validate": "chord", "chord.weighted_accuracy": "chord",
    "separation.validate": "separation",
}


def expected(tag):
    """documented outcome for a stream tag, or None when the stream makes no claim"""
    for word in tag.split():
        if word == "valid" or word.startswith("valid-"):
            return "ok"
        if word.startswith("fault:") or word.startswith("quirk:"):
            return "InvalidChord" if "malformed-label" in word and "several" not in word else "ValueError"
        if word.startswith("shape:"):
            return None
    return None


def observe(op, real_args):
    import warnings
    import proto
    try:
        with warnings.catch_warnings():
            warnings.simplefilter("ignore")
            run_real(op, real_args)
        return "ok"
    except Exception as e:  # noqa: BLE001 - classified
        return proto.classify_exc(e).cls


def check_validator(inp):
    """inp = {op, real, expect, stream}: the real validator must behave as documented for the stream"""
    got = observe(inp["op"], inp["real"])
    if got == inp["expect"]:
        return None
    if inp["expect"] == "ok":
        return "%s raised %s on a valid input (%s)" % (inp["op"], got, inp["stream"])
    if got == "ok":
        return "%s accepted a malformed input (%s) instead of raising %s" % (inp["op"], inp["stream"], inp["expect"])
    return "%s raised %s instead of %s (%s)" % (inp["op"], got, inp["expect"], inp["stream"])


def oracle_for(op):
    import proto

    def gen(rng, tier, shard, nshards, boost):
        for _ in range(boost):
            for c in SUITES[OP_SUITE[op]](rng, tier, shard, nshards):
                if c.info["op"] != op:
                    continue
                exp = expected(c.tag)
                if exp is None:
                    continue
                yield {"op": op, "real": proto.jsonable(c.info["real"]), "expect": exp, "stream": c.tag}
    return gen


CHECKERS = {op: check_validator for op in OP_SUITE}
ORACLES = {op: oracle_for(op) for op in OP_SUITE}


def classify(suite, d):
    """a disagreeing correspondence case -> the oracle input for the same call (if its stream makes a claim)"""
    import proto
    info = d["info"]
    exp = expected(info["stream"])
    if exp is None:
        return None
    return info["op"], {"op": info["op"], "real": proto.jsonable(info["real"]), "expect": exp, "stream": info["stream"]}
