"""Registry of task modules for the relational oracles on the REAL code (C01, C02, C06, C07, C08, C14).

Every task describes: how to draw a valid (reference, estimate) pair on the exact lattice, how to call
`evaluate()`, the documented range class of every score, the optimum for a perfect estimate, the role swap,
the tolerances that may be widened, nested score pairs, and the meaning-free transformations
(time shift, permutation, label renaming).  Inputs are JSON-able: numbers are 'p/q' strings.
"""
import collections
import math
from fractions import Fraction as Fr

import numpy as np
import mir_eval

import gen

F = gen.fr


def S(x):
    return str(x)


def typed(a, dtype):
    """the float64 array `a` in the caller's container `dtype` ('int64' | 'int32' | 'float32'), honoured only when
    every value survives the conversion unchanged (whole numbers for the integer types): same values, other dtype"""
    if dtype in gen.DTYPES:
        b = a.astype(dtype)
        if np.array_equal(b.astype(float), a):
            return b
    return a


def dt_of(inp, side):
    """inp["dtype"] = {"ref": ..., "est": ...}: the dtype of the time-like arrays of one side (absent = float64)"""
    return (inp.get("dtype") or {}).get(side)


def farr(xs, dtype=None):
    return typed(np.array([float(F(x)) for x in xs], dtype=float), dtype)


def iarr(rows, dtype=None):
    a = np.array([[float(F(a)), float(F(b))] for a, b in rows], dtype=float)
    return typed(a.reshape(-1, 2), dtype)


def with_dtypes(rng, inp, self_input=False):
    """attach a dtype per side to an input whose time-like values are whole numbers (integer dtypes: the relations
    compare real-valued scores to 1e-9, and scores computed from float32 arrays are legitimately single precision;
    float32 containers are used where the outcome is discrete, at the matching sites of C05)"""
    dt = gen.pick_dtypes(rng, float32=False)
    if self_input and rng.random() < 0.5:
        dt["est"] = dt.get("ref")       # the copy is stored like the original ...
        dt = {k: v for k, v in dt.items() if v}
        if not dt:
            dt = {"ref": "int64", "est": "int64"}
    inp["dtype"] = dt
    return inp


class Task:
    name = ""
    RANGE = {}      # score -> 'unit' | 'binary' | 'le1' | 'nonneg' | 'dev' | 'any'
    OPT = {}        # score -> optimum on a perfect estimate
    SWAPMAP = None  # score -> score after exchanging roles (None: no swap property)
    TOLS = []       # (kwarg, ascending values, scores that must not decrease)
    NESTED = []     # (a, b): a <= b on every input
    SHIFT = False
    exact_shift = True

    def gen(self, rng):
        raise NotImplementedError

    def gen_self(self, rng):
        """a non-degenerate annotation scored against a copy of itself"""
        raise NotImplementedError

    def gen_typed(self, rng, self_input=False):
        """an input (for gen_self when `self_input`) whose time-like values are whole numbers, with inp["dtype"] saying
        in which integer / single-precision dtype each side is handed to the library; None: the task has no such form"""
        return None

    def evaluate(self, inp, **kw):
        raise NotImplementedError

    def swap(self, inp):
        out = dict(inp)
        out["ref"], out["est"] = inp["est"], inp["ref"]
        if inp.get("dtype"):
            d = inp["dtype"]
            out["dtype"] = {k: v for k, v in (("ref", d.get("est")), ("est", d.get("ref"))) if v}
        if inp.get("vdtype"):
            d = inp["vdtype"]
            out["vdtype"] = {k: v for k, v in (("ref", d.get("est")), ("est", d.get("ref"))) if v}
        return out

    def shift(self, inp, c):
        return None

    def permute(self, inp, rng):
        return None

    def relabel(self, inp, rng):
        return None

    def range_exempt(self, inp, score):
        """conditions stated in the property under which a score is only conditionally bounded"""
        return False


# =============================================================================================
class Beat(Task):
    name = "beat"
    RANGE = {"F-measure": "unit", "Cemgil": "unit", "Cemgil Best Metric Level": "unit", "Goto": "binary",
             "P-score": "unit", "Correct Metric Level Continuous": "unit", "Correct Metric Level Total": "unit",
             "Any Metric Level Continuous": "unit", "Any Metric Level Total": "unit", "Information gain": "unit"}
    OPT = {k: 1.0 for k in RANGE}
    SWAPMAP = {"F-measure": "F-measure"}
    TOLS = [("f_measure_threshold", ["1/32", "1/16", "1/8", "1/4", "1/2"], ["F-measure"])]
    NESTED = [("Cemgil", "Cemgil Best Metric Level"),
              ("Correct Metric Level Continuous", "Correct Metric Level Total"),
              ("Any Metric Level Continuous", "Any Metric Level Total"),
              ("Correct Metric Level Continuous", "Any Metric Level Continuous"),
              ("Correct Metric Level Total", "Any Metric Level Total")]
    SHIFT = True

    def _track(self, rng, n=None, period=None):
        n = n if n is not None else rng.choice([0, 1, 2, 3, 5, 6, 8, 12, 16])
        period = period or Fr(rng.choice([10, 12, 16, 20, 24]), 32)
        t = Fr(rng.randint(5 * 32, 7 * 32), 32)
        out = []
        for _ in range(n):
            out.append(t)
            t += period + Fr(rng.choice([0, 0, 0, 1, -1, 2]), 32)
        return out

    def gen(self, rng):
        ref = self._track(rng)
        u = rng.random()
        if u < 0.5 and ref:
            est = [max(Fr(5), r + Fr(rng.choice([0, 0, 1, -1, 2, -2, 3, 7]), 32)) for r in ref if rng.random() < 0.9]
            est = sorted(est)
        elif u < 0.6 and len(ref) >= 3:
            # the estimate tracks another metrical level: double tempo (beats + midpoints), half tempo, off-beats
            mids = [(a + b) / 2 for a, b in zip(ref, ref[1:])]
            est = rng.choice([sorted(ref + mids), ref[::2], ref[1::2], mids])
        else:
            est = self._track(rng)
        u = rng.random()
        if u < 0.1 and len(ref) >= 2:   # a duplicated reference beat is a valid annotation
            ref = sorted(ref + [rng.choice(ref)])
        elif u < 0.13 and len(ref) >= 2:  # every reference beat annotated twice
            ref = sorted(ref + ref)
        elif u < 0.16 and len(ref) >= 1:  # all reference beats at one instant
            ref = [ref[0]] * rng.choice([2, 3])
        return {"ref": [S(x) for x in ref], "est": [S(x) for x in est]}

    def gen_self(self, rng):
        ref = self._track(rng, n=rng.choice([5, 6, 8, 12, 16]))
        return {"ref": [S(x) for x in ref], "est": [S(x) for x in ref]}

    def gen_typed(self, rng, self_input=False):
        # beats annotated on whole seconds (60 or 30 beats per minute), estimates a little off or on whole seconds too
        period = rng.choice([1, 1, 2])
        t0 = rng.randint(5, 8)
        ref = [Fr(t0 + period * i) for i in range(rng.choice([5, 6, 8, 12, 16]))]
        if self_input:
            est = list(ref)
        elif rng.random() < 0.4:
            est = [r + rng.choice([0, 0, 0, 1, -1]) for r in ref if rng.random() < 0.9]
            est = sorted(x for x in est if x >= 5)
        else:
            est = sorted(max(Fr(5), r + Fr(rng.choice([0, 1, -1, 2, -2, 3, 7, 16, -16, 33]), 32)) for r in ref
                         if rng.random() < 0.9)
        return with_dtypes(rng, {"ref": [S(x) for x in ref], "est": [S(x) for x in est]}, self_input)

    def evaluate(self, inp, **kw):
        return mir_eval.beat.evaluate(farr(inp["ref"], dt_of(inp, "ref")), farr(inp["est"], dt_of(inp, "est")), **kw)

    def shift(self, inp, c):
        return {"ref": [S(F(x) + c) for x in inp["ref"]], "est": [S(F(x) + c) for x in inp["est"]]}

    def range_exempt(self, inp, score):
        if score == "P-score":
            # bounded only when beats inside each sequence are further apart than twice the correlation window
            ref = [F(x) for x in inp["ref"] if F(x) >= 5]
            est = [F(x) for x in inp["est"] if F(x) >= 5]
            if len(ref) < 2 or len(est) < 2:
                return False
            d = sorted(b - a for a, b in zip(ref, ref[1:]))
            med = float(d[len(d) // 2]) if len(d) % 2 else float(d[len(d) // 2 - 1] + d[len(d) // 2]) / 2
            win = round(0.2 * med * 100) / 100.0 + 0.02
            gaps = [float(b - a) for s in (ref, est) for a, b in zip(s, s[1:])]
            return min(gaps) <= 2 * win
        return False


class Onset(Task):
    name = "onset"
    RANGE = {"F-measure": "unit", "Precision": "unit", "Recall": "unit"}
    OPT = {k: 1.0 for k in RANGE}
    SWAPMAP = {"F-measure": "F-measure", "Precision": "Recall", "Recall": "Precision"}
    TOLS = [("window", ["0", "1/32", "1/16", "1/8", "1/4", "1"], ["F-measure", "Precision", "Recall"])]
    SHIFT = True
    BIG_SHIFT = True       # all arithmetic stays exact in binary64 for shifts of 2^12..2^16 s on the dyadic lattice

    def gen(self, rng):
        w = gen.window(rng)
        ref = gen.events(rng)
        est = gen.near(rng, ref, rng.choice([w, Fr(1, 16)])) if rng.random() < 0.7 else gen.events(rng)
        return {"ref": [S(x) for x in ref], "est": [S(x) for x in est]}

    def gen_self(self, rng):
        ref = gen.events(rng) or [Fr(1)]
        return {"ref": [S(x) for x in ref], "est": [S(x) for x in ref]}

    def gen_typed(self, rng, self_input=False):
        ref, est, _ = gen.whole_events(rng)
        if self_input:
            est = list(ref)
        return with_dtypes(rng, {"ref": [S(x) for x in ref], "est": [S(x) for x in est]}, self_input)

    def evaluate(self, inp, **kw):
        return mir_eval.onset.evaluate(farr(inp["ref"], dt_of(inp, "ref")), farr(inp["est"], dt_of(inp, "est")), **kw)

    def shift(self, inp, c):
        return {"ref": [S(F(x) + c) for x in inp["ref"]], "est": [S(F(x) + c) for x in inp["est"]]}


# =============================================================================================
# label alphabets whose members are distinct strings but "look" equal to a normalising comparison (case, surrounding
# blanks, numeric value, Unicode composition): label identity is string identity
TWIN_ALPHABETS = [["a", "A", "b", "B"], ["verse", "Verse", "VERSE", "chorus"], ["x", " x", "x ", "y"],
                  ["1", "01", "1.0", "2"], ["\u00e9", "e\u0301", "e"], ["", " ", "a"]]


# names that are pairwise distinct under str.lower() (the documented normalisation of util.index_labels) although some of
# them coincide under stronger foldings (casefold, compatibility normalisation)
FOLD_TWINS = ["Stra\u00dfe", "Strasse", "\ufb01n", "fin", "\u017f", "s"]
assert len({x.lower() for x in FOLD_TWINS}) == len(FOLD_TWINS)


def pick_alphabet(rng, default):
    return rng.choice(TWIN_ALPHABETS) if rng.random() < 0.15 else default


def gen_segmentation(rng, span, nmax=6, labels="abcd", lat=8, start=Fr(0)):
    """contiguous labelled segmentation of [start, start+span] on a 1/lat lattice"""
    n = rng.randint(1, nmax)
    cuts = set()
    total = int(span * lat)
    while len(cuts) < min(n - 1, total - 1):
        cuts.add(rng.randint(1, total - 1))
    b = [start] + [start + Fr(c, lat) for c in sorted(cuts)] + [start + span]
    ivs = [[b[i], b[i + 1]] for i in range(len(b) - 1)]
    labs = [rng.choice(labels) for _ in ivs]
    return ivs, labs


def punch(rng, ivs, labs, lat=8):
    """a contiguous labelled segmentation made NON-contiguous, still valid for segment.validate_structure /
    hierarchy.validate_hier_intervals (which look at the first start, the last end and the durations only): an interior
    segment dropped, or a segment's end pulled back (the frames in the gap carry no label at all), or a segment's end
    pushed past the next start (overlap: the later row wins).  Rows stay sorted by start; the first start and the
    largest end are kept.  -> (ivs, labs, kind) with kind in {"gap", "overlap", None (too short to change)}"""
    ivs, labs = [list(iv) for iv in ivs], list(labs)
    n = len(ivs)
    step = Fr(1, lat)
    u = rng.random()
    if n >= 3 and u < 0.35:
        k = rng.randint(1, n - 2)
        del ivs[k], labs[k]
        return ivs, labs, "gap"
    if n >= 2 and u < 0.8:
        cand = [k for k in range(n - 1) if ivs[k][1] - ivs[k][0] > step]
        if cand:
            k = rng.choice(cand)
            room = int((ivs[k][1] - ivs[k][0]) / step) - 1
            ivs[k][1] -= step * rng.randint(1, min(room, rng.choice([1, 2, 4, 16])))
            return ivs, labs, "gap"
    if n >= 2:
        k = rng.randint(0, n - 2)
        room = int((ivs[-1][1] - ivs[k][1]) / step)
        if room >= 1:
            ivs[k][1] += step * rng.randint(1, min(room, rng.choice([1, 2, 4, 16])))
            return ivs, labs, "overlap"
    return ivs, labs, None


def rename_targets(rng, names, prefix):
    """new label names for the sorted list `names` (distinct modulo case, never reading like a missing label): random
    fresh names, names that differ only under a stronger folding than str.lower(), or fresh names that sort in exactly
    the REVERSE order of the old ones (whatever is attached to 'the first / the last class' changes owner)"""
    u = rng.random()
    if u < 0.3 and len(names) <= len(FOLD_TWINS):
        new = list(FOLD_TWINS[:len(names)])
        rng.shuffle(new)
        return new
    if u < 0.55 and 2 <= len(names) <= 100:
        return ["%s%03d" % (prefix, 999 - 7 * i - rng.randint(0, 6)) for i in range(len(names))]
    new = ["%s%d_%d" % (prefix, rng.randint(0, 99), i) for i in range(len(names))]   # distinct also modulo case
    rng.shuffle(new)
    return new


def sv(ivs):
    return [[S(a), S(b)] for a, b in ivs]


class Segment(Task):
    name = "segment"
    RANGE = {"Precision@0.5": "unit", "Recall@0.5": "unit", "F-measure@0.5": "unit",
             "Precision@3.0": "unit", "Recall@3.0": "unit", "F-measure@3.0": "unit",
             "Ref-to-est deviation": "dev", "Est-to-ref deviation": "dev",
             "Pairwise Precision": "unit", "Pairwise Recall": "unit", "Pairwise F-measure": "unit",
             "Rand Index": "unit", "Adjusted Rand Index": "le1",
             "Mutual Information": "nonneg", "Adjusted Mutual Information": "le1",
             "Normalized Mutual Information": "unit",
             "NCE Over": "unit", "NCE Under": "unit", "NCE F-measure": "unit",
             "V Precision": "unit", "V Recall": "unit", "V-measure": "unit"}
    OPT = {k: 1.0 for k in RANGE if k not in ("Mutual Information",)}
    OPT.update({"Ref-to-est deviation": 0.0, "Est-to-ref deviation": 0.0})
    SWAPMAP = {"Precision@0.5": "Recall@0.5", "Recall@0.5": "Precision@0.5", "F-measure@0.5": "F-measure@0.5",
               "Precision@3.0": "Recall@3.0", "Recall@3.0": "Precision@3.0", "F-measure@3.0": "F-measure@3.0",
               "Ref-to-est deviation": "Est-to-ref deviation", "Est-to-ref deviation": "Ref-to-est deviation",
               "Pairwise Precision": "Pairwise Recall", "Pairwise Recall": "Pairwise Precision",
               "Pairwise F-measure": "Pairwise F-measure", "Rand Index": "Rand Index",
               "Adjusted Rand Index": "Adjusted Rand Index", "Mutual Information": "Mutual Information",
               "Adjusted Mutual Information": "Adjusted Mutual Information",
               "Normalized Mutual Information": "Normalized Mutual Information",
               "NCE Over": "NCE Under", "NCE Under": "NCE Over", "NCE F-measure": "NCE F-measure",
               "V Precision": "V Recall", "V Recall": "V Precision", "V-measure": "V-measure"}
    NESTED = [("Precision@0.5", "Precision@3.0"), ("Recall@0.5", "Recall@3.0"), ("F-measure@0.5", "F-measure@3.0")]
    frame = "1/4"

    def gen(self, rng):
        u = rng.random()
        if u < 0.1:
            # degenerate: every frame its own label / a single frame / one label on both sides
            span = Fr(rng.choice([1, 2, 4]), 4)
            n = int(span * 4)
            ivs = [[Fr(i, 4), Fr(i + 1, 4)] for i in range(n)]
            ri, rl = ivs, ["s%d" % i for i in range(n)]
            ei, el = (ivs, ["t%d" % i for i in range(n)]) if rng.random() < 0.5 else ([[Fr(0), span]], ["x"])
            return {"ref": [sv(ri), rl], "est": [sv(ei), el]}
        span = Fr(rng.randint(2, 12))
        ri, rl = gen_segmentation(rng, span, labels=pick_alphabet(rng, "abcd"))
        ealpha = pick_alphabet(rng, "wxyz")
        if u < 0.2:
            ei, el = [], []          # an empty estimate is padded to the reference span by evaluate()
        elif u < 0.3:
            ei, el = gen_segmentation(rng, span + Fr(rng.choice([-1, 1, 2])), labels=ealpha)  # other duration
        else:
            ei, el = gen_segmentation(rng, span, labels=ealpha)
        if rng.random() < 0.25:
            # valid for the structure metrics without being a partition of the time line: interior gaps (frames without
            # any label) and overlaps, on either side
            sides = rng.choice(["ref", "est", "both"])
            if sides != "est":
                ri, rl, kind = punch(rng, ri, rl)
                if kind == "gap" and rng.random() < 0.1:
                    # a label SPELLED like the missing label (known finding segment_none_label_with_unlabelled_frames)
                    rl[rng.randrange(len(rl))] = rng.choice(["None", "none", "NONE"])
            if sides != "ref" and ei:
                ei, el, _ = punch(rng, ei, el)
        return {"ref": [sv(ri), rl], "est": [sv(ei), el]}

    def swap(self, inp):
        a, b = inp["ref"][0], inp["est"][0]
        if not a or not b or a[-1][1] != b[-1][1]:
            return None      # not admissible in both roles (evaluate pads / crops the estimate only)
        return Task.swap(self, inp)

    def gen_self(self, rng):
        span = Fr(rng.randint(3, 12))
        while True:
            ri, rl = gen_segmentation(rng, span, nmax=6, lat=4)   # boundaries on the 1/4 s frame grid
            if len(ri) >= 2 and len(set(rl)) >= 2:
                break
        return {"ref": [sv(ri), rl], "est": [sv(ri), list(rl)]}

    def gen_typed(self, rng, self_input=False):
        # boundaries on whole seconds
        span = Fr(rng.randint(3, 12))
        while True:
            ri, rl = gen_segmentation(rng, span, nmax=6, labels="abcd", lat=1)
            if not self_input or (len(ri) >= 2 and len(set(rl)) >= 2):
                break
        if self_input:
            ei, el = ri, list(rl)
        elif rng.random() < 0.5:
            ei, el = gen_segmentation(rng, span, labels="wxyz", lat=1)
        else:
            ei, el = gen_segmentation(rng, span, labels="wxyz")
        return with_dtypes(rng, {"ref": [sv(ri), rl], "est": [sv(ei), el]}, self_input)

    def evaluate(self, inp, **kw):
        kw.setdefault("frame_size", float(F(self.frame)))
        ri, rl, ei, el = (iarr(inp["ref"][0], dt_of(inp, "ref")), list(inp["ref"][1]),
                          iarr(inp["est"][0], dt_of(inp, "est")), list(inp["est"][1]))
        if inp.get("direct") and len(ri) and len(ei) and ri[0, 0] == ei[0, 0] == 0 and ri[-1, 1] == ei[-1, 1]:
            return self._direct(ri, rl, ei, el, **kw)
        return mir_eval.segment.evaluate(ri, rl, ei, el, **kw)

    def _direct(self, ri, rl, ei, el, **kw):
        """the entries of evaluate() obtained by calling the public metric functions one by one on the SAME annotation
        objects (admissible without pre-processing: both sides start at 0 and end together), as a caller would who wants
        a few of the scores only"""
        import inspect
        S_ = mir_eval.segment

        def fk(fn, *a, **k):
            real = getattr(fn, "_real", fn)
            ok = inspect.signature(real).parameters
            return fn(*a, **{n: v for n, v in k.items() if n in ok})
        out = {}
        kw3 = dict(kw, window=0.5)
        out["Precision@0.5"], out["Recall@0.5"], out["F-measure@0.5"] = fk(S_.detection, ri, ei, **kw3)
        kw3["window"] = 3.0
        out["Precision@3.0"], out["Recall@3.0"], out["F-measure@3.0"] = fk(S_.detection, ri, ei, **kw3)
        out["Ref-to-est deviation"], out["Est-to-ref deviation"] = fk(S_.deviation, ri, ei, **kw)
        (out["Pairwise Precision"], out["Pairwise Recall"], out["Pairwise F-measure"]) = fk(S_.pairwise, ri, rl, ei, el, **kw)
        out["Rand Index"] = fk(S_.rand_index, ri, rl, ei, el, **kw)
        out["Adjusted Rand Index"] = fk(S_.ari, ri, rl, ei, el, **kw)
        (out["Mutual Information"], out["Adjusted Mutual Information"],
         out["Normalized Mutual Information"]) = fk(S_.mutual_information, ri, rl, ei, el, **kw)
        out["NCE Over"], out["NCE Under"], out["NCE F-measure"] = fk(S_.nce, ri, rl, ei, el, **kw)
        out["V Precision"], out["V Recall"], out["V-measure"] = fk(S_.vmeasure, ri, rl, ei, el, **kw)
        return out

    def relabel(self, inp, rng):
        out = {}
        for side in ("ref", "est"):
            ivs, labs = inp[side]
            # label identity is identity modulo case (util.index_labels, case_sensitive=False)
            names = sorted(set(x.lower() for x in labs))
            m = dict(zip(names, rename_targets(rng, names, "L")))
            out[side] = [ivs, [m[x.lower()] for x in labs]]
        return out

    def range_exempt(self, inp, score):
        return False


class Hierarchy(Task):
    name = "hierarchy"
    RANGE = {"T-Precision reduced": "unit", "T-Recall reduced": "unit", "T-Measure reduced": "unit",
             "T-Precision full": "unit", "T-Recall full": "unit", "T-Measure full": "unit",
             "L-Precision": "unit", "L-Recall": "unit", "L-Measure": "unit"}
    OPT = {k: 1.0 for k in RANGE}
    SWAPMAP = {"T-Precision reduced": "T-Recall reduced", "T-Recall reduced": "T-Precision reduced",
               "T-Measure reduced": "T-Measure reduced", "T-Precision full": "T-Recall full",
               "T-Recall full": "T-Precision full", "T-Measure full": "T-Measure full",
               "L-Precision": "L-Recall", "L-Recall": "L-Precision", "L-Measure": "L-Measure"}

    def _hier(self, rng, span, labels):
        levels = rng.randint(1, 3)
        out_i, out_l = [], []
        holes = rng.random() < 0.12      # levels that leave part of the time line uncovered / cover a part twice
        for k in range(levels):
            ivs, labs = gen_segmentation(rng, span, nmax=2 + 2 * k, labels=labels, lat=2)
            if holes and rng.random() < 0.7:
                ivs, labs, _ = punch(rng, ivs, labs, lat=2)
            out_i.append(sv(ivs))
            out_l.append(labs)
        return [out_i, out_l]

    def gen(self, rng):
        if rng.random() < 0.02:
            # a level with more than 256 distinct labels (label codes must not be squeezed into a byte)
            n = 300
            ivs = sv([[Fr(i), Fr(i + 1)] for i in range(n)])
            labs = ["seg%03d" % rng.randint(0, 999) + "_%d" % i for i in range(n)]
            top = sv([[Fr(0), Fr(n)]])
            return {"ref": [[top, ivs], [["all"], labs]],
                    "est": [[top, sv([[Fr(2 * i), Fr(2 * i + 2)] for i in range(n // 2)])],
                            [["all"], ["e%d" % rng.randint(0, 9) for _ in range(n // 2)]]],
                    "kw": {"frame_size": 1.0}}
        span = Fr(rng.randint(2, 8))
        return {"ref": self._hier(rng, span, pick_alphabet(rng, "abc")),
                "est": self._hier(rng, span, pick_alphabet(rng, "xyz"))}

    def gen_self(self, rng):
        # non-degenerate = a reference triple exists: properly nested levels, the deepest with >= 2 segments,
        # segment labels distinct within a level (so label agreement depth = structural depth)
        span = rng.randint(3, 8)
        levels = rng.randint(1, 3)
        cuts = set()
        out_i, out_l = [], []
        for k in range(levels):
            new = set(cuts)
            want = len(cuts) + rng.randint(1, 2)
            while len(new) < min(want, 2 * span - 1):
                new.add(rng.randint(1, 2 * span - 1))
            cuts = new
            b = [Fr(0)] + [Fr(c, 2) for c in sorted(cuts)] + [Fr(span)]
            ivs = [[b[i], b[i + 1]] for i in range(len(b) - 1)]
            out_i.append(sv(ivs))
            out_l.append(["s%d_%d" % (k, i) for i in range(len(ivs))])
        h = [out_i, out_l]
        return {"ref": h, "est": [[list(map(list, lv)) for lv in h[0]], [list(lv) for lv in h[1]]]}

    def evaluate(self, inp, **kw):
        kw.setdefault("frame_size", 0.5)
        return mir_eval.hierarchy.evaluate([iarr(lv) for lv in inp["ref"][0]], [list(lv) for lv in inp["ref"][1]],
                                           [iarr(lv) for lv in inp["est"][0]], [list(lv) for lv in inp["est"][1]], **kw)

    def relabel(self, inp, rng):
        out = {}
        for side in ("ref", "est"):
            ivs, labs = inp[side]
            names = sorted({x.lower() for lv in labs for x in lv})
            m = dict(zip(names, rename_targets(rng, names, "N")))
            out[side] = [ivs, [[m[x.lower()] for x in lv] for lv in labs]]
        return out


# =============================================================================================
CHORD_POOL = ["N", "C", "C:maj", "C:min", "D:min7", "G:7", "A:min", "F:maj7", "E:dim", "Bb:maj", "F#:min",
              "C:maj/3", "G:7/b7", "A:min/5", "D:sus4", "E:aug", "C:maj6", "Db:maj", "B:hdim7", "C:9", "X",
              "G:maj(9)", "A:min(*5)", "C#:maj", "D:(1,5)", "F:min/b3"]


class Chord(Task):
    name = "chord"
    RANGE = {k: "unit" for k in ["thirds", "thirds_inv", "triads", "triads_inv", "tetrads", "tetrads_inv", "root",
                                  "mirex", "majmin", "majmin_inv", "sevenths", "sevenths_inv", "underseg", "overseg",
                                  "seg"]}
    OPT = {k: 1.0 for k in RANGE}
    SWAPMAP = {"underseg": "overseg", "overseg": "underseg", "seg": "seg"}
    NESTED = [("tetrads_inv", "tetrads"), ("tetrads", "triads"), ("triads", "thirds"), ("thirds", "root"),
              ("triads_inv", "triads"), ("thirds_inv", "thirds")]
    SHIFT = True

    def _ann(self, rng, span, start, pool):
        ivs, _ = gen_segmentation(rng, span, nmax=6, start=start)
        return [sv(ivs), [rng.choice(pool) for _ in ivs]]

    def gen(self, rng):
        span = Fr(rng.randint(2, 12))
        start = Fr(rng.choice([0, 0, 1, 3]), 2)
        ref = self._ann(rng, span, start, CHORD_POOL)
        # estimates may start earlier / end later than the reference
        if rng.random() < 0.5:
            espan, estart = span, start
        else:
            espan = span + Fr(rng.choice([0, 0, 1, -1, 2]), 2)
            estart = max(Fr(0), start + Fr(rng.choice([0, 0, -1, 1]), 2))
        est = self._ann(rng, max(espan, Fr(1)), estart, CHORD_POOL)
        return {"ref": ref, "est": est}

    def swap(self, inp):
        # both annotations must be admissible in both roles: same span (no cropping / padding involved)
        a, b = inp["ref"][0], inp["est"][0]
        if a[0][0] != b[0][0] or a[-1][1] != b[-1][1]:
            return None
        return Task.swap(self, inp)

    def gen_self(self, rng):
        span = Fr(rng.randint(2, 12))
        pool = [c for c in CHORD_POOL if c in ("C:maj", "A:min", "F#:min", "Bb:maj", "D:min7", "G:7", "F:maj7", "N")]
        base = [c for c in pool if c != "N"]
        if rng.random() < 0.35:
            # a plain chord next to the same shorthand with an added / omitted degree, or its extended relative
            pool = pool + ["D:min", "D:min(b7)", "G:9", "C:maj(9)", "F:maj7(#11)", "A:min(*5)"]
        while True:
            ref = self._ann(rng, span, Fr(0), pool)
            if any(l in base for l in ref[1]):
                break
        # in-vocabulary for all rules incl. majmin: restrict to maj/min triads + 7ths handled by sevenths only
        return {"ref": ref, "est": [list(map(list, ref[0])), list(ref[1])]}

    def gen_typed(self, rng, self_input=False):
        # chord changes on whole seconds
        span = Fr(rng.randint(2, 12))
        pool = [c for c in CHORD_POOL if c in ("C:maj", "A:min", "F#:min", "Bb:maj", "D:min7", "G:7", "F:maj7", "N")]
        base = [c for c in pool if c != "N"]

        def ann(sp, start, pl):
            ivs, _ = gen_segmentation(rng, sp, nmax=6, lat=1, start=start)
            return [sv(ivs), [rng.choice(pl) for _ in ivs]]
        if self_input:
            while True:
                ref = ann(span, Fr(0), pool)
                if any(l in base for l in ref[1]):
                    break
            est = [list(map(list, ref[0])), list(ref[1])]
        else:
            start = Fr(rng.choice([0, 0, 1, 2]))
            ref = ann(span, start, CHORD_POOL)
            est = ann(max(Fr(1), span + rng.choice([0, 0, 1, -1])), max(Fr(0), start + rng.choice([0, 0, -1, 1])), CHORD_POOL)
        return with_dtypes(rng, {"ref": ref, "est": est}, self_input)

    def evaluate(self, inp, **kw):
        return mir_eval.chord.evaluate(iarr(inp["ref"][0], dt_of(inp, "ref")), list(inp["ref"][1]),
                                       iarr(inp["est"][0], dt_of(inp, "est")), list(inp["est"][1]), **kw)

    def shift(self, inp, c):
        return {s: [[[S(F(a) + c), S(F(b) + c)] for a, b in inp[s][0]], inp[s][1]] for s in ("ref", "est")}


# =============================================================================================
def midi_hz(m):
    return 440.0 * (2.0 ** ((float(m) - 69.0) / 12.0))


class Melody(Task):
    name = "melody"
    RANGE = {"Voicing Recall": "unit", "Voicing False Alarm": "unit", "Raw Pitch Accuracy": "unit",
             "Raw Chroma Accuracy": "unit", "Overall Accuracy": "unit",
             "direct:Voicing Recall": "unit", "direct:Voicing False Alarm": "unit"}
    OPT = {"Voicing Recall": 1.0, "Voicing False Alarm": 0.0, "Raw Pitch Accuracy": 1.0,
           "Raw Chroma Accuracy": 1.0, "Overall Accuracy": 1.0}
    TOLS = [("cent_tolerance", ["10", "25", "50", "80", "150"],
             ["Raw Pitch Accuracy", "Raw Chroma Accuracy", "Overall Accuracy"])]
    NESTED = [("Raw Pitch Accuracy", "Raw Chroma Accuracy")]

    def _series(self, rng, n, hop):
        t = [hop * i for i in range(n)]
        m = []
        cur = Fr(rng.randint(48 * 8, 72 * 8), 8)
        for _ in range(n):
            if rng.random() < 0.25:
                m.append(None)
            else:
                cur += Fr(rng.choice([0, 0, 0, 1, -1, 8, -8, 16]), 8)
                cur = min(max(cur, Fr(36)), Fr(90))
                m.append(cur)
        return t, m

    def gen(self, rng):
        n = rng.choice([1, 2, 5, 10, 20])
        hop = Fr(1, 8)
        t, m = self._series(rng, n, hop)
        em = []
        for x in m:
            u = rng.random()
            if x is None:
                em.append(None if u < 0.7 else Fr(60))
            elif u < 0.5:
                em.append(x)
            elif u < 0.6:
                em.append(x + rng.choice([12, -12]))
            elif u < 0.75:
                em.append(x + Fr(rng.choice([1, 2, 3, 5, -3]), 8))
            elif u < 0.85:
                em.append(None)
            else:
                em.append(-x)   # negative = unvoiced with a pitch guess
        out = {"ref": [[S(x) for x in t], [None if x is None else S(x) for x in m]],
               "est": [[S(x) for x in t], [None if x is None else S(x) for x in em]]}
        if rng.random() < 0.3:   # continuous reference reward / estimated voicing (Bittner & Bosch)
            out["reward"] = [S(Fr(rng.randint(0, 8), 8)) if x is not None else "0" for x in m]
            out["est_voicing"] = [S(Fr(rng.randint(0, 8), 8)) for _ in em]
        if rng.random() < 0.25:
            if n < 5:
                n = 5
                t, m = self._series(rng, n, hop)
                out = {"ref": [[S(x) for x in t], [None if x is None else S(x) for x in m]]}
            # the estimate on its own time base (another hop, about the same span): it is resampled onto the reference's,
            # with any interpolation `kind` scipy's interp1d accepts (documented keyword of evaluate / to_cent_voicing)
            ehop = hop * rng.choice([Fr(1, 2), Fr(3, 2), Fr(3, 4), Fr(5, 4), Fr(2)])
            if rng.random() < 0.5:
                # a long reference on a fine grid against a coarse estimate: most target times fall between two
                # estimate frames
                n = rng.choice([20, 40])
                t, m = self._series(rng, n, hop)
                out["ref"] = [[S(x) for x in t], [None if x is None else S(x) for x in m]]
                out.pop("reward", None)
                out.pop("est_voicing", None)
                ehop = hop * rng.choice([Fr(2), Fr(29, 10), Fr(3), Fr(7, 2)])
            en = max(5, int((n * hop) / ehop) + rng.choice([0, 1, 2]))
            _, em2 = self._series(rng, en, ehop)
            # 3.7 cents off the 12.5-cent lattice: no difference to a reference pitch - also after linear interpolation
            # between two estimate frames at 1/2 .. 1/5 of the way - lies on a tolerance (10, 25, 50, 80, 150 cents)
            em2 = [None if x is None else x + Fr(37, 1000) for x in em2]
            out["est"] = [[S(ehop * i) for i in range(en)], [None if x is None else S(x) for x in em2]]
            if "est_voicing" in out or rng.random() < 0.5:
                out["est_voicing"] = [S(Fr(rng.randint(0, 8), 8)) for _ in em2]
                out.setdefault("reward", [S(Fr(rng.randint(0, 8), 8)) if x is not None else "0" for x in m])
                if rng.random() < 0.5:
                    # a crisp confidence profile that follows the reference's voicing (1 inside, 0 outside), with one
                    # intermediate value: valid (every value in [0, 1]), and the sharpest thing an interpolation can meet
                    ev = []
                    for i in range(en):
                        j = min(n - 1, int(round(float(ehop * i / hop))))
                        ev.append(Fr(1) if m[j] is not None else Fr(0))
                    ev[rng.randrange(en)] = rng.choice([Fr(1, 2), Fr(1, 4), Fr(3, 4)])
                    out["est_voicing"] = [S(v) for v in ev]
                    out.pop("reward", None)
            out["kw"] = {"kind": rng.choice(["linear", "nearest", "zero", "slinear", "quadratic", "cubic"])}
            if rng.random() < 0.35:
                # one voiced passage between two silences; the estimate is pitched throughout and comes with a confidence
                # curve that is 1 inside the passage and 0 outside (plus one intermediate value in a silence)
                a, b, c = rng.randint(3, 12), rng.randint(4, 30), rng.randint(3, 12)
                n = a + b + c
                pitch = Fr(rng.randint(48 * 8, 72 * 8), 8)
                m = [None] * a + [pitch] * b + [None] * c
                out["ref"] = [[S(hop * i) for i in range(n)], [None if x is None else S(x) for x in m]]
                ehop = hop * rng.choice([Fr(2), Fr(29, 10), Fr(3), Fr(7, 2), Fr(3, 2)])
                en = int((n * hop) / ehop) + 1
                ev = [Fr(1) if hop * a < ehop * i < hop * (a + b) else Fr(0) for i in range(en)]
                zeros = [i for i, v in enumerate(ev) if v == 0]
                if zeros:
                    ev[rng.choice(zeros)] = rng.choice([Fr(1, 2), Fr(1, 4)])
                out["est"] = [[S(ehop * i) for i in range(en)], [S(pitch + Fr(37, 1000))] * en]
                out["est_voicing"] = [S(v) for v in ev]
                out.pop("reward", None)
                if rng.random() < 0.6:
                    out["kw"] = {"kind": rng.choice(["quadratic", "cubic"])}
        return out

    def gen_self(self, rng):
        while True:
            t, m = self._series(rng, rng.choice([3, 5, 10, 20]), Fr(1, 8))
            if any(x is not None for x in m):
                break
        a = [[S(x) for x in t], [None if x is None else S(x) for x in m]]
        return {"ref": a, "est": [list(a[0]), list(a[1])]}

    @staticmethod
    def _hz(ms):
        out = []
        for x in ms:
            if x is None:
                out.append(0.0)
            else:
                q = F(x)
                out.append(midi_hz(abs(q)) * (1 if q > 0 else -1))
        return np.array(out)

    def evaluate(self, inp, **kw):
        hz = inp.get("hz") or {}
        if inp.get("reward") is not None:
            kw.setdefault("ref_reward", farr(inp["reward"]))
        if inp.get("est_voicing") is not None:
            kw.setdefault("est_voicing", farr(inp["est_voicing"]))
        args = (farr(inp["ref"][0]), self._hz(inp["ref"][1]) * float(F(hz.get("ref", 1))),
                farr(inp["est"][0]), self._hz(inp["est"][1]) * float(F(hz.get("est", 1))))
        out = collections.OrderedDict()
        try:
            # the documented two-step use: to_cent_voicing(...) and then voicing_recall / voicing_false_alarm on what it returns
            ckw = {k: (np.array(v) if isinstance(v, np.ndarray) else v) for k, v in kw.items()
                   if k in ("est_voicing", "ref_reward", "hop", "kind", "base_frequency")}
            rv, _, ev, _ = mir_eval.melody.to_cent_voicing(*[np.array(a) for a in args], **ckw)
            out["direct:Voicing Recall"] = mir_eval.melody.voicing_recall(rv, ev)
            out["direct:Voicing False Alarm"] = mir_eval.melody.voicing_false_alarm(rv, ev)
        except Exception:  # noqa: BLE001 - the direct route is an extra observation, not a requirement
            pass
        try:
            out.update(mir_eval.melody.evaluate(*args, **kw))
        except Exception:  # noqa: BLE001
            if not out:
                raise           # (whether a valid input may raise is C14's question; the direct scores are still judged)
        return out


class Multipitch(Task):
    name = "multipitch"
    _names = ["Precision", "Recall", "Accuracy", "Substitution Error", "Miss Error", "False Alarm Error",
              "Total Error"]
    RANGE = collections.OrderedDict(
        (p + n, "unit" if n in ("Precision", "Recall", "Accuracy") else "nonneg")
        for p in ("", "Chroma ") for n in ["Precision", "Recall", "Accuracy", "Substitution Error", "Miss Error",
                                            "False Alarm Error", "Total Error"])
    OPT = collections.OrderedDict(
        (p + n, 1.0 if n in ("Precision", "Recall", "Accuracy") else 0.0)
        for p in ("", "Chroma ") for n in ["Precision", "Recall", "Accuracy", "Substitution Error", "Miss Error",
                                            "False Alarm Error", "Total Error"])
    SWAPMAP = {"Precision": "Recall", "Recall": "Precision", "Accuracy": "Accuracy",
               "Chroma Precision": "Chroma Recall", "Chroma Recall": "Chroma Precision",
               "Chroma Accuracy": "Chroma Accuracy"}
    TOLS = [("window", ["0.3", "0.55", "1.05", "2.05"],
             ["Precision", "Recall", "Accuracy", "Chroma Precision", "Chroma Recall", "Chroma Accuracy"])]
    NESTED = [("Precision", "Chroma Precision"), ("Recall", "Chroma Recall"), ("Accuracy", "Chroma Accuracy")]
    SHIFT = True

    def _frames(self, rng, n):
        out = []
        for _ in range(n):
            k = rng.choice([0, 1, 1, 2, 3])
            ms = set()
            while len(ms) < k:
                ms.add(Fr(rng.randint(40, 84)))
            out.append(sorted(ms))
        return out

    def gen(self, rng):
        n = rng.choice([1, 2, 4, 8])
        t = [Fr(i, 8) for i in range(n)]
        rf = self._frames(rng, n)
        ef = []
        for fr_ in rf:
            e = []
            for m in fr_:
                u = rng.random()
                if u < 0.5:
                    e.append(m)
                elif u < 0.65:
                    e.append(m + rng.choice([12, -12]))
                elif u < 0.8:
                    e.append(m + Fr(rng.choice([1, 2, 3, 5, 9]), 8))
            if rng.random() < 0.2:
                e.append(Fr(rng.randint(40, 84)))
            ef.append(sorted(set(e)))
        return {"ref": [[S(x) for x in t], [[S(m) for m in f] for f in rf]],
                "est": [[S(x) for x in t], [[S(m) for m in f] for f in ef]]}

    def gen_self(self, rng):
        while True:
            n = rng.choice([1, 2, 4, 8])
            rf = self._frames(rng, n)
            if any(rf):
                break
        t = [Fr(i, 8) for i in range(n)]
        a = [[S(x) for x in t], [[S(m) for m in f] for f in rf]]
        return {"ref": a, "est": [list(a[0]), [list(f) for f in a[1]]]}

    def evaluate(self, inp, **kw):
        hz = inp.get("hz") or {}
        a, b = float(F(hz.get("ref", 1))), float(F(hz.get("est", 1)))
        rf = [np.array([midi_hz(F(m)) for m in f]) * a for f in inp["ref"][1]]
        ef = [np.array([midi_hz(F(m)) for m in f]) * b for f in inp["est"][1]]
        return mir_eval.multipitch.evaluate(farr(inp["ref"][0], dt_of(inp, "ref")), rf,
                                            farr(inp["est"][0], dt_of(inp, "est")), ef, **kw)

    def gen_typed(self, rng, self_input=False):
        # one frame per whole second (the time stamps are what np.arange(n) gives)
        inp = self.gen_self(rng) if self_input else self.gen(rng)
        n = len(inp["ref"][0])
        for s in ("ref", "est"):
            inp[s] = [[S(Fr(i)) for i in range(n)], inp[s][1]]
        return with_dtypes(rng, inp, self_input)

    def shift(self, inp, c):
        return {s: [[S(F(x) + c) for x in inp[s][0]], inp[s][1]] for s in ("ref", "est")}

    def permute(self, inp, rng):
        out = {}
        for s in ("ref", "est"):
            fr_ = [list(f) for f in inp[s][1]]
            for f in fr_:
                rng.shuffle(f)
            out[s] = [inp[s][0], fr_]
        return out


# =============================================================================================
class Transcription(Task):
    name = "transcription"
    RANGE = {"Precision": "unit", "Recall": "unit", "F-measure": "unit", "Average_Overlap_Ratio": "le1",
             "Precision_no_offset": "unit", "Recall_no_offset": "unit", "F-measure_no_offset": "unit",
             "Average_Overlap_Ratio_no_offset": "le1", "Onset_Precision": "unit", "Onset_Recall": "unit",
             "Onset_F-measure": "unit", "Offset_Precision": "unit", "Offset_Recall": "unit",
             "Offset_F-measure": "unit"}
    OPT = {k: 1.0 for k in RANGE}
    SWAPMAP = {"Precision_no_offset": "Recall_no_offset", "Recall_no_offset": "Precision_no_offset",
               "F-measure_no_offset": "F-measure_no_offset", "Onset_Precision": "Onset_Recall",
               "Onset_Recall": "Onset_Precision", "Onset_F-measure": "Onset_F-measure"}
    _prf = ["Precision", "Recall", "F-measure", "Precision_no_offset", "Recall_no_offset", "F-measure_no_offset"]
    TOLS = [("onset_tolerance", ["1/32", "1/16", "1/8", "1/4"],
             _prf + ["Onset_Precision", "Onset_Recall", "Onset_F-measure"]),
            ("pitch_tolerance", ["20", "50", "80", "130"], _prf),
            ("offset_ratio", ["1/8", "1/4", "1/2"], ["Precision", "Recall", "F-measure", "Offset_Precision",
                                                     "Offset_Recall", "Offset_F-measure"]),
            ("offset_min_tolerance", ["1/32", "1/16", "1/4"], ["Precision", "Recall", "F-measure",
                                                               "Offset_Precision", "Offset_Recall",
                                                               "Offset_F-measure"])]
    NESTED = [("Precision", "Precision_no_offset"), ("Recall", "Recall_no_offset"),
              ("F-measure", "F-measure_no_offset"), ("Precision_no_offset", "Onset_Precision"),
              ("Recall_no_offset", "Onset_Recall"), ("F-measure_no_offset", "Onset_F-measure")]
    SHIFT = True
    BIG_SHIFT = True
    PERM_SCORES = _prf + ["Onset_Precision", "Onset_Recall", "Onset_F-measure", "Offset_Precision", "Offset_Recall",
                          "Offset_F-measure"]

    def _notes(self, rng, n):
        notes = []
        for _ in range(n):
            on = Fr(rng.randint(0, 8 * 16), 16)
            dur = Fr(rng.randint(1, 32), 16)
            notes.append([on, on + dur, Fr(rng.randint(40, 84))])
        return notes

    def gen(self, rng):
        n = rng.choice([0, 1, 2, 3, 5, 8])
        ref = self._notes(rng, n)
        if rng.random() < 0.3:
            # decimal grid (multiples of 0.05 s): distances equal to the default tolerances are NOT exact in
            # binary64, which is what the code's 4-decimal rounding of distances is for
            ref = [[Fr(int(on * 16), 20), Fr(int(on * 16), 20) + Fr(max(1, int((off - on) * 16)), 20), m] for on, off, m in ref]
            est = []
            for on, off, m in ref:
                if rng.random() < 0.15:
                    continue
                on2 = max(Fr(0), on + rng.choice([0, Fr(1, 20), -Fr(1, 20), Fr(1, 10)]))
                off2 = max(on2 + Fr(1, 20), off + rng.choice([0, Fr(1, 20), -Fr(1, 20), (off - on) / 5, Fr(1, 4)]))
                est.append([on2, off2, m + rng.choice([0, 0, Fr(1, 4), 12])])
            out = {"ref": [[S(v) for v in x] for x in ref], "est": [[S(v) for v in x] for x in est],
                   "lattice": "decimal"}
            if rng.random() < 0.5:
                out["kw"] = {"strict": True}
            return out
        est = []
        for on, off, m in ref:
            u = rng.random()
            if u < 0.15:
                continue
            # 51/1024 and 52/1024 s straddle the default 50 ms onset tolerance after the code's 4-decimal rounding
            d_on = rng.choice([0, 0, Fr(1, 16), -Fr(1, 16), Fr(1, 32), Fr(1, 8), Fr(51, 1024), -Fr(51, 1024),
                               Fr(52, 1024)])
            d_off = rng.choice([0, 0, Fr(1, 16), Fr(1, 8), -Fr(1, 16), Fr(1, 2)])
            dm = rng.choice([0, 0, 0, Fr(1, 4), -Fr(3, 8), 1, 12])
            on2 = max(Fr(0), on + d_on)
            off2 = max(on2 + Fr(1, 16), off + d_off)
            est.append([on2, off2, m + dm])
        est += self._notes(rng, rng.choice([0, 0, 1, 2]))
        if rng.random() < 0.3 and ref:
            ref.append(list(rng.choice(ref)))  # duplicated note
        if rng.random() < 0.25 and est:
            e = list(rng.choice(est))          # the same note reported two or three times by the estimate
            est += [list(e) for _ in range(rng.choice([1, 2]))]
        return {"ref": [[S(v) for v in x] for x in ref], "est": [[S(v) for v in x] for x in est]}

    def gen_self(self, rng):
        ref = self._notes(rng, rng.choice([1, 2, 3, 5, 8]))
        a = [[S(v) for v in x] for x in ref]
        return {"ref": a, "est": [list(x) for x in a]}

    @staticmethod
    def _split(notes, dtype=None):
        iv = typed(np.array([[float(F(a)), float(F(b))] for a, b, _ in notes]).reshape(-1, 2), dtype)
        p = np.array([midi_hz(F(m)) for _, _, m in notes])
        return iv, p

    def _typed_notes(self, rng, self_input):
        # note onsets and offsets on whole seconds
        ref = []
        for _ in range(rng.choice([1, 2, 3, 5, 8])):
            on = Fr(rng.randint(0, 10))
            ref.append([on, on + rng.choice([1, 1, 2, 3, 5]), Fr(rng.randint(40, 84))])
        if self_input:
            return ref, [list(n) for n in ref]
        est = []
        whole = rng.random() < 0.4
        for on, off, m in ref:
            if rng.random() < 0.15:
                continue
            if whole:
                on2 = max(Fr(0), on + rng.choice([0, 0, 0, 1, -1]))
                off2 = max(on2 + 1, off + rng.choice([0, 0, 1, -1, 2]))
            else:
                on2 = max(Fr(0), on + rng.choice([0, 0, Fr(1, 16), -Fr(1, 16), Fr(1, 32), Fr(1, 8), Fr(7, 16), -Fr(9, 16)]))
                off2 = max(on2 + Fr(1, 16), off + rng.choice([0, 0, Fr(1, 16), Fr(1, 8), -Fr(1, 16), Fr(1, 2), -Fr(9, 16)]))
            est.append([on2, off2, m + rng.choice([0, 0, 0, Fr(1, 4), 1, 12])])
        return ref, est

    def gen_typed(self, rng, self_input=False):
        ref, est = self._typed_notes(rng, self_input)
        return with_dtypes(rng, {"ref": [[S(v) for v in x] for x in ref], "est": [[S(v) for v in x] for x in est]},
                           self_input)

    def evaluate(self, inp, **kw):
        hz = inp.get("hz") or {}
        ri, rp = self._split(inp["ref"], dt_of(inp, "ref"))
        ei, ep = self._split(inp["est"], dt_of(inp, "est"))
        return mir_eval.transcription.evaluate(ri, rp * float(F(hz.get("ref", 1))), ei, ep * float(F(hz.get("est", 1))), **kw)

    def shift(self, inp, c):
        return {s: [[S(F(a) + c), S(F(b) + c), m] for a, b, m in inp[s]] for s in ("ref", "est")}

    def permute(self, inp, rng):
        out = {}
        for s in ("ref", "est"):
            x = [list(n) for n in inp[s]]
            rng.shuffle(x)
            out[s] = x
        return out


class TranscriptionVelocity(Transcription):
    name = "transcription_velocity"
    RANGE = {"Precision": "unit", "Recall": "unit", "F-measure": "unit", "Average_Overlap_Ratio": "le1",
             "Precision_no_offset": "unit", "Recall_no_offset": "unit", "F-measure_no_offset": "unit",
             "Average_Overlap_Ratio_no_offset": "le1"}
    OPT = {k: 1.0 for k in RANGE}
    SWAPMAP = None
    TOLS = [("velocity_tolerance", ["0.05", "0.1", "0.3", "0.9"],
             ["Precision", "Recall", "F-measure", "Precision_no_offset", "Recall_no_offset", "F-measure_no_offset"])]
    NESTED = [(k, "plain:" + k) for k in ["Precision", "Recall", "F-measure", "Precision_no_offset",
                                          "Recall_no_offset", "F-measure_no_offset"]]
    SHIFT = False

    def permute(self, inp, rng):
        return None

    def gen(self, rng):
        inp = Transcription.gen(self, rng)
        for s in ("ref", "est"):
            inp[s] = [n + [S(rng.randint(20, 120))] for n in inp[s]]
        if "kw" not in inp and rng.random() < 0.3:
            inp["kw"] = {"strict": True}
        return inp

    def gen_self(self, rng):
        inp = Transcription.gen_self(self, rng)
        vel = [S(rng.randint(20, 120)) for _ in inp["ref"]]
        if rng.random() < 0.3:
            vel = [vel[0]] * len(vel)          # fixed-velocity annotation
        inp["ref"] = [n + [v] for n, v in zip(inp["ref"], vel)]
        inp["est"] = [list(n) for n in inp["ref"]]
        return inp

    def gen_typed(self, rng, self_input=False):
        ref, est = self._typed_notes(rng, self_input)
        ref = [n + [Fr(rng.randint(20, 120))] for n in ref]
        est = [list(n) for n in ref] if self_input else [n + [Fr(rng.randint(20, 120))] for n in est]
        inp = with_dtypes(rng, {"ref": [[S(v) for v in x] for x in ref], "est": [[S(v) for v in x] for x in est]},
                          self_input)
        # MIDI velocities (whole numbers 0..127) in the container a MIDI reader hands over
        vd = {s: rng.choice(["uint8", "int8", "int16", "uint16", "int32", "int64", None]) for s in ("ref", "est")}
        if self_input and rng.random() < 0.5:
            vd["est"] = vd["ref"]
        inp["vdtype"] = {k: v for k, v in vd.items() if v}
        return inp

    @staticmethod
    def _split4(notes, dtype=None, vdtype=None):
        iv = typed(np.array([[float(F(n[0])), float(F(n[1]))] for n in notes]).reshape(-1, 2), dtype)
        p = np.array([midi_hz(F(n[2])) for n in notes])
        v = np.array([float(F(n[3])) for n in notes])
        if vdtype and np.array_equal(v.astype(vdtype).astype(float), v):
            v = v.astype(vdtype)        # same values, other dtype
        return iv, p, v

    def evaluate(self, inp, **kw):
        vd = inp.get("vdtype") or {}
        ri, rp, rv = self._split4(inp["ref"], dt_of(inp, "ref"), vd.get("ref"))
        ei, ep, ev = self._split4(inp["est"], dt_of(inp, "est"), vd.get("est"))
        out = mir_eval.transcription_velocity.evaluate(ri, rp, rv, ei, ep, ev, **kw)
        kw2 = {k: v for k, v in kw.items() if k != "velocity_tolerance"}
        plain = mir_eval.transcription.evaluate(ri, rp, ei, ep, **kw2)
        for k, v in plain.items():
            out["plain:" + k] = v
        return out

    def shift(self, inp, c):
        return {s: [[S(F(n[0]) + c), S(F(n[1]) + c), n[2], n[3]] for n in inp[s]] for s in ("ref", "est")}


# =============================================================================================
class Tempo(Task):
    name = "tempo"
    RANGE = {"P-score": "unit", "One-correct": "binary", "Both-correct": "binary"}
    OPT = {"P-score": 1.0, "One-correct": 1.0, "Both-correct": 1.0}
    TOLS = [("tol", ["0", "1/25", "2/25", "1/2", "1"], ["P-score", "One-correct", "Both-correct"])]
    NESTED = [("Both-correct", "One-correct")]

    def gen(self, rng):
        a = rng.randint(30, 120)
        b = a * rng.choice([2, 3]) if rng.random() < 0.5 else rng.randint(a + 1, 240)
        ref = [Fr(a), Fr(b)]
        w = Fr(rng.randint(0, 8), 8)
        est = [ref[0] * rng.choice([1, 1, Fr(27, 25), Fr(26, 25), Fr(3, 2)]),
               ref[1] * rng.choice([1, 1, Fr(23, 25), Fr(24, 25), Fr(1, 2)])]
        if rng.random() < 0.1:
            ref[0] = Fr(0)   # "0 = no slower tempo" is allowed for the reference
        return {"ref": [[S(x) for x in ref], S(w)], "est": [S(x) for x in est]}

    def gen_self(self, rng):
        a = rng.randint(30, 120)
        ref = [Fr(a), Fr(a * 2)]
        return {"ref": [[S(x) for x in ref], S(Fr(rng.randint(0, 8), 8))], "est": [S(x) for x in ref]}

    def evaluate(self, inp, **kw):
        return mir_eval.tempo.evaluate(farr(inp["ref"][0]), float(F(inp["ref"][1])), farr(inp["est"]), **kw)

    def permute(self, inp, rng):
        return {"ref": inp["ref"], "est": list(reversed(inp["est"]))}


KEYS = [r + " " + m for r in ["C", "C#", "Db", "D", "D#", "Eb", "E", "F", "F#", "Gb", "G", "G#", "Ab", "A", "A#", "Bb", "B"]
        for m in ["major", "minor", "other"]]


class Key(Task):
    name = "key"
    RANGE = {"Weighted Score": "unit"}
    OPT = {"Weighted Score": 1.0}

    def gen(self, rng):
        return {"ref": rng.choice(KEYS), "est": rng.choice(KEYS)}

    def gen_self(self, rng):
        k = rng.choice([k for k in KEYS if not k.endswith("other")] + ["X", "x"])
        return {"ref": k, "est": k}

    def evaluate(self, inp, **kw):
        return mir_eval.key.evaluate(inp["ref"], inp["est"], **kw)


class Alignment(Task):
    name = "alignment"
    RANGE = {"pc": "unit", "mae": "nonneg", "aae": "nonneg", "pcs": "unit", "perceptual": "nonneg"}
    OPT = {"pc": 1.0, "mae": 0.0, "aae": 0.0, "pcs": 1.0}
    TOLS = [("window", ["1/32", "1/8", "3/10", "1", "4"], ["pc"])]
    SHIFT = True
    SHIFT_SCORES = ["pc", "mae", "aae", "pcs"]

    def gen(self, rng):
        n = rng.choice([2, 3, 5, 8])
        ref, t = [], Fr(rng.randint(0, 32), 32)
        for _ in range(n):
            ref.append(t)
            t += Fr(rng.randint(1, 64), 32)
        est = sorted(max(Fr(0), r + Fr(rng.choice([0, 0, 1, -1, 4, -4, 10, 32]), 32)) for r in ref)
        return {"ref": [S(x) for x in ref], "est": [S(x) for x in est]}

    def gen_self(self, rng):
        inp = self.gen(rng)
        return {"ref": inp["ref"], "est": list(inp["ref"])}

    def gen_typed(self, rng, self_input=False):
        ref, t = [], Fr(rng.randint(0, 3))
        for _ in range(rng.choice([2, 3, 5, 8])):
            ref.append(t)
            t += rng.randint(1, 3)
        if self_input:
            est = list(ref)
        elif rng.random() < 0.5:
            est = sorted(max(Fr(0), r + rng.choice([0, 0, 1, -1, 2])) for r in ref)
        else:
            est = sorted(max(Fr(0), r + Fr(rng.choice([0, 0, 1, -1, 4, -4, 10, 32, 9, -11]), 32)) for r in ref)
        return with_dtypes(rng, {"ref": [S(x) for x in ref], "est": [S(x) for x in est]}, self_input)

    def evaluate(self, inp, **kw):
        return mir_eval.alignment.evaluate(farr(inp["ref"], dt_of(inp, "ref")), farr(inp["est"], dt_of(inp, "est")), **kw)

    def shift(self, inp, c):
        return {"ref": [S(F(x) + c) for x in inp["ref"]], "est": [S(F(x) + c) for x in inp["est"]]}


class Pattern(Task):
    name = "pattern"
    _k = ["F", "P", "R", "F_est", "P_est", "R_est", "F_occ.5", "P_occ.5", "R_occ.5", "F_occ.75", "P_occ.75",
          "R_occ.75", "F_3", "P_3", "R_3", "FFP", "FFTP_est"]
    RANGE = {k: "unit" for k in _k}
    OPT = {k: 1.0 for k in _k}
    SWAPMAP = {"F_est": "F_est", "P_est": "R_est", "R_est": "P_est", "F_occ.5": "F_occ.5", "P_occ.5": "R_occ.5",
               "R_occ.5": "P_occ.5", "F_occ.75": "F_occ.75", "P_occ.75": "R_occ.75", "R_occ.75": "P_occ.75",
               "F_3": "F_3", "P_3": "R_3", "R_3": "P_3"}
    SHIFT = True
    PERM_SCORES = ["F", "P", "R", "F_est", "P_est", "R_est", "F_occ.5", "P_occ.5", "R_occ.5", "F_occ.75",
                   "P_occ.75", "R_occ.75", "F_3", "P_3", "R_3"]

    def _occ(self, rng, n):
        pts = set()
        while len(pts) < n:
            pts.add((Fr(rng.randint(0, 64), 4), rng.randint(55, 75)))
        return sorted(pts)

    def _patterns(self, rng, npat, dup=False):
        pats = []
        for _ in range(npat):
            base = self._occ(rng, rng.randint(1, 5))
            occs = [base]
            for _ in range(rng.choice([0, 1, 2])):
                dt = Fr(rng.randint(1, 40), 4)
                occ = [(t + dt, p) for t, p in base]
                if rng.random() < 0.3 and len(occ) > 1:
                    occ = occ[:-1]
                if dup and rng.random() < 0.25:
                    # the same (onset, pitch) listed twice: the occurrence is no longer a set of notes (used for the
                    # range claim only; not a non-degenerate annotation for the perfect-estimate claim)
                    occ = occ + [rng.choice(occ)]
                occs.append(occ)
            pats.append(occs)
        return pats

    def _near_family(self, rng):
        """prototypes that are translations of one another only UP TO the tolerance (default tol = 1e-5): the later
        notes of variant j come 0.6e-5 * j s late, so variants j, k match iff |j - k| <= 1 - a relation that is not
        transitive.  Which reference patterns have a matching estimate does not depend on the order of either list."""
        base = self._occ(rng, rng.randint(2, 4))

        def pat(j):
            dt = Fr(rng.randint(0, 40), 4)
            occ = [(base[0][0] + dt, base[0][1])] + [(t + dt + Fr(6 * j, 10 ** 6), m) for t, m in base[1:]]
            occs = [occ]
            if rng.random() < 0.4:
                d2 = Fr(rng.randint(1, 40), 4)
                occs.append([(t + d2, m) for t, m in occ])
            return occs
        nq = rng.randint(2, 4)
        est = [pat(j) for j in (rng.sample(range(5), nq) if rng.random() < 0.7 else [rng.randrange(5) for _ in range(nq)])]
        ref = [pat(j) for j in rng.sample(range(5), rng.randint(2, nq))]
        if rng.random() < 0.3:
            ref += self._patterns(rng, 1)
            est += self._patterns(rng, 1)
        return {"ref": self._ser(ref), "est": self._ser(est)}

    def gen(self, rng):
        if rng.random() < 0.15:
            return self._near_family(rng)
        ref = self._patterns(rng, rng.choice([1, 2, 3]), dup=True)
        if rng.random() < 0.5:
            est = [[list(o) for o in p if rng.random() < 0.8] or [list(p[0])] for p in ref if rng.random() < 0.8]
            if rng.random() < 0.5:
                # the estimate lists each note once where the reference repeats one (and keeps the order)
                est = [[sorted(set(o)) for o in p] for p in est]
            est = est or self._patterns(rng, 1)
            est += self._patterns(rng, rng.choice([0, 1]), dup=True)
        else:
            est = self._patterns(rng, rng.choice([1, 2, 3]), dup=True)
        return {"ref": self._ser(ref), "est": self._ser(est)}

    def gen_self(self, rng):
        # patterns that are not translations of one another (distinct interval structure)
        while True:
            ref = self._patterns(rng, rng.choice([1, 2, 3]))
            sigs = set()
            ok = True
            for p in ref:
                o = p[0]
                sig = tuple((t - o[0][0], m - o[0][1]) for t, m in o)
                if sig in sigs:
                    ok = False
                sigs.add(sig)
            if ok:
                break
        a = self._ser(ref)
        return {"ref": a, "est": [[list(map(list, o)) for o in p] for p in a]}

    @staticmethod
    def _ser(pats):
        return [[[[S(t), m] for t, m in occ] for occ in p] for p in pats]

    @staticmethod
    def _de(pats):
        return [[[(float(F(t)), m) for t, m in occ] for occ in p] for p in pats]

    def evaluate(self, inp, **kw):
        return mir_eval.pattern.evaluate(self._de(inp["ref"]), self._de(inp["est"]), **kw)

    def shift(self, inp, c):
        return {s: [[[[S(F(t) + c), m] for t, m in occ] for occ in p] for p in inp[s]] for s in ("ref", "est")}

    def permute(self, inp, rng):
        ref = [p for p in inp["ref"]]
        rng.shuffle(ref)
        est = [p for p in inp["est"]]
        if rng.random() < 0.5:
            rng.shuffle(est)
        return {"ref": ref, "est": est}


TASKS = collections.OrderedDict((t.name, t) for t in [
    Beat(), Onset(), Segment(), Chord(), Melody(), Multipitch(), Transcription(), TranscriptionVelocity(),
    Tempo(), Key(), Pattern(), Hierarchy(), Alignment()])


def scalar(v):
    """a score value as a float, or None when it is not a real scalar"""
    if isinstance(v, (bool, np.bool_)):
        return float(v)
    if isinstance(v, (int, float, np.integer, np.floating)):
        return float(v)
    if isinstance(v, np.ndarray) and v.ndim == 0:
        return float(v)
    return None


def in_range(kind, x, inp=None):
    if kind == "any":
        return True
    if x is None:
        return False
    if kind == "dev":
        return math.isnan(x) or (math.isfinite(x) and x >= 0)
    if not math.isfinite(x):
        return False
    if kind == "unit":
        return -1e-9 <= x <= 1 + 1e-9
    if kind == "binary":
        return x == 0.0 or x == 1.0
    if kind == "le1":
        return x <= 1 + 1e-9
    if kind == "nonneg":
        return x >= -1e-9
    raise ValueError(kind)
