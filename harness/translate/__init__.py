"""Source -> Lean translator driver (DESIGN.md §1, §6.3).

Each part module `harness/translate/<part>.py` exposes

    generate(repo: str, outdir: str) -> (obligations: list[str], problems: list[{"name","detail"}])

and writes `lean/MirGen/<Something>.lean` from the *current* source under `repo` (content-addressed:
use `write_if_changed`).  `obligations` names what was regenerated (they are counted as generated
obligations in the evidence); `problems` lists source constructs outside the translator's subset —
the translator fails closed.
"""
import importlib
import os

PARTS = ["tables", "signatures", "evalprogs", "effects", "regex", "scalars", "scalars_key", "scalars_chord", "defaults"]
PARTS += ["hkshape"]      # no generated file: the pinned shape of util._bipartite_match (C05)
PARTS += ["ioload"]       # mir_eval/io.py loaders -> MirGen/IOLoad.lean (C20)
PARTS += ["chordfns"]
PARTS += ["chordfns_rotate"]
PARTS += ["segindex"]
PARTS += ["utilint"]      # mir_eval/util.py interval pre-processing -> MirGen/UtilInt.lean (C13)
PARTS += ["chordseg"]     # mir_eval/chord.py segmentation / weighting -> MirGen/ChordSeg.lean (C12; translator: utilint.py)
PARTS += ["multipitch"]   # mir_eval/multipitch.py count functions, resampling, metrics -> MirGen/Multipitch.lean (C18)
PARTS += ["evglue"]       # event-metric glue: util.match_events / _fast_hit_windows, onset / beat F, segment.detection / deviation -> MirGen/EvGlue.lean (C04)
PARTS += ["chordcmp"]     # mir_eval/chord.py comparison functions -> MirGen/ChordCmp.lean (C11)
PARTS += ["hierarchy"]    # mir_eval/hierarchy.py T-/L-measure kernels -> MirGen/Hierarchy.lean (C17)
PARTS += ["trmatch"]      # transcription.match_note_onsets / _offsets / match_notes + the three P/R/F functions -> MirGen/TrMatch.lean (C05, C04)
PARTS += ["melody"]       # mir_eval/melody.py frame metrics, validation, freq_to_voicing, time base -> MirGen/Melody.lean (C04)
PARTS += ["trvel"]        # transcription.average_overlap_ratio + transcription_velocity.match_notes / precision_recall_f1_overlap -> MirGen/TrVel.lean (C04, C05, C02)
PARTS += ["validators"]   # mir_eval input validators -> MirGen/Validators.lean (C14)
PARTS += ["sepcrit"]      # mir_eval/separation.py criteria, decomposition arithmetic -> MirGen/SepCrit.lean (C19)
PARTS += ["pattern"]      # mir_eval/pattern.py metrics -> MirGen/Pattern.lean (C04, C01; after validators: binds to Mir.GenV.pattern.*)
PARTS += ["beat"]         # mir_eval/beat.py trim_beats, _get_reference_beat_variations, p_score -> MirGen/Beat.lean (C04)
PARTS += ["evalglue"]     # onset.evaluate / tempo.evaluate glue -> MirGen/EvalGlue.lean (C04; translator: alignment.py; binds the evglue part's metrics)
PARTS += ["alignment"]    # mir_eval/alignment.py metrics + evaluate glue -> MirGen/Alignment.lean (C04; binds Mir.GenV.alignment.validate)


def write_if_changed(path, text):
    try:
        if open(path).read() == text:
            return False
    except OSError:
        pass
    tmp = path + ".tmp"
    with open(tmp, "w") as fh:
        fh.write(text)
    os.replace(tmp, path)
    return True


def regenerate(repo, outdir, only=None):
    """Regenerates the parts in `only` (None = all) and returns their obligations and problems. A property depends on
    the parts it names in TRANSLATOR_PARTS; the other generated files are left as they are on disk (they only feed
    driver operations that this property's suites do not use)."""
    obligations, problems = [], []
    here = os.path.dirname(os.path.abspath(__file__))
    for part in PARTS:
        if not os.path.exists(os.path.join(here, part + ".py")):
            continue
        if only is not None and part not in only:
            continue
        mod = importlib.import_module("translate." + part)
        try:
            o, p = mod.generate(repo, outdir)
        except Exception as e:  # noqa: BLE001 - a crashing part is a problem of that part only
            o, p = [], [{"name": "translate." + part, "detail": "%s: %s" % (type(e).__name__, e)}]
        obligations += o
        problems += p
    return obligations, problems
