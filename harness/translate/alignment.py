"""mir_eval.alignment metrics and the glue of `evaluate` -> lean/MirGen/Alignment.lean  (AST based; mir_eval is never
imported).  Translator part `alignment` (C04 / C01 / C07).

One SHALLOW Lean definition per translated function, `Mir.Gen.alignment.<function>`, over the run-time libraries
`lean/MirModel/PyAl.lean` (`Mir.PyAl`) and `lean/MirModel/PyMel.lean` (`Mir.PyMel`, + `Mir.PyM.divNp`), plus a driver handler
(`Mir.Gen.Alignment.handler`, protocol op `gen.alignment <"function"> <args...>`; `gen.alignment "?"` lists the translated
functions).  `MirProofs/Props/C04_GenAlignment.lean` proves every one of them equal to the hand-written model
(`MirModel/Alignment.lean`) for ALL timestamp lists.

An extension of the `melody` translator (itself an extension of `segindex` / `multipitch`; their outputs are untouched):
float arrays with NumPy broadcasting, masks, `np.abs`, `np.sum`, the typing of `/`, `if p is not None`, `raise`,
`**kwargs` through `filter_kwargs`, the OrderedDict of `evaluate` are inherited.  Fails closed: anything not listed is
`Unsupported` => the function is not emitted => translator problem => broken obligation.

ADDED SUBSET
  parameters   `np.ndarray` = a 1-D float array of timestamps (`List Rat`); `float`; a `float` parameter whose default is
               `None` (`Option Rat`).
  statements   `validate(a, b)`: BOUND to the definition the `validators` part regenerates from the same source,
               `Mir.GenV.alignment.validate (Arr.vec a) (Arr.vec b)` (it must have been translated there on this run);
               `raise <Builtin>Error(<literal or f-string>)`: the interpolated expressions of an f-string are evaluated
               first, in order (they may raise), their values are dropped;
               `d[k1], d[k2] = <tuple>` on the score dictionary.
  expressions  `np.median(a)`, `np.mean(a)`, `np.mean(<mask>)` (NumPy scalars that are nan on an empty array:
               `Segment.Num`), `np.max(a)` (ValueError on an empty array), `a[<int literal>]` (IndexError), `a[:-1]`,
               `a[1:]`, `np.concatenate([<list display | array>, ...])`, `np.maximum` / `np.minimum` of two arrays
               (broadcasting) or an array and a scalar, `filter_kwargs(f, ...)` imported from `mir_eval.util`.
  TRANSCENDENTAL FUNCTIONS (a function that calls `skewnorm.pdf`, or calls such a function) are emitted polymorphic over
               a type `α` of numbers with the hand model's record of operations `o : Mir.Alignment.TrOps α`:
               arithmetic between Python floats is carried out in `α` (`o.ofRat` lifts literals, float locals and the exact
               elements of a float array); `/` needs a divisor that is a local bound to a non-zero literal;
               `skewnorm.pdf(<array>, <float>, loc=<float>, scale=<local bound to a positive literal>)` elementwise
               (`PyAl.skewnormPdf`), `<α> * <α array>`, `np.mean(<α array>)` (`PyAl.tmean`); the score dictionary holds
               `PyAl.Score α` values.

`python harness/translate/alignment.py [repo]` prints the generated file.
"""
import ast
import os
import sys

try:
    from translate import write_if_changed
    from translate import segindex as SI
    from translate import multipitch as MP
    from translate import melody as ML
except ImportError:  # run as a script
    sys.path.insert(0, os.path.dirname(os.path.dirname(os.path.abspath(__file__))))
    from translate import write_if_changed
    from translate import segindex as SI
    from translate import multipitch as MP
    from translate import melody as ML

from translate.segindex import (Unsupported, E, NAT, INT, RAT, NUM, BOOL, NONE, NUMERIC, VEC, TUP, OPT, MASK, ident,  # noqa: E402
                                indent, coerce, const_expr, dotted, assigned_names, show_type, doc_param_types, Sig)
from translate.melody import FVEC, BMASK, DICT, EXC, is_none_test  # noqa: E402

# functions of mir_eval/alignment.py, in emission order; REQUIRED: one that leaves the subset is a translator problem
WANTED = ["absolute_error", "percentage_correct", "percentage_correct_segments", "karaoke_perceptual_metric", "evaluate"]

ATR = ("atr",)                  # a number of the perceptual metric (α)
AVEC = VEC(ATR)
DICTA = ("dicta",)              # the OrderedDict of a transcendental `evaluate`: List (String × PyAl.Score α)
DICTV = ("dictv",)              # an OrderedDict of numbers and booleans (part `evalglue`): List (String × PyAl.SVal)
TRPRE = "{α : Type} [Add α] [Sub α] [Mul α] [Div α] [Neg α] (o : Mir.Alignment.TrOps α) "

_ml_lean_type = SI.lean_type    # (melody's extension, installed when translate.melody was imported)


def lean_type(t):
    if t == ATR:
        return "α"
    if t == DICTA:
        return "(List (String × Mir.PyAl.Score α))"
    if t == DICTV:
        return "(List (String × Mir.PyAl.SVal))"
    return _ml_lean_type(t)


# a pure extension of the type printer shared by segindex / multipitch / melody (the two kinds never arise there)
SI.lean_type = lean_type
MP.lean_type = lean_type
ML.lean_type = lean_type


def param_type(fname, text, node, default_none):
    import re
    t = text.strip().lower()
    if re.match(r"^np\.ndarray(, shape=\(\w+,\))?$", t) and not default_none:
        return FVEC
    if re.match(r"^float\b", t) and not re.search(r"array|list|tuple|none|\bor\b", t):
        return OPT(RAT) if default_none else RAT
    raise Unsupported("documented parameter type %r is outside the subset" % text, node)


def validators_has_alignment_validate(repo):
    """is `alignment.validate` regenerated by the `validators` part from THIS source (then `Mir.GenV.alignment.validate`
    exists in lean/MirGen/Validators.lean)?"""
    try:
        from translate import validators as V
        _, sigs, _ = V.translate_all(repo)
        return ("alignment", "validate") in sigs
    except Exception:  # noqa: BLE001
        return False


class Module(ML.Module):
    modname = "alignment"
    WANT = {"np": "numpy", "collections": "collections"}
    REQUIRED = ("np",)
    FK_NAMES = ("filter_kwargs",)          # how this module spells mir_eval.util.filter_kwargs

    def __init__(self, source, repo):
        ML.Module.__init__(self, source)
        self.repo = repo
        self._has_validate = None
        # transcendental functions: least fixpoint of "calls skewnorm.pdf, or mentions a transcendental function"
        self.al_tr = set()
        changed = True
        while changed:
            changed = False
            for fname, defs in self.funcs.items():
                if fname in self.al_tr:
                    continue
                for nd in ast.walk(defs[0]):
                    if (isinstance(nd, ast.Call) and dotted(nd.func) == "skewnorm.pdf") or (
                            isinstance(nd, ast.Name) and nd.id in self.al_tr and isinstance(nd.ctx, ast.Load)):
                        self.al_tr.add(fname)
                        changed = True
                        break

    def has_validate(self):
        if self._has_validate is None:
            self._has_validate = validators_has_alignment_validate(self.repo)
        return self._has_validate

    def extern_sig(self, fname, node):
        raise Unsupported("no extern %s" % fname, node)

    def translate_def(self, fn):
        return translate_def(self, fn)

    translate = MP.Module.translate


class Body(ML.Body):
    def __init__(self, module, fn, name, params, body, what="", kwparams=()):
        ML.Body.__init__(self, module, fn, name, params, body, what=what, kwparams=kwparams)
        self.atr = fn.name in module.al_tr
        self.consts = {}             # local name -> the float / int literal it is currently bound to

    # -- whole function ---------------------------------------------------------------------------------------------------
    def translate(self):
        self.consts = {}
        out = ML.Body.translate(self)
        if self.atr:
            sig, lines = out[-1]
            sig.atr = True
            head = "def %s " % ident(self.name)
            for i, ln in enumerate(lines):
                if ln.startswith(head):
                    lines[i] = head + TRPRE + ln[len(head):]
                    break
            else:
                raise Unsupported("internal: no definition line", self.fn)
        return out

    def callee(self, sig):
        if getattr(sig, "lean_name", None):
            return sig.lean_name               # an extern bound to a definition of another generated file
        return ident(sig.name) + (" o" if getattr(sig, "atr", False) else "")

    def dict_type(self):
        """the Lean reading of an OrderedDict created by this function"""
        return DICTA if self.atr else DICT

    # -- statements -----------------------------------------------------------------------------------------------------
    def stmts(self, sts, env, k):
        if not sts:
            return k(env)
        s, rest = sts[0], sts[1:]

        def cont(env2):
            return self.stmts(rest, env2, k)

        if isinstance(s, ast.Raise):
            return self.raise_fstring(s, env)
        if isinstance(s, ast.Assign) and len(s.targets) == 1 and isinstance(s.targets[0], ast.Tuple) \
                and s.targets[0].elts and all(isinstance(t, ast.Subscript) for t in s.targets[0].elts):
            return self.dict_store_tuple(s, env, cont)
        if isinstance(s, ast.Assign) and len(s.targets) == 1 and isinstance(s.targets[0], ast.Subscript) \
                and isinstance(s.targets[0].value, ast.Name) and env.get(s.targets[0].value.id, (None,))[0] in (DICTA, DICTV):
            return self.dict_store(s, env, cont)
        if isinstance(s, (ast.Assign, ast.AugAssign)):
            for n in assigned_names([s]):
                self.consts.pop(n, None)
            if isinstance(s, ast.Assign) and len(s.targets) == 1 and isinstance(s.targets[0], ast.Name):
                try:
                    c = const_expr(s.value)
                    if c.ty in (NAT, INT, RAT):
                        self.consts[s.targets[0].id] = c.lit
                except Unsupported:
                    pass
        if isinstance(s, ast.If):
            # a literal binding made in one branch only must not be relied on after the join: each branch is translated
            # with the continuation (no join), so restoring the table per branch is enough
            saved = dict(self.consts)
            try:
                return ML.Body.stmts(self, sts, env, k)
            finally:
                self.consts = saved
        return ML.Body.stmts(self, sts, env, k)

    def if_none(self, s, env, cont):
        saved = dict(self.consts)

        def cont2(env2):
            return cont(env2)
        x, is_none = is_none_test(s.test)
        if x not in env or env[x][0][0] != "opt":
            raise Unsupported("`is None` on a value that is not a None-able parameter", s)
        inner = env[x][0][1]
        some_body, none_body = (s.orelse, s.body) if is_none else (s.body, s.orelse)
        env_some, env_none = dict(env), dict(env)
        env_some[x] = (inner, False, False)
        env_none[x] = (NONE, False, False)
        self.consts = dict(saved)
        some_lines = self.stmts(list(some_body), env_some, cont2)
        self.consts = dict(saved)
        none_lines = self.stmts(list(none_body), env_none, cont2)
        self.consts = saved
        return ["match %s with" % ident(x), "| some %s => do" % ident(x)] + indent(some_lines, 4) + [
            "| none => do"] + indent(none_lines, 4)

    def raise_fstring(self, s, env):
        x = s.exc
        if s.cause is not None or not (isinstance(x, ast.Call) and isinstance(x.func, ast.Name) and x.func.id in EXC
                                       and x.func.id not in self.locals and x.func.id not in self.m.funcs
                                       and x.func.id not in self.m.assigned and x.func.id not in self.m.imports):
            raise Unsupported("raise of anything but a builtin exception class called on a message", s)
        if x.keywords or len(x.args) != 1:
            raise Unsupported("exception called on anything but one message", s)
        msg = x.args[0]
        binds = []
        if isinstance(msg, ast.JoinedStr):
            for part in msg.values:
                if isinstance(part, ast.Constant) and isinstance(part.value, str):
                    continue
                if not isinstance(part, ast.FormattedValue) or part.format_spec is not None or part.conversion != -1:
                    raise Unsupported("f-string part with a conversion / format specification", s)
                self.expr(part.value, env, binds)        # evaluated (it may raise), the value is dropped
        elif not (isinstance(msg, ast.Constant) and isinstance(msg.value, str)):
            raise Unsupported("exception message that is not a string literal / f-string", s)
        return self.bind_lines(binds) + ["throw PyErr.%s" % EXC[x.func.id]]

    def score_term(self, v, node, dt=DICTA):
        if dt == DICTV:
            if v.ty in NUMERIC:
                return "(Mir.PyAl.SVal.num %s)" % coerce(v, NUM, node)
            if v.ty == BOOL:
                return "(Mir.PyAl.SVal.bool %s)" % v.term
            raise Unsupported("a dict value of type %s" % show_type(v.ty), node)
        if v.ty == ATR:
            return "(Mir.PyAl.Score.tr %s)" % v.term
        if v.ty in NUMERIC:
            return "(Mir.PyAl.Score.num %s)" % coerce(v, NUM, node)
        raise Unsupported("a dict value of type %s" % show_type(v.ty), node)

    def dict_key(self, t, env, s):
        if not (isinstance(t.value, ast.Name) and t.value.id in env and env[t.value.id][0] in (DICT, DICTA, DICTV)):
            raise Unsupported("item assignment to anything but the score dictionary", s)
        x = t.value.id
        key = t.slice
        if not (isinstance(key, ast.Constant) and isinstance(key.value, str)) or '"' in key.value or "\\" in key.value:
            raise Unsupported("a dict key that is not a plain string literal", s)
        keys = self.dict_keys.setdefault(x, set())
        if key.value in keys:
            raise Unsupported("dict key %r is stored twice" % key.value, s)
        keys.add(key.value)
        return x, key.value

    def dict_store(self, s, env, cont):
        t = s.targets[0]
        dt = env[t.value.id][0]
        if dt not in (DICTA, DICTV):
            return ML.Body.dict_store(self, s, env, cont)
        x, key = self.dict_key(t, env, s)
        binds = []
        v = self.expr(s.value, env, binds)
        line = "let %s : %s := (%s ++ [(\"%s\", %s)])" % (ident(x), lean_type(dt), ident(x), key, self.score_term(v, s, dt))
        return self.bind_lines(binds) + [line] + cont(dict(env))

    def dict_store_tuple(self, s, env, cont):
        """`d["a"], d["b"] = <tuple>`: the value is evaluated first, then the items are stored left to right"""
        targets = s.targets[0].elts
        binds = []
        v = self.expr(s.value, env, binds)
        if v.ty[0] != "tup" or len(v.ty[1]) != len(targets):
            raise Unsupported("unpacking a %s into %d dictionary items" % (show_type(v.ty), len(targets)), s)
        lines = self.bind_lines(binds)
        for i, t in enumerate(targets):
            x, key = self.dict_key(t, env, s)
            n = len(v.ty[1])
            if v.elts is not None:
                comp = v.elts[i]
            else:
                comp = E("(%s%s%s)" % (v.term, "".join(".2" for _ in range(i)), ".1" if i < n - 1 else ""), v.ty[1][i])
            dt = env[x][0]
            if dt in (DICTA, DICTV):
                item = self.score_term(comp, s, dt)
            else:
                if comp.ty not in NUMERIC:
                    raise Unsupported("a dict value of type %s" % show_type(comp.ty), s)
                item = coerce(comp, NUM, s)
            lines.append("let %s : %s := (%s ++ [(\"%s\", %s)])" % (ident(x), lean_type(dt), ident(x), key, item))
        return lines + cont(dict(env))

    # -- expressions ----------------------------------------------------------------------------------------------------
    def lift(self, e, node):
        """a Python float / exact array element as a number of the perceptual metric"""
        if e.ty == ATR:
            return e.term
        if e.ty in (NAT, INT, RAT):
            return "(o.ofRat %s)" % coerce(e, RAT, node)
        raise Unsupported("a %s where a float of the perceptual metric is expected" % show_type(e.ty), node)

    def known(self, node, e):
        """the literal a scalar expression is known to equal (a literal, or a local bound to one), else None"""
        if e.lit is not None and type(e.lit) in (int, float):
            return e.lit
        if isinstance(node, ast.Name) and node.id in self.consts:
            return self.consts[node.id]
        return None

    def binop(self, node, env, binds):
        if self.atr and isinstance(node.op, (ast.Add, ast.Sub, ast.Mult, ast.Div)) \
                and not isinstance(node.left, (ast.List, ast.ListComp)) and not isinstance(node.right, (ast.List, ast.ListComp)):
            saved, b = self.tmp, []
            a0 = self.expr(node.left, env, b)
            b0 = self.expr(node.right, env, b)
            sym = {ast.Add: "+", ast.Sub: "-", ast.Mult: "*", ast.Div: "/"}[type(node.op)]
            scal = (NAT, INT, RAT, ATR)
            py_float = (a0.ty in scal and b0.ty in scal and not a0.np and not b0.np
                        and (ATR in (a0.ty, b0.ty) or RAT in (a0.ty, b0.ty)))
            if py_float:
                binds += b
                if isinstance(node.op, ast.Div):
                    kv = self.known(node.right, b0)
                    if kv is None or kv == 0:
                        raise Unsupported("a float division in a transcendental function whose divisor is not a local "
                                          "bound to a non-zero literal (ZeroDivisionError)", node)
                return E("(%s %s %s)" % (self.lift(a0, node), sym, self.lift(b0, node)), ATR)
            if AVEC in (a0.ty, b0.ty):
                binds += b
                if isinstance(node.op, ast.Mult) and a0.ty == ATR and b0.ty == AVEC:
                    return E("(List.map (fun _v => (%s * _v)) %s)" % (a0.term, b0.term), AVEC)
                if isinstance(node.op, ast.Mult) and a0.ty == AVEC and b0.ty == ATR:
                    return E("(List.map (fun _v => (_v * %s)) %s)" % (b0.term, a0.term), AVEC)
                raise Unsupported("array arithmetic %s %s %s" % (show_type(a0.ty), type(node.op).__name__, show_type(b0.ty)),
                                  node)
            self.tmp = saved
        return ML.Body.binop(self, node, env, binds)

    def subscript(self, node, env, binds):
        idx = node.slice
        if isinstance(idx, ast.Slice):
            a = self.expr(node.value, env, binds)
            if a.ty != FVEC or idx.step is not None:
                raise Unsupported("slice of a %s / with a step" % show_type(a.ty), node)

            def lit(x):
                if x is None:
                    return None
                c = const_expr(x)
                if c.ty not in (NAT, INT):
                    raise Unsupported("slice bound that is not an integer literal", node)
                return c.lit
            lo, hi = lit(idx.lower), lit(idx.upper)
            if (lo, hi) == (None, -1):
                return E("(List.dropLast %s)" % a.term, FVEC)
            if (lo, hi) == (1, None):
                return E("(List.drop 1 %s)" % a.term, FVEC)
            raise Unsupported("slice other than [:-1] / [1:]", node)
        i = idx
        if isinstance(i, ast.UnaryOp) and isinstance(i.op, ast.USub) and isinstance(i.operand, ast.Constant):
            i = ast.Constant(value=-i.operand.value) if type(i.operand.value) is int else i
        if isinstance(i, ast.Constant) and type(i.value) is int and not (
                isinstance(node.value, ast.Attribute) and node.value.attr == "shape"):
            saved, b = self.tmp, []
            a = self.expr(node.value, env, b)
            if a.ty == FVEC:
                binds += b
                tmp = self.bind(binds, "Mir.PyAl.getIdx %s (%d : Int)" % (a.term, i.value), RAT, node)
                return E(tmp, RAT, np=True)
            self.tmp = saved
        return ML.Body.subscript(self, node, env, binds)

    def concat_part(self, x, env, binds, node):
        if isinstance(x, ast.List):
            elts = []
            for y in x.elts:
                e = self.expr(y, env, binds)
                if e.ty not in (NAT, INT, RAT):
                    raise Unsupported("a %s inside a list display passed to np.concatenate" % show_type(e.ty), node)
                elts.append(coerce(e, RAT, node))
            return "[%s]" % ", ".join(elts)
        e = self.expr(x, env, binds)
        if e.ty != FVEC:
            raise Unsupported("np.concatenate of a %s" % show_type(e.ty), node)
        return e.term

    def call(self, node, env, binds):
        f = node.func
        if any(isinstance(a, ast.Starred) for a in node.args):
            raise Unsupported("starred argument", node)
        name = dotted(f)
        args = node.args
        nokw = not node.keywords
        if isinstance(f, ast.Name) and f.id == "validate" and f.id not in self.locals and f.id in self.m.funcs:
            if len(args) != 2 or not nokw:
                raise Unsupported("validate called on anything but two positional arguments", node)
            es = [self.expr(a, env, binds) for a in args]
            if [e.ty for e in es] != [FVEC, FVEC]:
                raise Unsupported("validate on %s" % ", ".join(show_type(e.ty) for e in es), node)
            if not self.m.has_validate():
                raise Unsupported("alignment.validate is not regenerated by the `validators` part on this source", node)
            tmp = self.bind(binds, "Mir.GenV.alignment.validate (Mir.Arr.vec %s) (Mir.Arr.vec %s)" % (es[0].term, es[1].term),
                            NONE, node)
            return E(tmp, NONE)
        if isinstance(f, ast.Name) and f.id == "filter_kwargs" and f.id not in self.locals:
            if self.m.imports.get("filter_kwargs") != "mir_eval.util.filter_kwargs" or f.id in self.m.funcs \
                    or f.id in self.m.assigned:
                raise Unsupported("`filter_kwargs` is not mir_eval.util.filter_kwargs", node)
            return self.filter_kwargs(node, env, binds)
        if name in ("np.median", "np.mean") and len(args) == 1 and nokw:
            a = self.expr(args[0], env, binds)
            if a.ty == FVEC:
                return E("(Mir.PyAl.%s %s)" % ("npMedian" if name == "np.median" else "npMean", a.term), NUM, np=True)
            if a.ty == BMASK and name == "np.mean":
                return E("(Mir.PyAl.meanMask %s)" % a.term, NUM, np=True)
            if a.ty == AVEC and name == "np.mean":
                return E("(Mir.PyAl.tmean o %s)" % a.term, ATR, np=True)
            raise Unsupported("%s of a %s" % (name, show_type(a.ty)), node)
        if name == "np.max" and len(args) == 1 and nokw:
            a = self.expr(args[0], env, binds)
            if a.ty != FVEC:
                raise Unsupported("np.max of a %s" % show_type(a.ty), node)
            return E(self.bind(binds, "Mir.PyAl.npMax %s" % a.term, RAT, node), RAT, np=True)
        if name in ("np.maximum", "np.minimum") and len(args) == 2 and nokw:
            a, b = self.expr(args[0], env, binds), self.expr(args[1], env, binds)
            fn = "max" if name == "np.maximum" else "min"
            if a.ty == FVEC and b.ty == FVEC:
                return E(self.bind(binds, "Mir.PyAl.v%s %s %s" % (fn, a.term, b.term), FVEC, node), FVEC)
            if a.ty == FVEC and b.ty in (NAT, INT, RAT):
                return E("(List.map (fun _v => (%s _v %s)) %s)" % (fn, coerce(b, RAT, node), a.term), FVEC)
            if b.ty == FVEC and a.ty in (NAT, INT, RAT):
                return E("(List.map (fun _v => (%s %s _v)) %s)" % (fn, coerce(a, RAT, node), b.term), FVEC)
            raise Unsupported("%s on (%s, %s)" % (name, show_type(a.ty), show_type(b.ty)), node)
        if name == "np.concatenate" and len(args) == 1 and nokw:
            if not isinstance(args[0], (ast.List, ast.Tuple)) or not args[0].elts:
                raise Unsupported("np.concatenate of anything but a non-empty list display", node)
            parts = [self.concat_part(x, env, binds, node) for x in args[0].elts]
            return E("(%s)" % " ++ ".join(parts), FVEC)
        if name == "skewnorm.pdf":
            return self.skewnorm_pdf(node, env, binds)
        if name == "collections.OrderedDict" and self.dict_type() != DICT:
            ML.Body.call(self, node, env, binds)            # (the checks)
            return E("([] : %s)" % lean_type(self.dict_type()), self.dict_type())
        if name is not None and name.split(".")[0] in ("skewnorm", "scipy"):
            raise Unsupported("call of %s" % name, node)
        return ML.Body.call(self, node, env, binds)

    def skewnorm_pdf(self, node, env, binds):
        if not self.atr:
            raise Unsupported("skewnorm.pdf outside a transcendental function", node)
        if self.m.imports.get("skewnorm") != "scipy.stats.skewnorm" or "skewnorm" in self.m.funcs \
                or "skewnorm" in self.m.assigned or "skewnorm" in self.locals:
            raise Unsupported("`skewnorm` is not scipy.stats.skewnorm", node)
        kw = {}
        for k in node.keywords:
            if k.arg not in ("loc", "scale") or k.arg in kw:
                raise Unsupported("skewnorm.pdf keyword %s" % k.arg, node)
            kw[k.arg] = k.value
        if len(node.args) != 2 or set(kw) != {"loc", "scale"}:
            raise Unsupported("skewnorm.pdf(x, a, loc=.., scale=..) expected", node)
        x = self.expr(node.args[0], env, binds)
        a = self.expr(node.args[1], env, binds)
        loc = self.expr(kw["loc"], env, binds)
        sc = self.expr(kw["scale"], env, binds)
        kv = self.known(kw["scale"], sc)
        if kv is None or not kv > 0:
            raise Unsupported("skewnorm.pdf whose scale is not a local bound to a positive literal (nan otherwise)", node)
        if x.ty != FVEC:
            raise Unsupported("skewnorm.pdf of a %s" % show_type(x.ty), node)
        return E("(List.map (fun _x => Mir.PyAl.skewnormPdf o (o.ofRat _x) %s %s %s) %s)" % (
            self.lift(a, node), self.lift(loc, node), self.lift(sc, node), x.term), AVEC)

    # -- filter_kwargs(f, <positional>, **kwargs) (melody's reading; the callees are functions of this module) -----------------
    def filter_kwargs(self, node, env, binds):
        args = node.args
        if not args or not isinstance(args[0], ast.Name) or args[0].id in self.locals:
            raise Unsupported("filter_kwargs whose first argument is not a function of this module", node)
        star = [k for k in node.keywords if k.arg is None]
        if len(star) != 1 or len(node.keywords) != 1 or not (isinstance(star[0].value, ast.Name)
                                                              and star[0].value.id == self.kwarg_name()):
            raise Unsupported("filter_kwargs with anything but exactly the **kwargs of the enclosing function", node)
        sig = self.m.translate(args[0].id, node)
        pos = args[1:]
        if len(pos) > len(sig.params):
            raise Unsupported("too many arguments for %s" % sig.name, node)
        terms = []
        for i, (pn, pt, pd) in enumerate(sig.params):
            if i < len(pos):
                e = self.expr(pos[i], env, binds)
                if pt[0] == "opt" and e.ty == pt[1]:
                    terms.append("(some %s)" % e.term)
                elif pt[0] == "opt" and e.ty == NONE:
                    terms.append("none")
                else:
                    terms.append(coerce(e, pt, node))
            elif pd is None:
                raise Unsupported("missing argument %s of %s" % (pn, sig.name), node)
            elif pn in self.kwparams:
                want = pt if pt[0] == "opt" else OPT(pt)
                if env.get(pn, (None,))[0] != want:
                    raise Unsupported("keyword parameter %s of %s has another type here" % (pn, sig.name), node)
                terms.append(ident(pn) if pt[0] == "opt" else "(Option.getD %s %s)" % (ident(pn), self.default_term(pd, pt)))
            else:
                terms.append(self.default_term(pd, pt))
        tmp = self.bind(binds, "%s %s" % (self.callee(sig), " ".join(terms)), sig.ret, node)
        return E(tmp, sig.ret, np=sig.ret_np)


Module.BODY = Body


# ----------------------------------------------------------------------------------------
# a whole function

def translate_def(module, fn):
    """-> [(Sig, lines)]"""
    if fn.decorator_list:
        raise Unsupported("decorated function", fn)
    a = fn.args
    if a.vararg or a.kwonlyargs or a.posonlyargs:
        raise Unsupported("*args / keyword-only parameters", fn)
    doc = doc_param_types(fn)
    params = []
    ndef = len(a.defaults)
    for i, p in enumerate(a.args):
        if p.arg not in doc:
            raise Unsupported("parameter %s has no documented type" % p.arg, fn)
        d = None
        k = i - (len(a.args) - ndef)
        if k >= 0:
            d = const_expr(a.defaults[k])
        ty = param_type(fn.name, doc[p.arg], fn, default_none=(d is not None and d.ty == NONE))
        if d is not None and d.ty != NONE:
            coerce(d, ty, fn)
        params.append((p.arg, ty, d))
    body = [s for s in fn.body
            if not (isinstance(s, ast.Expr) and isinstance(s.value, ast.Constant) and isinstance(s.value.value, str))]
    where = "`%s.%s` (mir_eval/%s.py)" % (module.modname, fn.name, module.modname)
    kwp = []
    if a.kwarg:
        kwp = kwargs_params(module, fn)
        local = set(assigned_names(body)) | {n for n, _, _ in params}
        for n, _, _ in kwp:
            if n in local:
                raise Unsupported("keyword %s of **%s collides with a local" % (n, a.kwarg.arg), fn)
        where += "; **%s is read as the optional keyword(s) %s of the functions reached through filter_kwargs" % (
            a.kwarg.arg, ", ".join(n for n, _, _ in kwp))
    return module.BODY(module, fn, fn.name, params + kwp, body, what=where, kwparams=[n for n, _, _ in kwp]).translate()


def kwargs_params(module, fn):
    """the optional parameters `**kwargs` stands for: the defaulted parameters of the functions reached through
    filter_kwargs beyond the positional arguments given there -> [(name, OPT type, None-default E)]"""
    kw = fn.args.kwarg.arg
    uses = [nd for nd in ast.walk(fn) if isinstance(nd, ast.Name) and nd.id == kw]
    calls = [nd for nd in ast.walk(fn) if isinstance(nd, ast.Call) and dotted(nd.func) in module.FK_NAMES]
    starred = [k.value for c in calls for k in c.keywords if k.arg is None]
    if len(uses) != len(starred) or any(u not in starred for u in uses):
        raise Unsupported("**%s is used other than as filter_kwargs(f, ..., **%s)" % (kw, kw), fn)
    out = []
    for c in calls:
        if not c.args or not isinstance(c.args[0], ast.Name):
            raise Unsupported("filter_kwargs whose first argument is not a plain function name", c)
        sig = module.translate(c.args[0].id, c)
        for pn, pt, pd in sig.params[len(c.args) - 1:]:
            if pd is None:
                continue
            want = pt if pt[0] == "opt" else OPT(pt)
            prev = [t for n, t in out if n == pn]
            if prev:
                if prev[0] != want:
                    raise Unsupported("keyword %s has different types in the callees" % pn, fn)
                continue
            out.append((pn, want))
    return [(n, t, const_expr(ast.Constant(value=None))) for n, t in out]


# ----------------------------------------------------------------------------------------
# driver handler

def val_decoder(ty, v, default=None):
    dec = {RAT: "Val.asRat?", FVEC: "Val.asRats?", OPT(RAT): "Val.asOptRat?"}.get(ty)
    if dec is None:
        raise Unsupported("no protocol decoder for %s" % show_type(ty))
    if default is not None and ty[0] != "opt":
        return "let %s ← (match %s with | Val.none => some %s | _v => %s _v)" % (v, v, default, dec)
    return "let %s ← %s %s" % (v, dec, v)


def val_encoder(ty):
    if ty == ATR:
        return "Val.flt"
    if ty == DICTA:
        return "Mir.PyAl.ofScores"
    if ty[0] == "tup":
        n = len(ty[1])
        vs = ["x%d" % i for i in range(n)]
        return "(fun ((%s) : %s) => Val.list [%s])" % (
            ", ".join(vs), lean_type(ty).replace("α", "Float"), ", ".join("%s %s" % (val_encoder(t), v) for t, v in zip(ty[1], vs)))
    return ML.val_encoder(ty)


HEADER = """import MirModel.PyScalar
import MirModel.PyMat
import MirModel.PyMel
import MirModel.PyAl
import MirGen.Validators
/-!
  GENERATED by harness/translate/alignment.py from mir_eval/alignment.py — do not edit.
  One shallow definition per translated function (`Mir.Gen.alignment.<function>`), over `Mir.PyAl` / `Mir.PyMel` / `Mir.PyM`;
  `validate` is the definition regenerated by the `validators` part (`Mir.GenV.alignment.validate`).
  Regenerated from the working tree on every run of ./check C04 (C01, C07); `MirProofs/Props/C04_GenAlignment.lean` proves each
  of them equal to the hand-written model (`MirModel/Alignment.lean`) for all timestamp lists.
-/
set_option linter.unusedVariables false
"""


def translate_all(repo, wanted=None):
    """-> (lean text, {name: Sig}, problems [(function, detail)])"""
    wanted = WANTED if wanted is None else wanted
    path = os.path.join(repo, "mir_eval", "alignment.py")
    problems = []
    try:
        m = Module(open(path, encoding="utf-8").read(), repo)
    except (OSError, SyntaxError) as e:
        m = None
        problems = [(f, "cannot read/parse %s: %s" % (path, e)) for f in wanted]
    if m is not None:
        for fname in wanted:
            try:
                m.translate(fname)
            except Unsupported as e:
                problems.append((fname, e.detail))
    L = [HEADER, "namespace Mir.Gen.alignment", ""]
    rows = []
    emitted = [] if m is None else m.emitted
    for name, lines in emitted:
        L += lines + [""]
    L += ["end Mir.Gen.alignment", ""]
    public = [n for n, _ in emitted if n not in m.internal] if m is not None else []
    for name in public:
        sig = m.sigs[name]
        try:
            vs = ["a%d" % i for i in range(len(sig.params))]
            decs = []
            for (pn, pt, pd), v in zip(sig.params, vs):
                dflt = None
                if pd is not None and pt[0] != "opt":
                    dflt = coerce(pd, pt)
                decs.append(val_decoder(pt, v, dflt))
            enc = val_encoder(sig.ret)
        except Unsupported:
            continue
        rows.append("  | \"gen.alignment\", Val.str \"%s\" :: [%s] => do\n%s      some (Except.map %s (Mir.Gen.alignment.%s %s%s))" % (
            name, ", ".join(vs), "".join("      %s\n" % d for d in decs), enc, ident(name),
            "Mir.Alignment.floatOps " if getattr(sig, "atr", False) else "", " ".join(vs)))
    L.append("namespace Mir.Gen.Alignment")
    L.append("")
    L.append("/-- names of the translated functions (in emission order) -/")
    L.append("def names : List String := [%s]" % ", ".join('"%s"' % n for n in public))
    L.append("")
    L.append("/-- protocol op `gen.alignment <\"function\"> <args...>` (a defaulted parameter may be sent as `none`; the perceptual")
    L.append("    metric runs at `Float`) -/")
    L.append("def handler : Handler := fun fn args =>")
    L.append("  match fn, args with")
    L.append("  | \"gen.alignment\", [Val.str \"?\"] => some (.ok (Val.list (names.map Val.str)))     -- which functions were translated")
    L += rows
    L.append("  | _, _ => none")
    L.append("")
    L.append("end Mir.Gen.Alignment")
    sigs = {} if m is None else {n: m.sigs[n] for n in public}
    return "\n".join(L) + "\n", sigs, problems


def generate(repo, outdir):
    text, done, problems = translate_all(repo)
    os.makedirs(outdir, exist_ok=True)
    write_if_changed(os.path.join(outdir, "Alignment.lean"), text)
    obligations = ["Mir.Gen.alignment.%s" % n for n in done]
    probs = [{"name": "alignment: alignment.%s" % f, "detail": "outside the translated subset: " + d} for f, d in problems]
    return obligations, probs


if __name__ == "__main__":
    repo = sys.argv[1] if len(sys.argv) > 1 else "/repo"
    text, done, problems = translate_all(repo)
    sys.stdout.write(text)
    for p in problems:
        sys.stderr.write("PROBLEM alignment.%s: %s\n" % p)
