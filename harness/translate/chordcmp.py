"""mir_eval.chord comparison functions -> lean/MirGen/ChordCmp.lean   (part `chordcmp`; AST based, chord.py is never imported).

One SHALLOW Lean definition `Mir.Gen.chord.<function>` per translated function — `validate`, `rotate_bitmaps_to_roots` and
the twelve comparison rules `thirds`, `thirds_inv`, `triads`, `triads_inv`, `tetrads`, `tetrads_inv`, `root`, `mirex`,
`majmin`, `majmin_inv`, `sevenths`, `sevenths_inv` — over the run-time library `lean/MirModel/PyCmp.lean` (`Mir.PyCmp`), plus
the driver handler `Mir.Gen.ChordCmp.handler` (protocol op `gen.chordcmp <"function"> <ref labels> <est labels>`).
`MirProofs/Props/C11_GenCmp.lean` proves each rule equal to the hand-written row model (`MirModel/ChordCompare.lean` applied
to the rows of `Chord.pyEncodeMany`) for ALL label lists.

The statements are emitted in SOURCE ORDER, one `let` per Python assignment; an expression that can raise (a shape-checked
NumPy operation, an extern, a dict lookup) is bound with `←` to a temporary `_tN` in evaluation order (A-normal form), so
the exception that escapes is the source's.  The translator fails closed: anything outside THE SUBSET raises
`Unsupported`, the function is not emitted, and the part reports a problem (= a broken obligation of C11).

THE SUBSET

  def f(p1, p2)        parameters typed by f's numpydoc: `list, len=n` (a list of label strings), `np.ndarray, shape=(N, 12)`
                       (integer matrix), `np.ndarray, shape=(N,)` (integer vector); no defaults, *args, **kwargs;
                       decorators `decorator.decorator`-style wrappers / `util.filter_kwargs` are read through
  statements           docstring; `x = e`; `a, b[, _] = e` (a tuple of statically known length); `return e`;
                       `raise E(...)` (the message is not evaluated); `if c: raise E(...)`; `if c: warnings.warn(...)` and
                       `warnings.warn(...)` (no value: dropped; C18 owns the warning behaviour); a call statement of a
                       translated function / extern; `for x in <list>: <call statements / nested for>` (`List.forM`);
                       `x = []` directly followed by `for a, b in zip(A, B): x.append(f(a, b))` (`List.mapM` over the zip);
                       `s[mask] = <integer-valued literal>` on an OWNED score / int vector; `t[mask] = <int vector>` on an
                       OWNED boolean vector; `np.logical_or(a, b, a)` / `np.logical_and(a, b, a)` (`out=` the OWNED first
                       operand: a re-binding)
  expressions          int literals, integer-valued float literals (`-1.0`), `True`/`False`, str literals, locals;
                       `len(x)`; int comparisons; tuples by `t[<literal>]`, `t[:<literal>]`;
                       `a == b`, `np.equal(a, b)` (vector/vector, matrix/matrix, matrix/row), `a <op> <int>` (vector or matrix
                       against an int scalar), `b == 0` of a boolean vector; `a * b`, `a + b`, `np.logical_and/or(a, b)` of
                       boolean vectors; `A * B` of matrices; `M[:, j]`, `M[:, :k]`; `np.all/np.any(B, axis=1)`;
                       `M.sum(axis=1|-1)`, `B.sum(axis=1)`, `np.sum(B, axis=0)`; `b.astype(np.float64|float)`;
                       `np.ones(v.shape, dtype=bool)`; `v[mask]`, `M[mask, v[mask]]`;
                       `QUALITIES[<str>]`, `<list>[:k]`, `np.array(<list of ints>)`, `np.array([... for x in <non-empty>])`,
                       `np.asarray(<list of vectors>)`, `[<str literals>]`, `[<names>]`, `[e for x in <list | matrix>]`;
                       calls of the functions translated here and of `rotate_bitmap_to_root` (MirGen/ChordFns.lean);
                       EXTERNS bound to the hand model: `validate_chord_label(s)`, `encode_many(labels, <bool literal>)`.
  aliasing             every array expression of the subset allocates, except a plain name, a tuple item and a column
                       slice (a view).  `y = x` of an array is rejected; in-place stores are admitted only on a local bound
                       to a freshly allocated array (OWNED), so a re-binding is a faithful reading of the write.
  0-d results          `np.asarray(<list>)` of an EMPTY list is 1-D of shape (0,), and what is computed from it by
                       `*`, `.sum(axis=-1)`, a comparison and `.astype` is 0-d; this is tracked by the static flag `z`
                       ("0-d when empty") and decides which masked-store primitive is called (`maskSet0d`: TypeError).

`python harness/translate/chordcmp.py [repo]` prints the generated file.
"""
import ast
import os
import sys

try:
    from translate import write_if_changed
except ImportError:  # run as a script
    sys.path.insert(0, os.path.dirname(os.path.dirname(os.path.abspath(__file__))))
    from translate import write_if_changed
from translate.scalars import Unsupported, indent, doc_param_types, lean_str
from translate.scalars import ident as _ident

EXTRA_KEYWORDS = {"matches", "is", "only", "using", "generalizing", "hiding", "renaming", "extends", "deriving",
                  "infixl", "infixr", "set_option", "omit", "include", "elab", "meta", "public", "module", "root"}

RULES = ["thirds", "thirds_inv", "triads", "triads_inv", "tetrads", "tetrads_inv", "root", "mirex",
         "majmin", "majmin_inv", "sevenths", "sevenths_inv"]
WANTED = ["validate", "rotate_bitmaps_to_roots"] + RULES
P = "Mir.PyCmp."

INT, BOOL, STR, NONE, STRS = ("int",), ("bool",), ("str",), ("none",), ("strs",)
LISTI = ("listi",)                       # a Python list of ints (a QUALITIES row)
DICT_QUAL = ("dict",)                    # QUALITIES


def VEC(z=False):
    return ("vec", z)                    # 1-D int64


def FVEC(z=False):
    return ("fvec", z)                   # 1-D float64 holding integers (comparison scores)


def BVEC(z=False):
    return ("bvec", z)


def MAT(z=False):
    return ("mat", z)


def BMAT(z=False):
    return ("bmat", z)


def LST(t, nonempty=False):
    return ("list", t, nonempty)         # a Python list


def TUP(ts):
    return ("tup", tuple(ts))


def is_array(t):
    return t[0] in ("vec", "fvec", "bvec", "mat", "bmat")


def zflag(t):
    return t[1] if is_array(t) else False


def ident(name):
    if name in EXTRA_KEYWORDS:
        return "«%s»" % name
    return _ident(name)


def lean_type(t):
    k = t[0]
    if k == "int":
        return "Int"
    if k == "bool":
        return "Bool"
    if k == "str":
        return P + "Str"
    if k == "none":
        return "Unit"
    if k == "strs":
        return "(List %sStr)" % P
    if k == "listi":
        return "(List Int)"
    if k in ("vec", "fvec"):
        return P + "Vec"
    if k == "bvec":
        return P + "BVec"
    if k == "mat":
        return P + "Mat"
    if k == "bmat":
        return P + "BMat"
    if k == "list":
        return "(List %s)" % lean_type(t[1])
    if k == "tup":
        return "(%s)" % " × ".join(lean_type(x) for x in t[1])
    raise Unsupported("no Lean type for %r" % (t,))


def show_type(t):
    k = t[0]
    if is_array(t):
        return k + ("(0-d when empty)" if t[1] else "")
    if k == "list":
        return "list[%s]" % show_type(t[1])
    if k == "tup":
        return "(%s)" % ", ".join(show_type(x) for x in t[1])
    return k


class E:
    """a translated PURE expression (effects have been bound to temporaries): Lean term, static type, literal value,
    tuple parts, freshly allocated?"""
    __slots__ = ("term", "ty", "lit", "elts", "fresh")

    def __init__(self, term, ty, lit=None, elts=None, fresh=False):
        self.term, self.ty, self.lit, self.elts, self.fresh = term, ty, lit, elts, fresh


EXC = {"ValueError": "PyErr.valueError", "InvalidChordException": "PyErr.invalidChord", "IndexError": "PyErr.indexError",
       "TypeError": "PyErr.typeError", "KeyError": "PyErr.keyError", "ZeroDivisionError": "PyErr.zeroDivision"}
CMP = {ast.Lt: "lt", ast.LtE: "le", ast.Gt: "gt", ast.GtE: "ge", ast.Eq: "eq", ast.NotEq: "ne"}
INT_CMP = {ast.Lt: "<", ast.LtE: "≤", ast.Gt: ">", ast.GtE: "≥", ast.Eq: "=", ast.NotEq: "≠"}
FLOAT_DTYPES = {"np.float64", "float", "np.float_", "np.double"}
OK_DECORATORS = {"decorator.decorator", "util.filter_kwargs", "filter_kwargs"}


def dotted(node):
    parts = []
    while isinstance(node, ast.Attribute):
        parts.append(node.attr)
        node = node.value
    if isinstance(node, ast.Name):
        parts.append(node.id)
        return ".".join(reversed(parts))
    return None


def int_literal(node):
    """int value of an int literal / an integer-valued float literal (possibly negated), else None"""
    neg = False
    if isinstance(node, ast.UnaryOp) and isinstance(node.op, ast.USub):
        neg, node = True, node.operand
    if isinstance(node, ast.Constant) and type(node.value) in (int, float):
        v = node.value
        if type(v) is float:
            if v != v or v in (float("inf"), float("-inf")) or v != int(v):
                return None
            v = int(v)
        return -v if neg else v
    return None


class Sig:
    def __init__(self, name, params, ret, lean_name=None):
        self.name, self.params, self.ret = name, params, ret
        self.lean_name = lean_name or ("Mir.Gen.chord." + ident(name))


# functions translated elsewhere / externs
FOREIGN = {
    "rotate_bitmap_to_root": Sig("rotate_bitmap_to_root", [("bitmap", VEC()), ("chord_root", INT)], VEC(),
                                 "Mir.Gen.chord.rotate_bitmap_to_root"),
    "validate_chord_label": Sig("validate_chord_label", [("chord_label", STR)], NONE, P + "validate_chord_label"),
}


def param_type(text, node):
    import re
    t = text.strip().lower()
    if re.match(r"^list, len=\w+$", t) or t == "list":
        return STRS
    if re.match(r"^np\.ndarray, shape=\(\w+, 12\)$", t):
        return MAT()
    if re.match(r"^np\.ndarray, shape=\(\w+,\)$", t):
        return VEC()
    raise Unsupported("documented parameter type %r is outside the subset" % text, node)


class Body:
    def __init__(self, module, fn):
        self.m, self.fn = module, fn
        self.lines = []
        self.env = {}            # python name -> type
        self.owned = set()       # locals bound to a freshly allocated array
        self.ntmp = 0
        self.ret = None

    # ---- helpers
    def tmp(self):
        self.ntmp += 1
        return "_t%d" % self.ntmp

    def bind(self, term, ty, fresh=True):
        """an effectful term of type `Py <ty>` is evaluated now"""
        t = self.tmp()
        self.lines.append("let %s : %s ← %s" % (t, lean_type(ty), term))
        return E(t, ty, fresh=fresh)

    def atom(self, e):
        t = e.term
        if t.replace("_", "a").replace(".", "a").isalnum() or t.startswith("«"):
            return t
        if t.startswith("(") and t.endswith(")"):
            depth = 0
            for i, ch in enumerate(t):
                depth += (ch == "(") - (ch == ")")
                if depth == 0 and i < len(t) - 1:
                    break
            else:
                return t
        return "(%s)" % t

    # ---- expressions
    def expr(self, x):
        if isinstance(x, ast.Name):
            if x.id in self.env:
                return E(ident(x.id), self.env[x.id])
            if x.id == "QUALITIES" and "QUALITIES" in self.m.assigned:
                return E("MirGen.Tables.qualities", DICT_QUAL)
            raise Unsupported("name %s is not a local / known module constant" % x.id, x)
        v = int_literal(x)
        if v is not None and not (isinstance(x, ast.Constant) and type(x.value) is bool):
            return E("(%d : Int)" % v, INT, lit=v)
        if isinstance(x, ast.Constant):
            if type(x.value) is bool:
                return E("true" if x.value else "false", BOOL, lit=x.value)
            if type(x.value) is str:
                return E(lean_str(x.value), STR, lit=x.value)
            raise Unsupported("literal %r" % (x.value,), x)
        if isinstance(x, ast.Compare):
            return self.compare(x)
        if isinstance(x, ast.BinOp):
            return self.binop(x)
        if isinstance(x, ast.Call):
            return self.call(x)
        if isinstance(x, ast.Subscript):
            return self.subscript(x)
        if isinstance(x, ast.List):
            return self.display(x)
        if isinstance(x, ast.ListComp):
            return self.listcomp(x)
        raise Unsupported("expression %s" % type(x).__name__, x)

    def display(self, x):
        if not x.elts:
            raise Unsupported("an empty list display outside the `x = []; for ...: x.append(...)` idiom", x)
        es = [self.expr(e) for e in x.elts]
        t = es[0].ty
        if any(e.ty != t for e in es) or t not in (STR, STRS):
            raise Unsupported("a list display whose items are not all str literals / all label lists", x)
        return E("[%s]" % ", ".join(e.term for e in es), LST(t, True), fresh=True)

    def listcomp(self, x):
        if len(x.generators) != 1:
            raise Unsupported("nested comprehension", x)
        g = x.generators[0]
        if g.ifs or g.is_async or not isinstance(g.target, ast.Name):
            raise Unsupported("comprehension with a filter / a destructuring target", x)
        it = self.expr(g.iter)
        if it.ty[0] == "list":
            elt_t, nonempty = it.ty[1], it.ty[2]
        elif it.ty[0] == "mat" and not it.ty[1]:
            elt_t, nonempty = VEC(), self.m.nonempty.get(g.iter.id, False) if isinstance(g.iter, ast.Name) else False
        else:
            raise Unsupported("a comprehension over %s" % show_type(it.ty), x)
        sub = Body(self.m, self.fn)
        sub.env = dict(self.env)
        sub.env[g.target.id] = elt_t
        sub.ntmp = self.ntmp + 100
        r = sub.expr(x.elt)
        if r.ty not in (LISTI, VEC(), BVEC()):
            raise Unsupported("a comprehension of %s" % show_type(r.ty), x)
        v = ident(g.target.id)
        if sub.lines:
            body = ["(%s).mapM (fun (%s : %s) => do" % (it.term, v, lean_type(elt_t))] + indent(sub.lines + ["pure %s" % sub.atom(r)]) + [")"]
            e = self.bind("\n    ".join(body), LST(r.ty, nonempty))
        else:
            e = E("(%s).map (fun (%s : %s) => %s)" % (it.term, v, lean_type(elt_t), r.term), LST(r.ty, nonempty), fresh=True)
        e.ty = LST(r.ty, nonempty)
        return e

    def same_z(self, a, b, node):
        if zflag(a.ty) != zflag(b.ty):
            raise Unsupported("an array that is 0-d when empty meets an ordinary one in an element-wise operation", node)
        return zflag(a.ty)

    def eq_arrays(self, a, b, node):
        if a.ty[0] == "vec" and b.ty[0] == "vec":
            return self.bind("%svecEq %s %s" % (P, self.atom(a), self.atom(b)), BVEC(self.same_z(a, b, node)))
        if a.ty[0] == "mat" and b.ty[0] == "mat":
            return self.bind("%smatEq %s %s" % (P, self.atom(a), self.atom(b)), BMAT(self.same_z(a, b, node)))
        if a.ty == MAT() and b.ty in (VEC(), LISTI):
            return self.bind("%smatEqRow %s %s" % (P, self.atom(a), self.atom(b)), BMAT())
        raise Unsupported("`==` between %s and %s" % (show_type(a.ty), show_type(b.ty)), node)

    def compare(self, x):
        if len(x.ops) != 1 or type(x.ops[0]) not in CMP:
            raise Unsupported("chained comparison / operator %s" % type(x.ops[0]).__name__, x)
        op = x.ops[0]
        a = self.expr(x.left)
        b = self.expr(x.comparators[0])
        if a.ty == INT and b.ty == INT:
            if isinstance(op, ast.Eq):
                return E("(%s == %s)" % (a.term, b.term), BOOL)
            if isinstance(op, ast.NotEq):
                return E("(%s != %s)" % (a.term, b.term), BOOL)
            return E("(decide (%s %s %s))" % (a.term, INT_CMP[type(op)], b.term), BOOL)
        if b.ty == INT:
            if a.ty[0] == "vec":
                return E("%svecCmpS .%s %s %s" % (P, CMP[type(op)], self.atom(a), self.atom(b)), BVEC(a.ty[1]), fresh=True)
            if a.ty[0] == "mat":
                return E("%smatCmpS .%s %s %s" % (P, CMP[type(op)], self.atom(a), self.atom(b)), BMAT(a.ty[1]), fresh=True)
            if a.ty[0] == "bvec" and isinstance(op, ast.Eq) and b.lit == 0:
                return E("%sbvecEq0 %s" % (P, self.atom(a)), BVEC(a.ty[1]), fresh=True)
            raise Unsupported("%s compared with an int" % show_type(a.ty), x)
        if isinstance(op, ast.Eq) and is_array(a.ty):
            return self.eq_arrays(a, b, x)
        raise Unsupported("comparison of %s and %s" % (show_type(a.ty), show_type(b.ty)), x)

    def binop(self, x):
        a = self.expr(x.left)
        b = self.expr(x.right)
        if a.ty[0] == "bvec" and b.ty[0] == "bvec":
            z = self.same_z(a, b, x)
            if isinstance(x.op, ast.Mult):
                return self.bind("%sbvecAnd %s %s" % (P, self.atom(a), self.atom(b)), BVEC(z))
            if isinstance(x.op, ast.Add):
                return self.bind("%sbvecOr %s %s" % (P, self.atom(a), self.atom(b)), BVEC(z))
        if a.ty[0] == "mat" and b.ty[0] == "mat" and isinstance(x.op, ast.Mult):
            return self.bind("%smatMul %s %s" % (P, self.atom(a), self.atom(b)), MAT(self.same_z(a, b, x)))
        raise Unsupported("operator %s between %s and %s" % (type(x.op).__name__, show_type(a.ty), show_type(b.ty)), x)

    def axis_of(self, c):
        kws = {k.arg: k.value for k in c.keywords}
        if set(kws) != {"axis"}:
            raise Unsupported("keywords %s (exactly `axis=` is expected)" % sorted(k for k in kws if k), c)
        v = int_literal(kws["axis"])
        if v is None:
            raise Unsupported("a non-literal axis", c)
        return v

    def reduce_axis(self, kind, a, axis, node):
        """kind: all | any | sum"""
        if kind in ("all", "any"):
            if a.ty[0] == "mat":
                a = E("%smatCmpS .ne %s (0 : Int)" % (P, self.atom(a)), BMAT(a.ty[1]))
            if a.ty == BMAT() and axis in (1, -1):
                return E("%s%sAxis1 %s" % (P, kind, self.atom(a)), BVEC(), fresh=True)
            raise Unsupported("np.%s(%s, axis=%d)" % (kind, show_type(a.ty), axis), node)
        if a.ty[0] == "mat" and (axis == -1 or (axis == 1 and not a.ty[1])):
            return E("%ssumAxis1 %s" % (P, self.atom(a)), VEC(a.ty[1]), fresh=True)
        if a.ty == BMAT() and axis in (1, -1):
            return E("%scountAxis1 %s" % (P, self.atom(a)), VEC(), fresh=True)
        if a.ty == ("bmat", "stack") and axis == 0:
            return E("%scountAxis0 %s" % (P, self.atom(a)), VEC(), fresh=True)
        raise Unsupported("sum of %s along axis %d" % (show_type(a.ty), axis), node)

    def call(self, c):
        name = dotted(c.func)
        # ---- methods of arrays
        if isinstance(c.func, ast.Attribute) and name not in ("np.all", "np.any", "np.sum", "np.equal", "np.logical_and",
                                                               "np.logical_or", "np.array", "np.asarray", "np.ones"):
            meth = c.func.attr
            if meth == "sum":
                if c.args:
                    raise Unsupported("positional arguments of .sum()", c)
                axis = self.axis_of(c)
                return self.reduce_axis("sum", self.expr(c.func.value), axis, c)
            if meth == "astype":
                if len(c.args) != 1 or c.keywords or (dotted(c.args[0]) or "") not in FLOAT_DTYPES:
                    raise Unsupported(".astype(%s)" % (ast.unparse(c.args[0]) if c.args else ""), c)
                a = self.expr(c.func.value)
                if a.ty[0] != "bvec":
                    raise Unsupported(".astype(float) of %s" % show_type(a.ty), c)
                return E("%sastypeFloat %s" % (P, self.atom(a)), FVEC(a.ty[1]), fresh=True)
            raise Unsupported("method .%s(...)" % meth, c)
        if name in ("np.all", "np.any", "np.sum"):
            if len(c.args) != 1:
                raise Unsupported("%s with %d positional arguments" % (name, len(c.args)), c)
            axis = self.axis_of(c)
            return self.reduce_axis(name[3:], self.expr(c.args[0]), axis, c)
        if name == "np.equal":
            if len(c.args) != 2 or c.keywords:
                raise Unsupported("np.equal with other than 2 arguments", c)
            a = self.expr(c.args[0])
            b = self.expr(c.args[1])
            return self.eq_arrays(a, b, c)
        if name in ("np.logical_and", "np.logical_or"):
            if len(c.args) != 2 or c.keywords:
                raise Unsupported("%s with other than 2 arguments (the `out=` form is a statement)" % name, c)
            a = self.expr(c.args[0])
            b = self.expr(c.args[1])
            if a.ty[0] != "bvec" or b.ty[0] != "bvec":
                raise Unsupported("%s of %s and %s" % (name, show_type(a.ty), show_type(b.ty)), c)
            return self.bind("%s%s %s %s" % (P, "bvecAnd" if name.endswith("and") else "bvecOr", self.atom(a), self.atom(b)),
                             BVEC(self.same_z(a, b, c)))
        if name == "np.array":
            if len(c.args) != 1 or c.keywords:
                raise Unsupported("np.array with a dtype / several arguments", c)
            a = self.expr(c.args[0])
            if a.ty == LISTI:
                return E("%snpArray %s" % (P, self.atom(a)), VEC(), fresh=True)
            if a.ty[0] == "list" and a.ty[1] in (LISTI, VEC(), BVEC()):
                if not a.ty[2]:
                    raise Unsupported("np.array of a list that is not statically non-empty (its result would be 1-D)", c)
                if a.ty[1] == BVEC():
                    e = self.bind("%sstackRows %s" % (P, self.atom(a)), BMAT())
                    e.ty = ("bmat", "stack")
                    return e
                e = self.bind("%sstackRows %s" % (P, self.atom(a)), MAT())
                e.lit = "nonempty"
                return e
            raise Unsupported("np.array(%s)" % show_type(a.ty), c)
        if name == "np.asarray":
            if len(c.args) != 1 or c.keywords:
                raise Unsupported("np.asarray with a dtype / several arguments", c)
            a = self.expr(c.args[0])
            if a.ty[0] == "list" and a.ty[1] == VEC():
                return self.bind("%sasarrayRows %s" % (P, self.atom(a)), MAT(not a.ty[2]))
            raise Unsupported("np.asarray(%s)" % show_type(a.ty), c)
        if name == "np.ones":
            kws = {k.arg: k.value for k in c.keywords}
            if (len(c.args) == 1 and set(kws) == {"dtype"} and dotted(kws["dtype"]) in ("bool", "np.bool_")
                    and isinstance(c.args[0], ast.Attribute) and c.args[0].attr == "shape"):
                a = self.expr(c.args[0].value)
                if a.ty == VEC():
                    return E("%sonesBoolLike %s" % (P, self.atom(a)), BVEC(), fresh=True)
            raise Unsupported("np.ones other than np.ones(<vector>.shape, dtype=bool)", c)
        if name == "len":
            if len(c.args) != 1 or c.keywords:
                raise Unsupported("len with other than one argument", c)
            a = self.expr(c.args[0])
            if a.ty == STRS or a.ty[0] in ("vec", "list", "listi"):
                return E("((%s).length : Int)" % a.term, INT)
            raise Unsupported("len(%s)" % show_type(a.ty), c)
        if name == "encode_many":
            if len(c.args) != 2 or c.keywords:
                raise Unsupported("encode_many called with other than (labels, <bool literal>)", c)
            a = self.expr(c.args[0])
            b = self.expr(c.args[1])
            if a.ty != STRS or b.ty != BOOL or b.lit is None:
                raise Unsupported("encode_many(%s, %s)" % (show_type(a.ty), show_type(b.ty)), c)
            if "encode_many" not in self.m.funcs:
                raise Unsupported("encode_many is not defined in chord.py", c)
            return self.bind("%sencode_many %s %s" % (P, self.atom(a), b.term), TUP([VEC(), MAT(), VEC()]))
        if name in self.m.funcs and (name in FOREIGN or name in WANTED):
            sig = FOREIGN[name] if name in FOREIGN else self.m.translate(name)
            if c.keywords or len(c.args) != len(sig.params):
                raise Unsupported("call of %s with keywords / a wrong number of arguments" % name, c)
            args = []
            for a, (pn, pt) in zip(c.args, sig.params):
                e = self.expr(a)
                if e.ty != pt and not (pt == VEC() and e.ty == LISTI):
                    raise Unsupported("argument %s of %s is %s, expected %s" % (pn, name, show_type(e.ty), show_type(pt)), c)
                args.append(self.atom(e))
            return self.bind("%s %s" % (sig.lean_name, " ".join(args)), sig.ret)
        raise Unsupported("call of %s" % (name or ast.unparse(c.func)), c)

    def subscript(self, x):
        s = x.slice
        a = self.expr(x.value)
        if a.ty[0] == "tup":
            n = len(a.ty[1])
            parts = [a.term + "." + ".".join(["2"] * i + (["1"] if i < n - 1 else [])) for i in range(n)]
            parts = [p.rstrip(".") for p in parts]
            if isinstance(s, ast.Slice):
                if s.lower is not None or s.step is not None or int_literal(s.upper) is None:
                    raise Unsupported("a tuple slice other than [:<literal>]", x)
                k = int_literal(s.upper)
                if not 1 <= k <= n:
                    raise Unsupported("tuple slice [:%d] of a %d-tuple" % (k, n), x)
                return E("(%s)" % ", ".join(parts[:k]), TUP(a.ty[1][:k]), elts=[E(p, t) for p, t in zip(parts[:k], a.ty[1][:k])])
            k = int_literal(s)
            if k is None or not -n <= k < n:
                raise Unsupported("tuple index", x)
            return E(parts[k % n], a.ty[1][k % n])
        if a.ty == MAT() and isinstance(s, ast.Tuple) and len(s.elts) == 2:
            r, cidx = s.elts
            if isinstance(r, ast.Slice) and r.lower is None and r.upper is None and r.step is None:
                if isinstance(cidx, ast.Slice):
                    k = int_literal(cidx.upper) if cidx.upper is not None else None
                    if cidx.lower is not None or cidx.step is not None or k is None or k < 0:
                        raise Unsupported("a column slice other than [:, :<non-negative literal>]", x)
                    return E("%ssliceCols %s %d" % (P, self.atom(a), k), MAT())
                k = int_literal(cidx)
                if k is None or k < 0:
                    raise Unsupported("a column index other than a non-negative literal", x)
                return self.bind("%scol %s %d" % (P, self.atom(a), k), VEC())
            # M[mask, cols]
            cols = self.expr(cidx)
            m = self.expr(r)
            if m.ty == BVEC() and cols.ty == VEC():
                rows = self.bind("%smaskSelect %s %s" % (P, self.atom(a), self.atom(m)), MAT())
                return self.bind("%spairIndex %s %s" % (P, rows.term, self.atom(cols)), VEC())
            raise Unsupported("matrix index [%s, %s]" % (show_type(m.ty), show_type(cols.ty)), x)
        if a.ty == VEC() and not isinstance(s, (ast.Slice, ast.Tuple)):
            m = self.expr(s)
            if m.ty == BVEC():
                return self.bind("%smaskSelect %s %s" % (P, self.atom(a), self.atom(m)), VEC())
            raise Unsupported("vector index of type %s" % show_type(m.ty), x)
        if a.ty == DICT_QUAL:
            k = self.expr(s)
            if k.ty != STR:
                raise Unsupported("QUALITIES[%s]" % show_type(k.ty), x)
            return self.bind("Mir.PyS.dictIndex %s %s" % (a.term, self.atom(k)), LISTI, fresh=False)
        if a.ty == LISTI and isinstance(s, ast.Slice):
            k = int_literal(s.upper) if s.upper is not None else None
            if s.lower is not None or s.step is not None or k is None or k < 0:
                raise Unsupported("a list slice other than [:<non-negative literal>]", x)
            return E("%slistTake %s %d" % (P, self.atom(a), k), LISTI, fresh=True)
        raise Unsupported("subscript of %s" % show_type(a.ty), x)

    # ---- statements
    def assign_name(self, name, e, node):
        if is_array(e.ty) and not e.fresh and e.term in [ident(n) for n in self.env]:
            raise Unsupported("`%s = <array name>` would alias two names to one array" % name, node)
        lt = lean_type(e.ty if e.ty != ("bmat", "stack") else BMAT())
        if self.lines and self.lines[-1].startswith("let %s : %s ← " % (e.term, lt)):
            # `x = <effectful expression>`: the temporary just bound IS x
            self.lines[-1] = "let %s : %s ← %s" % (ident(name), lt, self.lines[-1].split("← ", 1)[1])
        else:
            self.lines.append("let %s : %s := %s" % (ident(name), lt, e.term))
        self.env[name] = e.ty
        if e.fresh and e.ty[0] in ("fvec", "bvec", "vec"):
            self.owned.add(name)
        else:
            self.owned.discard(name)
        if e.ty == MAT():
            self.m.nonempty[name] = (e.lit == "nonempty")

    def exc_of(self, node):
        ex = node.exc
        if isinstance(ex, ast.Call):
            ex = ex.func
        nm = dotted(ex) if ex is not None else None
        if nm is None:
            raise Unsupported("bare raise / computed exception", node)
        return EXC.get(nm.split(".")[-1], "PyErr.other")

    def is_warn(self, st):
        return (isinstance(st, ast.Expr) and isinstance(st.value, ast.Call) and dotted(st.value.func) == "warnings.warn"
                and self.m.imports.get("warnings") == "warnings")

    def for_body(self, st):
        """`for x in <list>: <call statements / nested for>` -> a term of type Py Unit"""
        if st.orelse or not isinstance(st.target, ast.Name):
            raise Unsupported("for loop with else / a destructuring target", st)
        it = self.expr(st.iter)
        if it.ty == STRS:
            elt = STR
        elif it.ty[0] == "list":
            elt = it.ty[1]
        else:
            raise Unsupported("a for loop over %s" % show_type(it.ty), st)
        sub = Body(self.m, self.fn)
        sub.env = dict(self.env)
        sub.env[st.target.id] = elt
        sub.ntmp = self.ntmp + 100
        for s in st.body:
            if isinstance(s, ast.For):
                sub.lines.append(sub.for_body(s))
            elif isinstance(s, ast.Expr) and isinstance(s.value, ast.Call) and not sub.is_warn(s):
                e = sub.call(s.value)
                if e.ty != NONE:
                    raise Unsupported("a call statement whose value is dropped", s)
                # the last `let _t ← f x` is the statement itself
                last = sub.lines.pop()
                sub.lines.append(last.split("← ", 1)[1])
            else:
                raise Unsupported("statement %s inside a for loop" % type(s).__name__, s)
        v = ident(st.target.id)
        if len(sub.lines) == 1:
            return "(%s).forM (fun (%s : %s) => %s)" % (it.term, v, lean_type(elt), sub.lines[0])
        return "(%s).forM (fun (%s : %s) => do\n%s)" % (it.term, v, lean_type(elt), "\n".join(indent(sub.lines, 4)))

    def stmts(self, body):
        i = 0
        while i < len(body):
            st = body[i]
            nxt = body[i + 1] if i + 1 < len(body) else None
            i += 1
            if isinstance(st, ast.Expr) and isinstance(st.value, ast.Constant) and isinstance(st.value.value, str):
                continue
            if self.is_warn(st):
                continue
            if isinstance(st, ast.Return):
                if st.value is None:
                    raise Unsupported("bare return", st)
                e = self.expr(st.value)
                self.lines.append("pure %s" % self.atom(e))
                self.ret = e.ty
                if i != len(body):
                    raise Unsupported("statements after return", st)
                return
            if isinstance(st, ast.Raise):
                self.lines.append("(Except.error %s : Py Unit)" % self.exc_of(st))
                continue
            if isinstance(st, ast.If):
                if st.orelse:
                    raise Unsupported("if with else", st)
                c = Body(self.m, self.fn)
                c.env = dict(self.env)
                ce = c.expr(st.test)
                if c.lines or ce.ty != BOOL:
                    raise Unsupported("an `if` condition that is not a pure Python bool", st)
                if all(self.is_warn(s) for s in st.body):
                    continue
                if len(st.body) == 1 and isinstance(st.body[0], ast.Raise):
                    self.lines.append("(if %s then Except.error %s else pure () : Py Unit)" % (ce.term, self.exc_of(st.body[0])))
                    continue
                raise Unsupported("an `if` whose body is not a single raise / warnings.warn", st)
            if isinstance(st, ast.For):
                self.lines.append(self.for_body(st))
                continue
            if isinstance(st, ast.Expr) and isinstance(st.value, ast.Call):
                c = st.value
                nm = dotted(c.func)
                if nm in ("np.logical_or", "np.logical_and"):
                    args = list(c.args)
                    kws = {k.arg: k.value for k in c.keywords}
                    if len(args) == 2 and set(kws) == {"out"}:
                        args.append(kws["out"])
                    elif kws or len(args) != 3:
                        raise Unsupported("%s as a statement without an output array" % nm, st)
                    out = args[2]
                    if not (isinstance(out, ast.Name) and isinstance(args[0], ast.Name) and out.id == args[0].id
                            and out.id in self.owned and self.env[out.id] == BVEC()):
                        raise Unsupported("`out=` must be the first operand, an owned boolean vector", st)
                    a = self.expr(args[0])
                    b = self.expr(args[1])
                    if b.ty != BVEC():
                        raise Unsupported("%s with a second operand of type %s" % (nm, show_type(b.ty)), st)
                    self.lines.append("let %s : %s ← %s%s %s %s" % (ident(out.id), lean_type(BVEC()), P,
                                                                    "bvecAnd" if nm.endswith("and") else "bvecOr",
                                                                    self.atom(a), self.atom(b)))
                    continue
                e = self.call(c)
                if e.ty != NONE:
                    raise Unsupported("a call statement whose value is dropped", st)
                last = self.lines.pop()
                self.lines.append(last.split("← ", 1)[1])
                continue
            if isinstance(st, ast.Assign) and len(st.targets) == 1:
                tg = st.targets[0]
                # x = []; for a, b in zip(A, B): x.append(f(a, b))
                if (isinstance(tg, ast.Name) and isinstance(st.value, ast.List) and not st.value.elts
                        and isinstance(nxt, ast.For)):
                    self.append_loop(tg.id, nxt)
                    i += 1
                    continue
                if isinstance(tg, ast.Name):
                    self.assign_name(tg.id, self.expr(st.value), st)
                    continue
                if isinstance(tg, ast.Tuple) and all(isinstance(t, ast.Name) for t in tg.elts):
                    e = self.expr(st.value)
                    if e.ty[0] != "tup" or len(e.ty[1]) != len(tg.elts):
                        raise Unsupported("unpacking %s into %d names" % (show_type(e.ty), len(tg.elts)), st)
                    parts = e.elts
                    if parts is None:
                        n = len(e.ty[1])
                        parts = [E((e.term + "." + ".".join(["2"] * k + (["1"] if k < n - 1 else []))).rstrip("."), t, fresh=True)
                                 for k, t in enumerate(e.ty[1])]
                    for t, p in zip(tg.elts, parts):
                        if t.id == "_":
                            continue
                        p.fresh = False
                        self.lines.append("let %s : %s := %s" % (ident(t.id), lean_type(p.ty), p.term))
                        self.env[t.id] = p.ty
                        self.owned.discard(t.id)
                    continue
                if isinstance(tg, ast.Subscript) and isinstance(tg.value, ast.Name):
                    self.store(tg, st)
                    continue
            raise Unsupported("statement %s" % type(st).__name__, st)

    def store(self, tg, st):
        name = tg.value.id
        if name not in self.env or name not in self.owned:
            raise Unsupported("item store into %s, which is not a local bound to a freshly allocated array" % name, st)
        ty = self.env[name]
        if isinstance(tg.slice, (ast.Slice, ast.Tuple)):
            raise Unsupported("a store through a slice / tuple index", st)
        m = self.expr(tg.slice)
        if m.ty != BVEC():
            raise Unsupported("a store through an index of type %s" % show_type(m.ty), st)
        if ty[0] in ("fvec", "vec"):
            v = int_literal(st.value)
            if v is None:
                raise Unsupported("the stored value is not an integer-valued literal", st)
            prim = "maskSet0d" if ty[1] else "maskSet"
            self.lines.append("let %s : %s ← %s%s %s %s (%d : Int)" % (ident(name), lean_type(ty), P, prim, ident(name),
                                                                    self.atom(m), v))
            return
        if ty == BVEC():
            e = self.expr(st.value)
            if e.ty != VEC():
                raise Unsupported("storing %s into a boolean vector" % show_type(e.ty), st)
            self.lines.append("let %s : %s ← %smaskStoreB %s %s %s" % (ident(name), lean_type(ty), P, ident(name),
                                                                      self.atom(m), self.atom(e)))
            return
        raise Unsupported("item store into %s" % show_type(ty), st)

    def append_loop(self, name, loop):
        it = loop.iter
        if not (isinstance(it, ast.Call) and dotted(it.func) == "zip" and len(it.args) == 2 and not it.keywords
                and isinstance(loop.target, ast.Tuple) and len(loop.target.elts) == 2
                and all(isinstance(t, ast.Name) for t in loop.target.elts) and not loop.orelse and len(loop.body) == 1):
            raise Unsupported("`%s = []` is not followed by `for a, b in zip(A, B): %s.append(f(a, b))`" % (name, name), loop)
        s = loop.body[0]
        if not (isinstance(s, ast.Expr) and isinstance(s.value, ast.Call) and dotted(s.value.func) == name + ".append"
                and len(s.value.args) == 1 and not s.value.keywords):
            raise Unsupported("the loop body is not `%s.append(<e>)`" % name, s)
        a = self.expr(it.args[0])
        b = self.expr(it.args[1])
        elts = []
        for e in (a, b):
            if e.ty == MAT():
                elts.append(VEC())
            elif e.ty == VEC():
                elts.append(INT)
            else:
                raise Unsupported("zip over %s" % show_type(e.ty), it)
        sub = Body(self.m, self.fn)
        sub.env = dict(self.env)
        va, vb = loop.target.elts[0].id, loop.target.elts[1].id
        sub.env[va], sub.env[vb] = elts
        sub.ntmp = self.ntmp + 100
        r = sub.expr(s.value.args[0])
        if r.ty != VEC():
            raise Unsupported("appending %s" % show_type(r.ty), s)
        body = ["(List.zip %s %s).mapM (fun ((%s, %s) : %s × %s) => do" % (
            self.atom(a), self.atom(b), ident(va), ident(vb), lean_type(elts[0]), lean_type(elts[1]))]
        body += indent(sub.lines + ["pure %s" % sub.atom(r)], 4) + ["  )"]
        self.lines.append("let %s : %s ← %s" % (ident(name), lean_type(LST(VEC())), "\n  ".join(body)))
        self.env[name] = LST(VEC(), False)
        self.owned.discard(name)


class Module:
    def __init__(self, source):
        self.tree = ast.parse(source)
        self.funcs, self.assigned, self.imports = {}, set(), {}
        for st in self.tree.body:
            if isinstance(st, ast.FunctionDef):
                self.funcs.setdefault(st.name, []).append(st)
            elif isinstance(st, (ast.Assign, ast.AugAssign, ast.AnnAssign)):
                for nd in ast.walk(st):
                    if isinstance(nd, ast.Name) and isinstance(nd.ctx, ast.Store):
                        self.assigned.add(nd.id)
            elif isinstance(st, ast.Import):
                for a in st.names:
                    self.imports[a.asname or a.name.split(".")[0]] = a.name if a.asname else a.name.split(".")[0]
            elif isinstance(st, ast.ImportFrom):
                for a in st.names:
                    self.imports[a.asname or a.name] = "%s.%s" % (st.module or ".", a.name)
        self.sigs, self.failed, self.emitted, self.in_progress = {}, {}, [], set()
        self.nonempty = {}

    def translate(self, fname):
        if fname in self.sigs:
            return self.sigs[fname]
        if fname in self.failed:
            raise Unsupported("calls %s, which is outside the subset (%s)" % (fname, self.failed[fname]))
        defs = self.funcs.get(fname)
        try:
            if not defs:
                raise Unsupported("no function %s in mir_eval/chord.py" % fname)
            if len(defs) > 1:
                raise Unsupported("%s is defined %d times" % (fname, len(defs)))
            if fname in self.in_progress:
                raise Unsupported("recursion through %s" % fname)
            if self.imports.get("np") != "numpy":
                raise Unsupported("`np` is not `import numpy as np`")
            self.in_progress.add(fname)
            try:
                sig, lines = self.translate_def(defs[0])
            finally:
                self.in_progress.discard(fname)
        except Unsupported as e:
            self.failed[fname] = e.detail
            raise
        self.sigs[fname] = sig
        self.emitted.append((fname, lines))
        return sig

    def translate_def(self, fn):
        for d in fn.decorator_list:
            nm = dotted(d.func if isinstance(d, ast.Call) else d)
            if nm not in OK_DECORATORS:
                raise Unsupported("decorator %s" % (nm or ast.unparse(d)), fn)
        a = fn.args
        if a.vararg or a.kwarg or a.kwonlyargs or a.posonlyargs or a.defaults:
            raise Unsupported("*args / **kwargs / keyword-only / default parameters", fn)
        doc = doc_param_types(fn)
        params = []
        for p in a.args:
            if p.arg not in doc:
                raise Unsupported("parameter %s has no documented type" % p.arg, fn)
            params.append((p.arg, param_type(doc[p.arg], fn)))
        b = Body(self, fn)
        b.env = dict(params)
        self.nonempty = {}
        b.stmts(fn.body)
        if b.ret is None:
            b.lines.append("pure ()")
            b.ret = NONE
        ret = b.ret
        if ret == ("bmat", "stack"):
            ret = BMAT()
        head = "def %s %s : Py %s := do" % (ident(fn.name), " ".join("(%s : %s)" % (ident(n), lean_type(t)) for n, t in params),
                                            lean_type(ret))
        lines = ["/-- `chord.%s` (mir_eval/chord.py) -/" % fn.name, head] + indent(b.lines)
        return Sig(fn.name, params, ret), lines


HEADER = """import MirModel.PyCmp
import MirGen.Tables
import MirGen.ChordFns
/-!
  GENERATED by harness/translate/chordcmp.py from mir_eval/chord.py — do not edit.
  One shallow definition per translated function (`Mir.Gen.chord.<function>`: `validate`, `rotate_bitmaps_to_roots` and the
  twelve comparison rules), over `Mir.PyCmp` (MirModel/PyCmp.lean).  Regenerated from the working tree on every run of
  ./check C11; `MirProofs/Props/C11_GenCmp.lean` proves each rule equal to the hand-written row model
  (`MirModel/ChordCompare.lean` on the rows of `Chord.pyEncodeMany`) for all label lists.
-/
set_option linter.unusedVariables false
"""


def translate_all(repo, wanted=None):
    wanted = WANTED if wanted is None else wanted
    path = os.path.join(repo, "mir_eval", "chord.py")
    problems = []
    try:
        m = Module(open(path, encoding="utf-8").read())
    except (OSError, SyntaxError) as e:
        m = None
        problems = [(f, "cannot read/parse %s: %s" % (path, e)) for f in wanted]
    if m is not None:
        for fname in wanted:
            try:
                m.translate(fname)
            except Unsupported as e:
                problems.append((fname, e.detail))
    L = [HEADER, "namespace Mir.Gen.chord", ""]
    emitted = [] if m is None else m.emitted
    for name, lines in emitted:
        L += lines + [""]
    L += ["end Mir.Gen.chord", "", "namespace Mir.Gen.ChordCmp", ""]
    L.append("/-- names of the translated definitions (in emission order) -/")
    L.append("def names : List String := [%s]" % ", ".join('"%s"' % n for n, _ in emitted))
    L.append("")
    L.append("private def strs? (v : Val) : Option (List Mir.PyCmp.Str) := (Val.asStrs? v).map (List.map String.toList)")
    L.append("")
    L.append("/-- protocol op `gen.chordcmp <\"function\"> <args...>` -/")
    L.append("def handler : Handler := fun fn args =>")
    L.append("  match fn, args with")
    for name, _ in emitted:
        sig = m.sigs[name]
        ptys = [t for _, t in sig.params]
        if ptys == [STRS, STRS] and sig.ret in (FVEC(), FVEC(True)):
            L.append("  | \"gen.chordcmp\", [Val.str \"%s\", a, b] => do" % name)
            L.append("      let a ← strs? a; let b ← strs? b")
            L.append("      some (Except.map Val.ofInts (Mir.Gen.chord.%s a b))" % ident(name))
        elif ptys == [STRS, STRS] and sig.ret == NONE:
            L.append("  | \"gen.chordcmp\", [Val.str \"%s\", a, b] => do" % name)
            L.append("      let a ← strs? a; let b ← strs? b")
            L.append("      some (Except.map (fun _ => Val.none) (Mir.Gen.chord.%s a b))" % ident(name))
        elif ptys == [MAT(), VEC()] and sig.ret[0] == "mat":
            L.append("  | \"gen.chordcmp\", [Val.str \"%s\", a, b] => do" % name)
            L.append("      let a ← (← Val.asList? a).mapM Val.asInts?; let b ← Val.asInts? b")
            L.append("      some (Except.map (fun M => Val.list (List.map Val.ofInts M)) (Mir.Gen.chord.%s a b))" % ident(name))
    L.append("  | _, _ => none")
    L.append("")
    L.append("end Mir.Gen.ChordCmp")
    return "\n".join(L) + "\n", ({} if m is None else dict(m.sigs)), problems


def generate(repo, outdir):
    text, done, problems = translate_all(repo)
    os.makedirs(outdir, exist_ok=True)
    write_if_changed(os.path.join(outdir, "ChordCmp.lean"), text)
    obligations = ["Mir.Gen.chord.%s" % n for n in done]
    probs = [{"name": "chordcmp: chord.%s" % f, "detail": "outside the translated subset: " + d} for f, d in problems]
    return obligations, probs


if __name__ == "__main__":
    repo = sys.argv[1] if len(sys.argv) > 1 else "/repo"
    text, done, problems = translate_all(repo)
    sys.stdout.write(text)
    for p in problems:
        sys.stderr.write("PROBLEM chord.%s: %s\n" % p)
