"""Part `chordfns`: the label functions of mir_eval/chord.py (validate_chord_label / split / join / reduce_extended_quality /
scale_degree_to_bitmap / quality_to_bitmap / encode) -> lean/MirGen/ChordFns.lean (see translate/scalars_chordfn.py).
The definitions read MirGen/Tables.lean, MirGen/ChordRe.lean and the two chord helpers of MirGen/Scalars.lean: name the
parts `tables`, `regex`, `scalars_chord` next to this one."""
from translate import scalars_chordfn


def generate(repo, outdir):
    return scalars_chordfn.generate(repo, outdir, groups=("labels",))
