"""Part `chordfns_rotate`: `chord.rotate_bitmap_to_root` of lean/MirGen/ChordFns.lean (see translate/scalars_chordfn.py). The
whole file is rewritten (content-addressed); only the obligation / problem of that function is reported (C11: mirex)."""
from translate import scalars_chordfn


def generate(repo, outdir):
    return scalars_chordfn.generate(repo, outdir, groups=("rotate",))
