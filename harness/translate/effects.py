"""Source -> lean/MirGen/Effects.lean  (DESIGN.md §5 C15).

An AST walk over the *current* source of the task modules, `util`, `sonify` and `separation` that emits one
`Mir.Effects.FunDef` per Python function (nested functions are lambda-lifted) in the small effect
language of `lean/MirModel/Effects.lean`.  What is kept of a function is only what can make it impure:
which names may be bound to (a view of / a container holding / an element of) which other names'
objects, which names are written through in place, which calls are made, which module-level state is
touched, and the `np.empty` bookkeeping.

The *classification tables* below are the trusted part: which NumPy/SciPy/builtin calls allocate, which
may return a view of an argument, which write in place.  The translator FAILS CLOSED: a statement form,
an external call or a method name it has no entry for is reported as a problem (the check then reports the
proof side as broken) instead of being guessed.

Modelling conventions (also listed as ASSUMPTIONS by harness/props/c15.py):
  * one model variable per Python variable; an object and what is reachable from it form one region
    (`x[i]`, `for y in x`, `x.T`, `np.asarray(x)`, container displays holding x … may alias x);
  * a slice / `list()` / `sorted()` / comprehension over a *list of immutable items* (label lists,
    recognised by name or by how the local was built) is a new object;
  * binary/unary arithmetic, comparisons, reductions and the calls listed in ALLOC allocate;
  * user-supplied callables (`function=np.sin`, `distance=`, `comparison_func`) and `warnings.warn` are
    assumed not to write their arguments;
  * `**kwargs` of the function itself is a new dict whose items may alias the caller's objects.
"""
import ast
import builtins
import os
import sys

MODULES = ["util", "alignment", "beat", "chord", "hierarchy", "key", "melody", "multipitch", "onset",
           "pattern", "segment", "separation", "sonify", "tempo", "transcription",
           "transcription_velocity"]

# ---------------------------------------------------------------------------------------------------
# classification tables (trusted)

# external functions that allocate their result and write none of their arguments
ALLOC = {
    "np." + n for n in """abs all allclose any append arange argmax argmin argsort argwhere around array
    bincount ceil concatenate conj correlate cumsum diff equal equal.outer exp finfo flatnonzero floor
    histogram hstack insert int64 interp isfinite ix_ linalg.lstsq linalg.solve linspace log log10 log2
    logical_and logical_or max maximum mean median min minimum mod nonzero ones outer resize roll round
    searchsorted shape sin sqrt std subtract.outer sum tile triu unique vstack where zeros zeros_like
    float32 float64 int32 uint8 cos tan power sign dot floor_divide isnan isinf clip stack column_stack
    full full_like ones_like eye identity meshgrid prod cumprod var nanmean nanmax nanmin nansum
    count_nonzero lexsort digitize trapz convolve kron matmul einsum tensordot rint trunc hypot arctan2
    less less_equal greater greater_equal not_equal logical_not logical_xor isclose array_equal
    setdiff1d intersect1d union1d in1d isin amax amin ptp percentile quantile average cov corrcoef
    fft.fft fft.ifft fft.rfft fft.irfft pad repeat delete copy sort argpartition partition cross
    nanmedian nanstd nanvar cumsum ediff1d gradient trapezoid flatnonzero nan_to_num_copy negative
    reciprocal square cbrt exp2 expm1 log1p floor_divide remainder fmod fabs signbit copysign
    fmax fmin heaviside deg2rad rad2deg arcsin arccos arctan sinh cosh tanh""".split()
} | {
    "scipy.fftpack.fft", "scipy.fftpack.ifft", "scipy.interpolate.interp1d", "scipy.sparse.coo_matrix",
    "scipy.sparse.csr_matrix", "scipy.sparse.lil_matrix", "scipy.special.comb", "scipy.special.gammaln",
    "scipy.stats.entropy", "scipy.stats.skewnorm.pdf", "scipy.stats.norm.pdf",
    "scipy.signal.fftconvolve", "scipy.linalg.toeplitz",
    "inspect.signature",
    "os.path.split", "os.path.splitext", "os.path.basename", "os.path.join",
    "re.compile", "re.match", "re.sub", "re.split", "warnings.warn", "decorator.decorator",
}
# external functions that build a new container holding (references to) their arguments' items
SHALLOW = {"collections.OrderedDict", "collections.defaultdict", "itertools.chain", "itertools.combinations",
           "itertools.permutations", "itertools.tee", "itertools.product", "itertools.chain.from_iterable",
           "collections.Counter", "collections.deque", "itertools.zip_longest", "itertools.islice",
           "itertools.groupby", "itertools.accumulate", "itertools.repeat", "itertools.cycle"}
# external functions whose result may be (a view of) their first argument(s)
VIEW = {"np." + n for n in """asarray asanyarray ascontiguousarray atleast_1d atleast_2d atleast_3d ravel
    reshape squeeze transpose swapaxes moveaxis rollaxis expand_dims broadcast_to real imag diagonal diag
    flip fliplr flipud split array_split hsplit vsplit nan_to_num lib.stride_tricks.as_strided
    require""".split()}
# external functions that write their first argument in place
INPLACE = {"np." + n for n in """put place copyto fill_diagonal random.shuffle add.at subtract.at
    putmask ndarray.sort ndarray.fill""".split()} | {"random.shuffle"}
# external functions that change library / interpreter global state
GLOBALSTATE = {"np.random.seed", "np.seterr", "np.seterrcall", "np.set_printoptions", "random.seed",
               "warnings.simplefilter", "warnings.filterwarnings", "warnings.resetwarnings",
               "os.chdir", "os.environ.update", "np.random.rand", "np.random.randn", "np.random.random",
               "np.random.randint", "np.random.uniform", "np.random.normal", "np.random.choice",
               "np.random.permutation", "random.random", "random.randint", "random.choice",
               "random.uniform"}

BUILTIN_ALLOC = {"len", "int", "float", "bool", "str", "range", "abs", "round", "isinstance", "type",
                 "slice", "sum", "any", "all", "repr", "hash", "callable", "divmod",
                 "ord", "chr", "print", "format", "id", "issubclass", "hasattr", "pow", "complex",
                 "ValueError", "TypeError", "IndexError", "KeyError", "RuntimeError", "Exception",
                 "NotImplementedError", "DeprecationWarning", "UserWarning", "FutureWarning"}
# new container, items shared with the argument(s)
BUILTIN_SHALLOW = {"list", "tuple", "set", "frozenset", "dict", "sorted", "reversed", "enumerate",
                   "zip", "iter", "map", "filter"}
# may return (an element of) an argument
BUILTIN_ELEMENT = {"next", "getattr", "min", "max"}

# methods: allocate a new object, receiver untouched
METH_ALLOC = set("""any all astype count dot flatten format join lower upper match max mean min pdf
    split startswith endswith strip lstrip rstrip sum toarray tocsr tolist copy argmax argmin argsort
    nonzero cumsum round std var prod conj replace index keys isdigit isalpha find rfind encode decode
    title capitalize zfill center ljust rjust partition rpartition splitlines search sub findall fullmatch
    group groups groupdict start end span tobytes tostring todense tocoo tolil tocsc item repeat
    searchsorted trace cumprod ptp isnumeric isspace casefold swapcase expandtabs most_common total
    bit_length is_integer as_integer_ratio hex conjugate __len__ __contains__ issubset issuperset
    isdisjoint union intersection difference symmetric_difference""".split())
# methods: may return a view / an element of the receiver
METH_VIEW = set("""reshape squeeze transpose ravel view swapaxes get items values diagonal
    __getitem__ real imag byteswap newbyteorder getfield""".split())
# methods: write the receiver in place; the bool says whether the result may alias the receiver
METH_INPLACE = {"append": False, "extend": False, "insert": False, "remove": False, "reverse": False,
                "sort": False, "clear": False, "update": False, "add": False, "discard": False,
                "fill": False, "resize": False, "put": False, "itemset": False, "setflags": False,
                "popitem": True, "pop": True, "setdefault": True, "setfield": False, "partition_": False,
                "intersection_update": False, "difference_update": False,
                "symmetric_difference_update": False, "appendleft": False, "popleft": True,
                "rotate": False, "move_to_end": False, "setdiag": False, "eliminate_zeros": False,
                "sum_duplicates": False, "sort_indices": False}
# methods whose argument is stored into the receiver (the receiver's region absorbs the argument)
METH_ABSORB = {"append", "extend", "insert", "update", "add", "setdefault", "appendleft"}

# attributes: new immutable object
ATTR_FRESH = set("""shape size ndim dtype itemsize nbytes strides __name__ __code__ __module__ __doc__
    co_argcount co_varnames parameters kind tiny eps max min VAR_KEYWORD VAR_POSITIONAL name default
    LinAlgError linalg""".split())
# attributes: view of the object
ATTR_VIEW = set("""T real imag flat base data""".split())

# parameters / locals recognised as lists of immutable items (a slice of them is a new list)
def _is_label_list_name(name):
    return name == "labels" or name.endswith("_labels") or name in ("labels_out",)


class Unsupported(Exception):
    pass


# ---------------------------------------------------------------------------------------------------
# program representation (mirrors Mir.Effects.Stmt)

def S_skip():
    return ("skip",)


def S_seq(stmts):
    out = []
    for s in stmts:
        if s[0] == "block":
            out.extend(s[1])
        elif s[0] != "skip":
            out.append(s)
    if not out:
        return ("skip",)
    if len(out) == 1:
        return out[0]
    return ("block", out)


class Fun:
    def __init__(self, module, qual, node, parent=None):
        self.module = module
        self.qual = qual              # e.g. "util.f_measure", "pattern.three_layer_FPR.compute_layer"
        self.node = node
        self.parent = parent          # enclosing Fun for lifted nested functions
        a = node.args
        self.pos = [x.arg for x in a.posonlyargs + a.args]
        self.vararg = a.vararg.arg if a.vararg else None
        self.kwonly = [x.arg for x in a.kwonlyargs]
        self.kwarg = a.kwarg.arg if a.kwarg else None
        self.captured = []            # free variables bound in the parent (extra parameters)
        self.params = None            # filled by finish_params
        self.body = None
        self.callees = []
        self.public = parent is None and not node.name.startswith("_")
        self.locals = set()
        self.nested = {}              # name -> Fun

    def finish_params(self):
        self.params = list(self.pos)
        if self.vararg:
            self.params.append(self.vararg)
        self.params += self.kwonly
        if self.kwarg:
            self.params.append(self.kwarg)
        for c in self.captured:                            # captured variables, passed explicitly
            self.params += ["^" + c, "^" + c + "'"]

    @property
    def lean(self):
        return self.qual.replace(".", "_")


def assigned_names(node):
    """Names bound anywhere in a function body (not descending into nested functions)."""
    out = set()

    def targets(t):
        if isinstance(t, ast.Name):
            out.add(t.id)
        elif isinstance(t, (ast.Tuple, ast.List)):
            for e in t.elts:
                targets(e)
        elif isinstance(t, ast.Starred):
            targets(t.value)

    def walk(n, top):
        for c in ast.iter_child_nodes(n):
            if isinstance(c, (ast.FunctionDef, ast.AsyncFunctionDef)):
                out.add(c.name)
                continue
            if isinstance(c, ast.Lambda):
                continue
            if isinstance(c, ast.ClassDef):
                out.add(c.name)
                continue
            if isinstance(c, ast.Assign):
                for t in c.targets:
                    targets(t)
            elif isinstance(c, (ast.AugAssign, ast.AnnAssign)):
                targets(c.target)
            elif isinstance(c, (ast.For, ast.AsyncFor)):
                targets(c.target)
            elif isinstance(c, ast.With):
                for it in c.items:
                    if it.optional_vars is not None:
                        targets(it.optional_vars)
            elif isinstance(c, (ast.Import, ast.ImportFrom)):
                for al in c.names:
                    out.add((al.asname or al.name).split(".")[0])
            elif isinstance(c, ast.ExceptHandler) and c.name:
                out.add(c.name)
            elif isinstance(c, ast.NamedExpr):
                targets(c.target)
            walk(c, False)

    walk(node, True)
    return out


def free_names(node):
    """Names loaded anywhere below `node` (including nested functions)."""
    return {n.id for n in ast.walk(node) if isinstance(n, ast.Name)}


# ---------------------------------------------------------------------------------------------------

class ModuleInfo:
    def __init__(self, name, tree):
        self.name = name
        self.tree = tree
        self.funs = {}        # top-level function name -> Fun
        self.aliases = {}     # local name -> ("ext", dotted) | ("mod", mir_eval module) | ("fun", qual)
        self.consts = {}      # module-level variable name -> "imm" | "flatdict" | "obj"
        self.classes = set()


def _deep_immutable(v, depth=0):
    import re as _re
    import numpy as _np
    if v is None or isinstance(v, (bool, int, float, complex, str, bytes, _re.Pattern, _np.generic, type)):
        return True
    if isinstance(v, (tuple, frozenset)) and depth < 4:
        return all(_deep_immutable(x, depth + 1) for x in v)
    return False


def const_kind(value):
    if _deep_immutable(value):
        return "imm"
    if isinstance(value, dict) and all(_deep_immutable(k) and _deep_immutable(x) for k, x in value.items()):
        return "flatdict"
    return "obj"


class Translator:
    def __init__(self, repo):
        self.repo = repo
        self.mods = {}
        self.funs = {}        # qual -> Fun
        self.problems = []
        self.globals = {}     # "mod.NAME" -> index
        self.load()

    # ---- loading --------------------------------------------------------------------------------
    def load(self):
        for m in MODULES:
            path = os.path.join(self.repo, "mir_eval", m + ".py")
            tree = ast.parse(open(path).read(), filename=path)
            mi = ModuleInfo(m, tree)
            self.mods[m] = mi
            for n in tree.body:
                if isinstance(n, ast.FunctionDef):
                    f = Fun(m, m + "." + n.name, n)
                    mi.funs[n.name] = f
                    self.funs[f.qual] = f
                elif isinstance(n, ast.ClassDef):
                    mi.classes.add(n.name)
                elif isinstance(n, ast.Import):
                    for al in n.names:
                        if al.asname:
                            mi.aliases[al.asname] = ("ext", self._extname(al.name))
                        else:
                            top = al.name.split(".")[0]
                            mi.aliases[top] = ("mod", None) if top == "mir_eval" else ("ext", self._extname(top))
                elif isinstance(n, ast.ImportFrom):
                    for al in n.names:
                        local = al.asname or al.name
                        if n.level > 0 or (n.module or "").startswith("mir_eval"):
                            sub = (n.module or "").replace("mir_eval", "").strip(".")
                            if sub == "" and al.name in MODULES:
                                mi.aliases[local] = ("mod", al.name)
                            elif sub in MODULES:
                                mi.aliases[local] = ("fun", sub + "." + al.name)
                            else:
                                mi.aliases[local] = ("ext", "mir_eval." + (sub + "." if sub else "") + al.name)
                        else:
                            mi.aliases[local] = ("ext", self._extname((n.module or "") + "." + al.name))
                elif isinstance(n, (ast.Assign, ast.AnnAssign)):
                    tg = n.targets if isinstance(n, ast.Assign) else [n.target]
                    for t in tg:
                        for x in ast.walk(t):
                            if isinstance(x, ast.Name):
                                mi.consts[x.id] = "obj"
        # kinds of module-level variables are read off the live objects (fail closed: "obj")
        for m, mi in self.mods.items():
            try:
                live = __import__("mir_eval." + m, fromlist=["x"])
                f = os.path.realpath(live.__file__)
                if not f.startswith(os.path.realpath(self.repo) + os.sep):
                    continue
                for k in list(mi.consts):
                    if hasattr(live, k):
                        mi.consts[k] = const_kind(getattr(live, k))
            except Exception:  # noqa: BLE001
                pass
        # nested functions
        for f in list(self.funs.values()):
            self._collect_nested(f)
        for f in self.funs.values():
            f.finish_params()

    @staticmethod
    def _extname(dotted):
        d = dotted
        if d == "numpy" or d.startswith("numpy."):
            d = "np" + d[len("numpy"):]
        return d

    def _collect_nested(self, f):
        f.locals = assigned_names(f.node) | set(f.pos) | set(f.kwonly) | \
            ({f.vararg} if f.vararg else set()) | ({f.kwarg} if f.kwarg else set())
        for n in ast.walk(f.node):
            if n is f.node:
                continue
            if isinstance(n, ast.FunctionDef) and self._direct_parent(f.node, n):
                g = Fun(f.module, f.qual + "." + n.name, n, parent=f)
                f.nested[n.name] = g
                self.funs[g.qual] = g
                self._collect_nested(g)
                scope = set()
                p = f
                while p is not None:
                    scope |= p.locals
                    p = p.parent
                own = g.locals
                g.captured = sorted(x for x in free_names(n) if x in scope and x not in own
                                    and x not in f.nested and x != n.name)
                # captured variables of deeper closures propagate
                for h in g.nested.values():
                    for c in h.captured:
                        if c not in own and c not in g.captured and c in scope:
                            g.captured.append(c)

    @staticmethod
    def _direct_parent(parent, child):
        """child is a FunctionDef directly inside parent (no other FunctionDef in between)."""
        def find(n):
            for c in ast.iter_child_nodes(n):
                if c is child:
                    return True
                if isinstance(c, (ast.FunctionDef, ast.Lambda, ast.ClassDef)):
                    continue
                if find(c):
                    return True
            return False
        return find(parent)

    # ---- per function ---------------------------------------------------------------------------
    def translate_all(self):
        for q, f in self.funs.items():
            try:
                FT(self, f).run()
            except Unsupported as e:
                self.problems.append({"name": "effects:" + q, "detail": str(e)})
                f.body = ("unknown",)       # analysed as a call to an unknown function: the analysis fails
                f.failed = True
        return self.order()

    def order(self):
        """callees before callers; self-recursion allowed, other cycles are a problem"""
        out, state = [], {}

        def visit(q, stack):
            if state.get(q) == 2:
                return
            if state.get(q) == 1:
                self.problems.append({"name": "effects:" + q, "detail": "mutual recursion: " + " -> ".join(stack + [q])})
                return
            state[q] = 1
            for c in self.funs[q].callees:
                if c != q and c in self.funs:
                    visit(c, stack + [q])
            state[q] = 2
            out.append(q)

        for q in sorted(self.funs):
            visit(q, [])
        return out

    def gvar(self, mod, name):
        key = mod + "." + name
        if key not in self.globals:
            self.globals[key] = len(self.globals)
        return "G:" + key


FRESH = ("fresh", [], [])


def cont(v):
    """model variable holding the contents region of the object bound to model variable v"""
    if v.startswith("G:") or v.startswith("$r") or v.startswith("$a") or v.endswith("'"):
        return v
    return v + "'"


def srcs_of(V):
    out = []
    for x in V[1] + V[2]:
        if x not in out:
            out.append(x)
    return out


def mk(S, C):
    S2, C2 = [], []
    for x in S:
        if x not in S2:
            S2.append(x)
    for x in C:
        if x not in C2:
            C2.append(x)
    return ("alias" if S2 else "fresh", S2, C2)


def union(vs):
    S, C = [], []
    for v in vs:
        if v[0] == "alias":
            S += v[1]
        C += v[2]
    return mk(S, C)


DOC_SCALAR = ("str", "int", "float", "bool", "number", "string", "scalar", "callable", "function",
              "type(labels[0])")


class FT:
    """translation of one function.

    Values are described by (kind, S, C): the object itself is new ("fresh") or may be one of the objects
    bound to the model variables S ("alias"); C are model variables whose regions the *contents* (items
    reachable from the object) may belong to.  Every Python variable x has two model variables: `x` for
    the object and `x'` for its contents region."""

    def __init__(self, tr, f):
        self.tr = tr
        self.f = f
        self.mi = tr.mods[f.module]
        self.ntemp = 0
        self.scopes = [{}]            # comprehension scopes: name -> unique local
        self.islist = set()           # lists of immutable items (label lists)
        self.scalar = set()           # immutable scalars
        self.arrays = set()           # ndarrays (stores copy data; subscripts are views)
        self.containers = set()       # python lists / dicts / sets
        self.empties = set()          # locals bound to np.empty buffers
        self.doc = parse_doc_types(f.node)

    # -- helpers ----------------------------------------------------------------------------------
    def tmp(self, prefix="$t"):
        self.ntemp += 1
        return "%s%d" % (prefix, self.ntemp)

    def unsupported(self, node, what):
        raise Unsupported("%s line %d: %s: %s" % (self.f.qual, getattr(node, "lineno", 0), what,
                                                   ast.unparse(node)[:80].replace("\n", " ")))

    def local(self, name):
        for sc in reversed(self.scopes):
            if name in sc:
                return sc[name]
        return name

    def is_local(self, name):
        for sc in self.scopes:
            if name in sc:
                return True
        return name in self.f.locals

    def captured(self, name):
        return name in self.f.captured

    def in_scope(self, name):
        return self.is_local(name) or self.captured(name)

    def is_flatdict_global(self, e):
        return isinstance(e, ast.Name) and not self.in_scope(e.id) and self.mi.consts.get(e.id) == "flatdict"

    def run(self):
        f = self.f
        out = []
        self.infer_kinds()
        for d in f.node.args.defaults + [d for d in f.node.args.kw_defaults if d is not None]:
            if not self.immutable_default(d):
                self.unsupported(d, "mutable or computed default argument (persistent state)")
        for p in f.pos + f.kwonly:
            if p not in self.scalar:
                out.append(("assign", cont(p), ("alias", [p])))
        for p in (f.vararg, f.kwarg):
            if p:
                # the tuple / dict itself is new; its items are the caller's objects
                out.append(("assign", cont(p), ("alias", [p])))
                out.append(("assign", p, ("fresh", [])))
        for c in f.captured:
            out.append(("assign", c, ("alias", ["^" + c])))
            out.append(("assign", cont(c), ("alias", ["^" + c + "'"])))
        out.append(self.block(f.node.body))
        f.body = S_seq(out)

    def immutable_default(self, d):
        if isinstance(d, (ast.Constant, ast.Name, ast.Attribute)):
            return True
        if isinstance(d, ast.UnaryOp):
            return self.immutable_default(d.operand)
        if isinstance(d, ast.BinOp):
            return self.immutable_default(d.left) and self.immutable_default(d.right)
        if isinstance(d, ast.Tuple):
            return all(self.immutable_default(e) for e in d.elts)
        return False

    # -- flow-insensitive kind inference (a kind is used only when every binding of the name agrees) ----
    def infer_kinds(self):
        binds = {}

        def note(name, kind):
            binds.setdefault(name, set()).add(kind)

        def kind_of(e):
            if isinstance(e, ast.Constant) and isinstance(e.value, (int, float, str, bool, complex, type(None))):
                return "scalar"
            if isinstance(e, ast.JoinedStr):
                return "scalar"
            if isinstance(e, ast.Call):
                d = self.dotted(e.func)
                r = self.resolve_callable(e.func)
                if r == ("builtin", d) and d in ("len", "int", "float", "bool", "str"):
                    return "scalar"
                if r == ("builtin", d) and d in ("list", "sorted") and len(e.args) == 1 and not e.keywords:
                    k0 = kind_of(e.args[0])
                    if k0 == "list":
                        return "list"
                    if k0.startswith("name:"):
                        return "lc:" + k0[5:]      # a (shallow) copy of a named list: a label list if that one is
                    if k0.startswith("lc:"):
                        return k0
                if r == ("builtin", d) and d in ("list", "dict", "set", "sorted"):
                    return "container"
                if r is not None and r[0] == "ext":
                    if r[1] in ("collections.OrderedDict", "collections.defaultdict"):
                        return "container"
                    if r[1].startswith("np.") and r[1] in ALLOC or r[1] in ("np.empty", "np.empty_like"):
                        return "array"
                if isinstance(e.func, ast.Attribute):
                    if e.func.attr == "get" and self.is_flatdict_global(e.func.value):
                        return "scalar"
                    if e.func.attr in ("split", "keys"):
                        return "list"
                    if e.func.attr in ("astype", "flatten"):
                        return "array"
                return "other"
            if isinstance(e, ast.BinOp):
                l, r = kind_of(e.left), kind_of(e.right)
                if l == "scalar" and r == "scalar":
                    return "scalar"
                if isinstance(e.op, ast.Mod) and isinstance(e.left, ast.Constant) and isinstance(e.left.value, str):
                    return "scalar"
                return "other"
            if isinstance(e, ast.UnaryOp):
                return kind_of(e.operand)
            if isinstance(e, ast.Name):
                return "name:" + e.id
            if isinstance(e, ast.Subscript):
                if self.is_flatdict_global(e.value):
                    return "scalar"
                if isinstance(e.slice, ast.Slice) and kind_of(e.value) in ("list",):
                    return "list"
                if isinstance(e.slice, ast.Slice) and isinstance(e.value, ast.Name):
                    return "sl:" + e.value.id       # a slice of a named object: a label list if that one is
                return "other"
            if isinstance(e, (ast.List, ast.ListComp)):
                if isinstance(e, ast.List) and all(kind_of(x) == "scalar" for x in e.elts) and e.elts:
                    return "list"
                return "container"
            if isinstance(e, (ast.Dict, ast.Set, ast.DictComp, ast.SetComp)):
                return "container"
            return "other"

        for n in ast.walk(self.f.node):
            if isinstance(n, ast.Assign):
                v = n.value
                for t in n.targets:
                    if isinstance(t, ast.Name):
                        note(t.id, kind_of(v))
                    elif isinstance(t, (ast.Tuple, ast.List)):
                        if isinstance(v, (ast.Tuple, ast.List)) and len(v.elts) == len(t.elts):
                            for a, b in zip(t.elts, v.elts):
                                if isinstance(a, ast.Name):
                                    note(a.id, kind_of(b))
                                else:
                                    for x in ast.walk(a):
                                        if isinstance(x, ast.Name) and isinstance(x.ctx, ast.Store):
                                            note(x.id, "other")
                        else:
                            for x in ast.walk(t):
                                if isinstance(x, ast.Name) and isinstance(x.ctx, ast.Store):
                                    note(x.id, "other")
            elif isinstance(n, ast.AugAssign) and isinstance(n.target, ast.Name):
                note(n.target.id, "aug")
            elif isinstance(n, ast.AnnAssign) and isinstance(n.target, ast.Name):
                note(n.target.id, "other")
            elif isinstance(n, ast.NamedExpr):
                note(n.target.id, "other")
            elif isinstance(n, (ast.For, ast.comprehension)):
                it = n.iter
                rng = isinstance(it, ast.Call) and self.resolve_callable(it.func) == ("builtin", "range")
                enum = isinstance(it, ast.Call) and self.resolve_callable(it.func) == ("builtin", "enumerate")
                if isinstance(n.target, ast.Name):
                    note(n.target.id, "scalar" if rng else "other")
                elif isinstance(n.target, ast.Tuple):
                    for i, t in enumerate(n.target.elts):
                        for x in ast.walk(t):
                            if isinstance(x, ast.Name):
                                note(x.id, "scalar" if (enum and i == 0 and isinstance(t, ast.Name)) else "other")
            elif isinstance(n, ast.ExceptHandler) and n.name:
                note(n.name, "other")
            elif isinstance(n, (ast.With,)):
                for it in n.items:
                    if it.optional_vars is not None:
                        for x in ast.walk(it.optional_vars):
                            if isinstance(x, ast.Name):
                                note(x.id, "other")
        for a in self.f.pos + self.f.kwonly:
            k = self.doc_kind(a)
            note(a, k)
        for a in (self.f.vararg, self.f.kwarg):
            if a:
                note(a, "container")
        for c in self.f.captured:
            note(c, "other")
        resolved = {}
        changed = True
        while changed:
            changed = False
            for name, kinds in binds.items():
                if name in resolved:
                    continue
                ks, ok = set(), True
                for k in kinds:
                    if k == "aug":
                        continue
                    if k.startswith("name:"):
                        other = k[5:]
                        if other == name:
                            continue
                        if other in resolved:
                            ks.add(resolved[other])
                        elif other in binds:
                            ok = False
                        else:
                            ks.add("other")
                    elif k.startswith("lc:") or k.startswith("sl:"):
                        other = k[3:]
                        if other == name:
                            continue                 # x = list(x) / x = x[a:b] keeps x's kind
                        if other in resolved:
                            ks.add("list" if resolved[other] == "list" else
                                   ("container" if k.startswith("lc:") else "other"))
                        elif other in binds:
                            ok = False
                        else:
                            ks.add("other")
                    else:
                        ks.add(k)
                if ok:
                    resolved[name] = next(iter(ks)) if len(ks) == 1 else "other"
                    changed = True
        self.scalar = {n for n, k in resolved.items() if k == "scalar"}
        self.islist = {n for n, k in resolved.items() if k == "list"}
        self.arrays = {n for n, k in resolved.items() if k == "array"}
        self.containers = {n for n, k in resolved.items() if k == "container"}
        # parameters that are assigned again somewhere in the body (their documented shape is then unknown)
        self.rebound = {n for n, ks in binds.items() if n in self.f.pos and len(ks - {"aug"}) > 1}

    def doc_kind(self, param):
        t = self.doc.get(param)
        if _is_label_list_name(param) and (t is None or t.startswith("list")):
            return "list"
        if t is None:
            return "other"
        alts = [a.strip() for a in t.replace(" or ", "|").split("|")]
        first = [a.split(",")[0].split(" ")[0].strip() for a in alts]
        if all(a in DOC_SCALAR or a == "None" for a in first):
            return "scalar"
        if t.startswith("list of str") or t.startswith("list of strings"):
            return "list"
        if first[0] in ("np.ndarray", "ndarray") and all(a in ("np.ndarray", "ndarray", "None") for a in first):
            return "array"
        if first[0] in ("list", "dict", "dictionary", "set") and all(
                a in ("list", "dict", "dictionary", "set", "None") for a in first):
            return "container"
        return "other"

    def ndim_of(self, e):
        """number of dimensions of an ndarray-valued expression when the docstring gives the shape"""
        if isinstance(e, ast.Name) and e.id in self.f.pos and self.in_scope(e.id) and \
                self.local(e.id) in self.arrays and e.id not in self.rebound:
            t = self.doc.get(e.id, "")
            if "shape=(" in t:
                inside = t.split("shape=(", 1)[1].split(")", 1)[0]
                dims = [d for d in inside.split(",") if d.strip()]
                return len(dims)
            return None
        if isinstance(e, ast.Subscript):
            nd = self.ndim_of(e.value)
            if nd is None:
                return None
            idx = e.slice.elts if isinstance(e.slice, ast.Tuple) else [e.slice]
            drop = 0
            for i in idx:
                if isinstance(i, ast.Slice):
                    continue
                if isinstance(i, ast.Constant) and isinstance(i.value, int) or \
                        isinstance(i, ast.UnaryOp) and isinstance(i.operand, ast.Constant):
                    drop += 1
                    continue
                return None
            return nd - drop if nd - drop >= 1 else None
        return None

    def list_like(self, e):
        return isinstance(e, ast.Name) and self.local(e.id) in self.islist

    def kind_of_var(self, e):
        if isinstance(e, ast.Name) and self.in_scope(e.id):
            v = self.local(e.id)
            if v in self.arrays:
                return "array"
            if v in self.containers:
                return "container"
            if v in self.islist:
                return "list"
        return None

    def dotted(self, n):
        if isinstance(n, ast.Name):
            return n.id
        if isinstance(n, ast.Attribute):
            d = self.dotted(n.value)
            return d + "." + n.attr if d else None
        return None

    def resolve_callable(self, func):
        """-> ("fun", qual) | ("ext", dotted) | ("builtin", name) | ("class", name) | ("local", var) | None"""
        if isinstance(func, ast.Name):
            name = func.id
            if self.in_scope(name):
                p = self.f
                while p is not None:
                    if name in p.nested:
                        return ("fun", p.nested[name].qual)
                    p = p.parent
                return ("local", self.local(name))
            p = self.f.parent
            while p is not None:
                if name in p.nested:
                    return ("fun", p.nested[name].qual)
                p = p.parent
            if name in self.mi.funs:
                return ("fun", self.mi.funs[name].qual)
            if name in self.mi.classes:
                return ("class", name)
            if name in self.mi.aliases:
                k, v = self.mi.aliases[name]
                if k == "fun":
                    return ("fun", v)
                if k == "ext":
                    return ("ext", v)
                return None
            if hasattr(builtins, name):
                return ("builtin", name)
            return None
        if isinstance(func, ast.Attribute):
            d = self.dotted(func)
            if d:
                parts = d.split(".")
                head = parts[0]
                if not self.in_scope(head) and head in self.mi.aliases:
                    k, v = self.mi.aliases[head]
                    rest = parts[1:]
                    if k == "mod":
                        if v is None:          # import mir_eval ; mir_eval.util.f
                            if len(rest) == 2 and rest[0] in MODULES:
                                return ("fun", rest[0] + "." + rest[1])
                            return None
                        if len(rest) == 1:
                            return ("fun", v + "." + rest[0])
                        return None
                    if k == "ext":
                        return ("ext", ".".join([v] + rest))
        return None

    # -- expressions ------------------------------------------------------------------------------
    def ex(self, n, out):
        if n is None:
            return FRESH
        if isinstance(n, ast.Constant):
            return FRESH
        if isinstance(n, ast.JoinedStr):
            for v in n.values:
                if isinstance(v, ast.FormattedValue):
                    self.ex(v.value, out)
            return FRESH
        if isinstance(n, ast.Name):
            return self.ex_name(n, out)
        if isinstance(n, ast.Attribute):
            return self.ex_attr(n, out)
        if isinstance(n, ast.Subscript):
            V = self.ex(n.value, out)
            self.ex_index(n.slice, out)
            return self.element(n.value, V, isinstance(n.slice, ast.Slice))
        if isinstance(n, ast.BinOp):
            self.ex(n.left, out)
            self.ex(n.right, out)
            return FRESH
        if isinstance(n, ast.UnaryOp):
            self.ex(n.operand, out)
            return FRESH
        if isinstance(n, ast.Compare):
            self.ex(n.left, out)
            for c in n.comparators:
                self.ex(c, out)
            return FRESH
        if isinstance(n, ast.BoolOp):
            return union([self.ex(v, out) for v in n.values])
        if isinstance(n, ast.IfExp):
            self.ex(n.test, out)
            return union([self.ex(n.body, out), self.ex(n.orelse, out)])
        if isinstance(n, (ast.Tuple, ast.List, ast.Set)):
            vs = [self.ex(e, out) for e in n.elts]
            return mk([], [x for v in vs for x in srcs_of(v)])
        if isinstance(n, ast.Dict):
            for k in n.keys:
                self.ex(k, out)
            vs = [self.ex(v, out) for v in n.values]
            return mk([], [x for v in vs for x in srcs_of(v)])
        if isinstance(n, ast.Starred):
            return self.ex(n.value, out)
        if isinstance(n, ast.Slice):
            self.ex_index(n, out)
            return FRESH
        if isinstance(n, ast.Call):
            return self.ex_call(n, out)
        if isinstance(n, ast.Lambda):
            # the body runs later, when somebody calls it; its effects are charged here
            inner = []
            sc = {a.arg: self.tmp() for a in n.args.args}
            for v in sc.values():
                inner.append(("assign", v, ("fresh", [])))
            self.scopes.append(sc)
            try:
                self.ex(n.body, inner)
            finally:
                self.scopes.pop()
            out.append(("ite", S_seq(inner), S_skip()))
            return FRESH
        if isinstance(n, (ast.ListComp, ast.SetComp, ast.GeneratorExp, ast.DictComp)):
            return self.ex_comp(n, out)
        if isinstance(n, ast.NamedExpr):
            V = self.ex(n.value, out)
            self.bind(n.target, V, out)
            return V
        self.unsupported(n, "expression form %s" % type(n).__name__)

    def element(self, base, V, is_slice):
        """value of base[...] / of an item produced by iterating base, given base's value V"""
        k, S, C = V
        if self.is_flatdict_global(base):
            return FRESH
        kind = self.kind_of_var(base)
        if kind == "list":
            return FRESH                         # items immutable; a slice is a new list
        if isinstance(base, ast.Name) and self.in_scope(base.id) and self.local(base.id) in self.scalar:
            return FRESH                         # indexing a str / tuple of scalars
        if kind == "array":
            return mk(S, [])                     # view (or a scalar)
        if kind == "container":
            if is_slice:
                return mk([], C)                 # new list, same items
            return mk(C, C)
        if k != "alias":
            # temporary: an item of a new container / a view of a new array
            return mk(C, C)
        return mk(S + C, C)

    def ex_index(self, sl, out):
        if isinstance(sl, ast.Slice):
            for p in (sl.lower, sl.upper, sl.step):
                if p is not None:
                    self.ex(p, out)
        elif isinstance(sl, ast.Tuple):
            for e in sl.elts:
                self.ex_index(e, out)
        else:
            self.ex(sl, out)

    def ex_name(self, n, out):
        name = n.id
        if self.in_scope(name):
            p = self.f
            while p is not None:
                if name in p.nested:
                    return FRESH                 # a function object
                p = p.parent
            v = self.local(name)
            if v in self.scalar:
                return FRESH
            if v in self.empties:
                out.append(("assign", "$rd", ("fresh", [v])))     # a read of an np.empty buffer
            return ("alias", [v], [cont(v)])
        p = self.f.parent
        while p is not None:
            if name in p.nested:
                return FRESH
            p = p.parent
        if name in self.mi.funs or name in self.mi.classes:
            return FRESH
        if name in self.mi.consts:
            if self.mi.consts[name] == "imm":
                return FRESH
            g = self.tr.gvar(self.f.module, name)
            return ("alias", [g], [g])
        if name in self.mi.aliases:
            return FRESH
        if hasattr(builtins, name):
            return FRESH
        self.unsupported(n, "unknown name")

    def ex_attr(self, n, out):
        d = self.dotted(n)
        if d:
            head = d.split(".")[0]
            if not self.in_scope(head) and head in self.mi.aliases:
                k, v = self.mi.aliases[head]
                rest = d.split(".")[1:]
                if k == "ext":
                    return FRESH                 # np.pi, np.newaxis, np.float32, np.linalg.LinAlgError …
                if k == "mod":
                    mod, name = (rest[0], rest[1]) if v is None and len(rest) == 2 else (v, rest[0] if rest else None)
                    if mod in self.tr.mods and name is not None and len(rest) <= 2:
                        mi = self.tr.mods[mod]
                        if name in mi.funs or name in mi.classes:
                            return FRESH
                        if name in mi.consts:
                            if mi.consts[name] == "imm":
                                return FRESH
                            g = self.tr.gvar(mod, name)
                            return ("alias", [g], [g])
                    self.unsupported(n, "unknown module attribute")
        V = self.ex(n.value, out)
        if n.attr in ATTR_FRESH:
            return FRESH
        if n.attr in ATTR_VIEW:
            return V
        self.unsupported(n, "attribute %r has no classification" % n.attr)

    def self_var(self, V, out):
        """a model variable bound to the object itself (None when the object is new and unnamed)"""
        k, S, C = V
        if k != "alias" or not S:
            return None
        if len(S) == 1:
            return S[0]
        t = self.tmp()
        out.append(("assign", t, ("alias", S)))
        return t

    def arg_var(self, n, out):
        """evaluate an argument; the callee sees one object standing for it and everything reachable"""
        V = self.ex(n, out)
        t = self.tmp()
        s = srcs_of(V)
        out.append(("assign", t, ("alias", s) if s else ("fresh", [])))
        return t

    def root_name(self, e):
        while isinstance(e, (ast.Subscript, ast.Attribute)):
            e = e.value
        if isinstance(e, ast.Call) and isinstance(e.func, ast.Attribute):
            return self.root_name(e.func.value)
        if isinstance(e, ast.Name) and self.in_scope(e.id):
            return self.local(e.id)
        return None

    def absorb(self, base_expr, V, out):
        """the container reached through base_expr now holds the value V"""
        s = srcs_of(V)
        if not s:
            return
        root = self.root_name(base_expr)
        if root is None or root in self.scalar:
            return
        if isinstance(base_expr, ast.Name) and root in self.arrays:
            return                               # ndarray stores copy the data
        c = cont(root)
        out.append(("assign", c, ("alias", [c] + s)))

    def ex_comp(self, n, out):
        acc = self.tmp("$a")
        out.append(("assign", acc, ("fresh", [])))
        sc = {}
        self.scopes.append(sc)
        try:
            def gen(i, where):
                if i == len(n.generators):
                    if isinstance(n, ast.DictComp):
                        self.ex(n.key, where)
                        V = self.ex(n.value, where)
                    else:
                        V = self.ex(n.elt, where)
                    s = srcs_of(V)
                    if s:
                        where.append(("assign", acc, ("alias", [acc] + s)))
                    return
                g = n.generators[i]
                it = self.iter_kinds(g.iter, where)
                inner = []
                for x in ast.walk(g.target):
                    if isinstance(x, ast.Name):
                        self.ntemp += 1
                        sc[x.id] = "$c%d_%s" % (self.ntemp, x.id)
                self.bind_iter(g.target, it, inner)
                for c in g.ifs:
                    self.ex(c, inner)
                gen(i + 1, inner)
                where.append(("loop", S_seq(inner)))
            gen(0, out)
        finally:
            self.scopes.pop()
        return ("fresh", [], [acc])

    # -- calls ------------------------------------------------------------------------------------
    def ex_call(self, n, out):
        func = n.func
        if isinstance(func, ast.Call):           # interp1d(...)(x)
            self.ex(func, out)
            self.eval_args(n, out)
            return FRESH
        r = self.resolve_callable(func)
        if r is not None:
            kind, name = r
            if kind == "fun":
                if name == "util.filter_kwargs" and n.args:
                    inner = self.resolve_callable(n.args[0])
                    if inner is not None and inner[0] == "fun":
                        fake = ast.Call(func=n.args[0], args=n.args[1:], keywords=n.keywords)
                        ast.copy_location(fake, n)
                        return self.call_fun(inner[1], fake, out)
                    return self.call_unknown(n, out)
                if name not in self.tr.funs:
                    self.unsupported(n, "call to unknown mir_eval function %s" % name)
                return self.call_fun(name, n, out)
            if kind == "ext":
                return self.call_ext(name, n, out)
            if kind == "builtin":
                return self.call_builtin(name, n, out)
            if kind == "class":
                self.eval_args(n, out)
                return FRESH
            if kind == "local":
                return self.call_unknown(n, out)
        if isinstance(func, ast.Attribute):
            return self.call_method(n, out)
        self.unsupported(n, "call target")

    def eval_args(self, n, out):
        vs = [self.ex(a, out) for a in n.args]
        vs += [self.ex(kw.value, out) for kw in n.keywords]
        return vs

    def call_unknown(self, n, out):
        """user-supplied callable: assumed not to write its arguments; may return any of them"""
        vs = self.eval_args(n, out)
        s = [x for v in vs for x in srcs_of(v)]
        return mk(s, s)

    def out_kw(self, n, out):
        for kw in n.keywords:
            if kw.arg == "out":
                v = self.self_var(self.ex(kw.value, out), out)
                if v is not None:
                    out.append(("mutate", v))

    @staticmethod
    def copy_false(n):
        return any(kw.arg == "copy" and isinstance(kw.value, ast.Constant) and kw.value.value is False
                   for kw in n.keywords)

    def call_ext(self, name, n, out):
        if name in ("np.empty", "np.empty_like", "np.ndarray"):
            self.eval_args(n, out)
            shp = n.args[0] if n.args else None
            dims = shp.elts if isinstance(shp, (ast.Tuple, ast.List)) else [shp]
            if name == "np.empty" and any(isinstance(d, ast.Constant) and d.value == 0 for d in dims):
                return FRESH                     # a buffer with no cells holds no garbage
            return ("empty", [], [])
        arg_vs = [self.ex(a, out) for a in n.args]
        kw_vs = [self.ex(kw.value, out) for kw in n.keywords if kw.arg != "out"]
        self.out_kw(n, out)
        if name in GLOBALSTATE:
            out.append(("globalWrite", 0))
            return FRESH
        if name in INPLACE:
            if arg_vs:
                v = self.self_var(arg_vs[0], out)
                if v is not None:
                    out.append(("mutate", v))
            return FRESH
        if name in VIEW or self.copy_false(n):
            if name == "np.nan_to_num" and self.copy_false(n) and arg_vs:
                v = self.self_var(arg_vs[0], out)
                if v is not None:
                    out.append(("mutate", v))
            return union(arg_vs + kw_vs)
        if name in SHALLOW:
            return mk([], [x for v in arg_vs + kw_vs for x in srcs_of(v)])
        if name in ALLOC:
            return FRESH
        self.unsupported(n, "external call %r has no classification" % name)

    def call_builtin(self, name, n, out):
        arg_vs = [self.ex(a, out) for a in n.args]
        for kw in n.keywords:
            self.ex(kw.value, out)
        if name in BUILTIN_ALLOC:
            return FRESH
        if name in BUILTIN_SHALLOW:
            if n.args and self.list_like(n.args[0]) and len(n.args) == 1:
                return FRESH
            return mk([], [x for v in arg_vs for x in srcs_of(v)])
        if name in BUILTIN_ELEMENT:
            s = [x for v in arg_vs for x in srcs_of(v)]
            return mk(s, s)
        self.unsupported(n, "builtin %r has no classification" % name)

    def call_method(self, n, out):
        func = n.func
        meth = func.attr
        recv = func.value
        R = self.ex(recv, out)
        arg_vs = [self.ex(a, out) for a in n.args]
        kw_vs = [self.ex(kw.value, out) for kw in n.keywords if kw.arg != "out"]
        self.out_kw(n, out)
        if self.is_flatdict_global(recv) and meth in ("get", "keys", "values", "items", "copy"):
            return FRESH
        if meth in METH_INPLACE:
            rv = self.self_var(R, out)
            if rv is not None:
                out.append(("mutate", rv))
            if meth in METH_ABSORB:
                self.absorb(recv, union(arg_vs + kw_vs), out) if not isinstance(recv, ast.Name) else \
                    self.absorb_name(recv, union(arg_vs + kw_vs), out)
            if METH_INPLACE[meth]:
                s = R[2] + [x for v in arg_vs for x in srcs_of(v)]
                return mk(s, s)
            return FRESH
        if meth in METH_VIEW or (self.copy_false(n) and meth == "astype"):
            if meth == "get":
                el = self.element(recv, R, False)
                return union([el] + [mk(srcs_of(v), srcs_of(v)) for v in arg_vs[1:]])
            if meth in ("items", "values"):
                return mk([], R[2])
            return R
        if meth in METH_ALLOC:
            if meth == "copy":
                return mk([], R[2])
            return FRESH
        self.unsupported(n, "method %r has no classification" % meth)

    def absorb_name(self, recv, V, out):
        """list.append(v) & co. on a named container: items are stored by reference"""
        s = srcs_of(V)
        if not s:
            return
        v = self.local(recv.id) if self.in_scope(recv.id) else None
        if v is None:
            return
        c = cont(v)
        out.append(("assign", c, ("alias", [c] + s)))

    def call_fun(self, qual, n, out):
        g = self.tr.funs[qual]
        if qual not in self.f.callees:
            self.f.callees.append(qual)
        bound = {}
        extra_pos, extra_kw, star, dstar = [], [], [], []
        i = 0
        for a in n.args:
            if isinstance(a, ast.Starred):
                star.append(self.arg_var(a.value, out))
                continue
            v = self.arg_var(a, out)
            if star:
                extra_pos.append(v)
            elif i < len(g.pos):
                bound.setdefault(g.pos[i], []).append(v)
                i += 1
            else:
                extra_pos.append(v)
        for kw in n.keywords:
            v = self.arg_var(kw.value, out)
            if kw.arg is None:
                dstar.append(v)
            elif kw.arg in g.pos or kw.arg in g.kwonly:
                bound.setdefault(kw.arg, []).append(v)
            elif g.kwarg:
                extra_kw.append(v)
            else:
                self.unsupported(n, "keyword %r is not a parameter of %s" % (kw.arg, qual))
        if extra_pos and not g.vararg and not star:
            self.unsupported(n, "too many positional arguments for %s" % qual)
        args = []
        for p in g.params:
            if p.startswith("^"):
                name = p[1:]
                is_cont = name.endswith("'")
                if is_cont:
                    name = name[:-1]
                if not self.in_scope(name):
                    self.unsupported(n, "captured variable %r not in scope" % name)
                v = self.local(name)
                if v in self.scalar:
                    t = self.tmp()
                    out.append(("assign", t, ("fresh", [])))
                    args.append(t)
                else:
                    args.append(cont(v) if is_cont else v)
                continue
            srcs = list(bound.get(p, []))
            if p == g.vararg:
                srcs += extra_pos + star
            elif p == g.kwarg:
                srcs += extra_kw + dstar
            elif not srcs:
                # unbound: the default value, or anything a *seq / **dict at the call site may provide
                if p in g.pos:
                    srcs += star
                srcs += dstar
            if len(srcs) == 1:
                args.append(srcs[0])
            else:
                t = self.tmp()
                out.append(("assign", t, ("alias", srcs) if srcs else ("fresh", [])))
                args.append(t)
        r = self.tmp("$r")
        out.append(("call", r, qual, args))
        return ("alias", [r], [r])

    # -- binding ----------------------------------------------------------------------------------
    def bind(self, target, V, out):
        k, S, C = V
        if isinstance(target, ast.Name):
            if not self.is_local(target.id):
                out.append(("globalWrite", 0))   # assignment to a name declared `global`
                return
            v = self.local(target.id)
            if k == "empty":
                out.append(("allocEmpty", v))
                out.append(("assign", cont(v), ("fresh", [])))
                self.empties.add(v)
                return
            self.empties.discard(v)
            if v in self.scalar:
                out.append(("assign", v, ("fresh", [])))
                return
            out.append(("assign", v, ("alias", S) if k == "alias" and S else ("fresh", [])))
            out.append(("assign", cont(v), ("alias", C) if C else ("fresh", [])))
            return
        if k == "empty":
            V = FRESH
        if isinstance(target, (ast.Tuple, ast.List)):
            el = self.element_of_value(V)
            for e in target.elts:
                self.bind(e, el, out)
            return
        if isinstance(target, ast.Starred):
            self.bind(target.value, mk([], srcs_of(V)), out)
            return
        if isinstance(target, ast.Subscript):
            base = target.value
            self.ex_index(target.slice, out)
            if isinstance(base, ast.Name) and self.in_scope(base.id) and self.local(base.id) in self.empties:
                B = ("alias", [self.local(base.id)], [])          # a store into the buffer is not a read
            else:
                B = self.ex(base, out)
            bv = self.self_var(B, out)
            if bv is not None:
                out.append(("mutate", bv))
            if isinstance(base, ast.Name) and self.in_scope(base.id) and self.local(base.id) in self.empties:
                out.append(self.fill_stmt(self.local(base.id), target.slice))
            self.absorb(base, V, out)
            return
        if isinstance(target, ast.Attribute):
            bv = self.self_var(self.ex(target.value, out), out)
            if bv is not None:
                out.append(("mutate", bv))
            self.absorb(target.value, V, out)
            return
        self.unsupported(target, "assignment target")

    @staticmethod
    def element_of_value(V):
        """item obtained by unpacking / iterating a value of unknown type"""
        k, S, C = V
        if k == "alias":
            return mk(S + C, C)
        return mk(C, C)

    def fill_stmt(self, v, sl):
        def whole(x):
            return isinstance(x, ast.Slice) and x.lower is None and x.upper is None and x.step is None
        if whole(sl) or isinstance(sl, ast.Constant) and sl.value is Ellipsis:
            return ("fillAll", v)
        if isinstance(sl, ast.Tuple) and all(whole(e) for e in sl.elts):
            return ("fillAll", v)
        return ("fillSome", v)

    def iter_kinds(self, it, out):
        """value of each item produced by iterating `it`; a list of values for zip/enumerate/items"""
        if isinstance(it, ast.Call):
            r = self.resolve_callable(it.func)
            if r == ("builtin", "range"):
                self.eval_args(it, out)
                return FRESH
            if r == ("builtin", "enumerate") and it.args:
                return [FRESH, self.iter_kinds(it.args[0], out)]
            if r == ("builtin", "zip"):
                return [self.iter_kinds(a, out) for a in it.args]
            if isinstance(it.func, ast.Attribute) and it.func.attr == "items" and not it.args:
                R = self.ex(it.func.value, out)
                if self.is_flatdict_global(it.func.value):
                    return [FRESH, FRESH]
                return [FRESH, self.element(it.func.value, R, False)]
            if isinstance(it.func, ast.Attribute) and it.func.attr == "keys" and not it.args:
                self.ex(it.func.value, out)
                return FRESH
        V = self.ex(it, out)
        if self.ndim_of(it) == 1:
            return FRESH                         # items of a 1-d array are immutable numpy scalars
        if isinstance(it, (ast.Name, ast.Subscript, ast.Attribute)):
            return self.element(it, V, False)
        return self.element_of_value(V)

    def bind_iter(self, target, kinds, out):
        if isinstance(kinds, list):
            if isinstance(target, (ast.Tuple, ast.List)) and len(target.elts) == len(kinds):
                for t, k in zip(target.elts, kinds):
                    self.bind_iter(t, k, out)
                return
            flat = []

            def fl(k):
                if isinstance(k, list):
                    for x in k:
                        fl(x)
                else:
                    flat.append(k)
            fl(kinds)
            u = union(flat)
            kinds = mk([], srcs_of(u))           # a tuple of the items
        if isinstance(target, ast.Name):
            self.bind(target, kinds, out)
        elif isinstance(target, (ast.Tuple, ast.List)):
            el = self.element_of_value(kinds)
            for e in target.elts:
                self.bind_iter(e, el, out)
        else:
            self.bind(target, kinds, out)

    def none_tests(self, test):
        """(names known to be None when `test` is true, names known to be None when it is false)"""
        def simple(t):
            if isinstance(t, ast.Compare) and len(t.ops) == 1 and isinstance(t.left, ast.Name) and \
                    isinstance(t.comparators[0], ast.Constant) and t.comparators[0].value is None and \
                    self.is_local(t.left.id):
                if isinstance(t.ops[0], ast.Is):
                    return t.left.id, True
                if isinstance(t.ops[0], ast.IsNot):
                    return t.left.id, False
            return None
        r = simple(test)
        if r is not None:
            return ([r[0]], []) if r[1] else ([], [r[0]])
        if isinstance(test, ast.BoolOp) and isinstance(test.op, ast.And):
            # all conjuncts hold on the true branch
            return [x[0] for x in map(simple, test.values) if x is not None and x[1]], []
        if isinstance(test, ast.BoolOp) and isinstance(test.op, ast.Or):
            # all disjuncts fail on the false branch
            return [], [x[0] for x in map(simple, test.values) if x is not None and not x[1]]
        return [], []

    def none_bind(self, names):
        out = []
        for nm in names:
            v = self.local(nm)
            if v in self.scalar or v in self.empties:
                continue
            out.append(("assign", v, ("fresh", [])))
            out.append(("assign", cont(v), ("fresh", [])))
        return out

    # -- statements -------------------------------------------------------------------------------
    def block(self, stmts):
        out = []
        for s in stmts:
            self.stmt(s, out)
        return S_seq(out)

    def stmt(self, n, out):
        if isinstance(n, ast.Expr):
            if isinstance(n.value, ast.Constant):
                return                           # docstring
            self.ex(n.value, out)
            return
        if isinstance(n, ast.Assign):
            if len(n.targets) == 1 and isinstance(n.targets[0], (ast.Tuple, ast.List)) and \
                    isinstance(n.value, (ast.Tuple, ast.List)) and len(n.value.elts) == len(n.targets[0].elts) and \
                    not any(isinstance(e, ast.Starred) for e in n.value.elts + n.targets[0].elts):
                vals = [self.ex(e, out) for e in n.value.elts]
                held = []
                for V in vals:
                    if V[0] == "empty":
                        held.append(V)
                        continue
                    t = self.tmp()
                    out.append(("assign", t, ("alias", V[1]) if V[0] == "alias" and V[1] else ("fresh", [])))
                    out.append(("assign", cont(t), ("alias", V[2]) if V[2] else ("fresh", [])))
                    held.append(mk([t] if V[0] == "alias" and V[1] else [], [cont(t)] if V[2] else []))
                for V, tg in zip(held, n.targets[0].elts):
                    self.bind(tg, V, out)
                return
            V = self.ex(n.value, out)
            for tg in n.targets:
                self.bind(tg, V, out)
            return
        if isinstance(n, ast.AnnAssign):
            if n.value is not None:
                self.bind(n.target, self.ex(n.value, out), out)
            return
        if isinstance(n, ast.AugAssign):
            V = self.ex(n.value, out)
            t = n.target
            if isinstance(t, ast.Name):
                if not self.is_local(t.id):
                    out.append(("globalWrite", 0))
                    return
                v = self.local(t.id)
                if v in self.scalar:
                    out.append(("assign", v, ("fresh", [])))
                    return
                s = srcs_of(V)
                c = cont(v)
                grow = [("assign", c, ("alias", [c] + s))] if s and v not in self.arrays else []
                if v in self.arrays or v in self.containers:
                    out.append(S_seq([("mutate", v)] + grow))     # always in place
                else:
                    # ndarray / list / set: in place;  number / str / tuple: rebinding to a new object
                    out.append(("ite", S_seq([("mutate", v)] + grow),
                                S_seq([("assign", v, ("fresh", []))] + grow)))
                return
            if isinstance(t, ast.Subscript):
                self.ex_index(t.slice, out)
                bv = self.self_var(self.ex(t.value, out), out)
                if bv is not None:
                    out.append(("mutate", bv))
                self.absorb(t.value, V, out)
                return
            if isinstance(t, ast.Attribute):
                bv = self.self_var(self.ex(t.value, out), out)
                if bv is not None:
                    out.append(("mutate", bv))
                return
            self.unsupported(n, "augmented assignment target")
        if isinstance(n, ast.Return):
            if n.value is None:
                out.append(("ret", []))
                return
            V = self.ex(n.value, out)
            out.append(("ret", srcs_of(V)))
            return
        if isinstance(n, ast.Raise):
            if n.exc is not None:
                self.ex(n.exc, out)
            if n.cause is not None:
                self.ex(n.cause, out)
            out.append(("raise",))
            return
        if isinstance(n, ast.Assert):
            self.ex(n.test, out)
            if n.msg is not None:
                self.ex(n.msg, out)
            out.append(("ite", S_skip(), ("raise",)))
            return
        if isinstance(n, ast.If):
            self.ex(n.test, out)
            # path condition of an `is None` test: on the branch where X is None, X is bound to the immutable
            # singleton None, i.e. to no caller-owned mutable object
            then_none, else_none = self.none_tests(n.test)
            out.append(("ite", S_seq(self.none_bind(then_none) + [self.block(n.body)]),
                        S_seq(self.none_bind(else_none) + [self.block(n.orelse)])))
            return
        if isinstance(n, ast.For):
            kinds = self.iter_kinds(n.iter, out)
            inner = []
            self.bind_iter(n.target, kinds, inner)
            inner.append(self.block(n.body))
            out.append(("loop", S_seq(inner)))
            if n.orelse:
                out.append(self.block(n.orelse))
            return
        if isinstance(n, ast.While):
            inner = []
            self.ex(n.test, inner)
            inner.append(self.block(n.body))
            out.append(("loop", S_seq(inner)))
            self.ex(n.test, out)
            if n.orelse:
                out.append(self.block(n.orelse))
            return
        if isinstance(n, (ast.Break, ast.Continue)):
            out.append(("brk",))
            return
        if isinstance(n, ast.Pass):
            return
        if isinstance(n, ast.Delete):
            for t in n.targets:
                if isinstance(t, (ast.Subscript, ast.Attribute)):
                    if isinstance(t, ast.Subscript):
                        self.ex_index(t.slice, out)
                    bv = self.self_var(self.ex(t.value, out), out)
                    if bv is not None:
                        out.append(("mutate", bv))
                elif isinstance(t, ast.Name):
                    pass
                else:
                    self.unsupported(n, "del target")
            return
        if isinstance(n, ast.Try):
            # any prefix of the body may have run when a handler starts
            def prefix(stmts):
                if not stmts:
                    return S_skip()
                o = []
                self.stmt(stmts[0], o)
                o.append(prefix(stmts[1:]))
                return ("ite", S_seq(o), S_skip())
            out.append(prefix(n.body))
            for h in n.handlers:
                if h.type is not None:
                    self.ex(h.type, out)
                out.append(("ite", self.block(h.body), S_skip()))
            if n.orelse:
                out.append(("ite", self.block(n.orelse), S_skip()))
            if n.finalbody:
                out.append(self.block(n.finalbody))
            return
        if isinstance(n, ast.FunctionDef):
            return                               # lifted; calls are resolved by name
        if isinstance(n, (ast.Import, ast.ImportFrom)):
            return
        if isinstance(n, ast.Global):
            for name in n.names:
                self.f.locals.discard(name)
            return
        self.unsupported(n, "statement form %s" % type(n).__name__)


def parse_doc_types(node):
    """{parameter: type text} from the numpydoc `Parameters` section of a function's docstring"""
    doc = ast.get_docstring(node) or ""
    out = {}
    lines = doc.split("\n")
    i = 0
    while i < len(lines) and lines[i].strip() != "Parameters":
        i += 1
    if i >= len(lines):
        return out
    i += 2
    while i < len(lines):
        ln = lines[i]
        if ln.strip() in ("Returns", "Raises", "Examples", "Notes", "References", "See Also", "Yields"):
            break
        if ln and not ln.startswith(" ") and " : " in ln:
            names, typ = ln.split(" : ", 1)
            for nm in names.split(","):
                out[nm.strip().lstrip("*")] = typ.strip()
        i += 1
    return out


# ---------------------------------------------------------------------------------------------------
# emission

def number(tr, order):
    """model variable ids: globals first (shared by all functions), then per-function locals"""
    gids = dict(tr.globals)
    # locals start at a fixed base so that a new module-level object does not renumber every function
    nglob = 16 * ((len(gids) + 15) // 16) if gids else 0
    nglob = max(nglob, 16)
    per_fun = {}

    def make(f):
        ids = {}

        def vid(name):
            if name.startswith("G:"):
                return gids[name[2:]]
            if name not in ids:
                ids[name] = nglob + len(ids)
            return ids[name]
        for p in f.params:
            vid(p)
        return ids, vid
    for q in order:
        per_fun[q] = make(tr.funs[q])
    return gids, per_fun


def emit_stmt(s, vid, fid, ind):
    """Lean term for a statement (no outer parentheses; callers add them where Lean needs them)"""
    pad = "  " * ind
    k = s[0]

    def vs(xs):
        seen = []
        for x in xs:
            i = vid(x)
            if i not in seen:
                seen.append(i)
        return "[" + ", ".join(str(i) for i in seen) + "]"

    def arg(x):
        return "\n" + pad + "  (" + emit_stmt(x, vid, fid, ind + 1).lstrip() + ")"
    if k == "skip":
        return pad + ".skip"
    if k == "block":
        return pad + ".block [\n" + ",\n".join(emit_stmt(x, vid, fid, ind + 1) for x in s[1]) + "]"
    if k == "assign":
        e = s[2]
        kind = "alias" if e[0] == "alias" and e[1] else "fresh"
        return pad + ".assign %d (.%s %s)" % (vid(s[1]), kind, vs(e[1]))
    if k in ("mutate", "allocEmpty", "fillAll", "fillSome"):
        return pad + ".%s %d" % (k, vid(s[1]))
    if k == "call":
        return pad + ".call (some %d) %d %s" % (vid(s[1]), fid[s[2]],
                                                "[" + ", ".join(str(vid(a)) for a in s[3]) + "]")
    if k == "ite":
        return pad + ".ite" + arg(s[1]) + arg(s[2])
    if k == "loop":
        return pad + ".loop" + arg(s[1])
    if k == "globalWrite":
        return pad + ".globalWrite %d" % s[1]
    if k == "ret":
        return pad + ".ret %s" % vs(s[1])
    if k == "raise":
        return pad + ".raise"
    if k == "unknown":
        return pad + ".call none 1000000 []"
    if k == "brk":
        return pad + ".brk"
    raise AssertionError(k)


# ---------------------------------------------------------------------------------------------------
# the same abstract interpretation as `Mir.Effects.analyze`, run here to *propose* the summary table.
# Nothing is trusted about it: Lean re-checks `validTable prog table` (a wrong table breaks the build).

def _join(a, b):
    out = dict(a)
    for k, v in b.items():
        out[k] = out.get(k, frozenset()) | v
    return out


def _leq(a, b):
    return all(v <= b.get(k, frozenset()) for k, v in a.items())


def _eff(wr=frozenset(), ret=frozenset(), gw=False, fail=False, brk=None):
    return {"wr": frozenset(wr), "ret": frozenset(ret), "gw": gw, "fail": fail, "brk": brk or {}}


def _eunion(a, b):
    return {"wr": a["wr"] | b["wr"], "ret": a["ret"] | b["ret"], "gw": a["gw"] or b["gw"],
            "fail": a["fail"] or b["fail"], "brk": _join(a["brk"], b["brk"])}


def _getall(env, vs):
    out = frozenset()
    for v in vs:
        out |= env.get(v, frozenset())
    return out


def py_analyze(T, s, env):
    k = s[0]
    if k in ("skip", "fillAll", "fillSome", "raise"):
        return env, _eff()
    if k == "unknown":
        return env, _eff(fail=True)
    if k == "block":
        eff = _eff()
        for x in s[1]:
            env, e2 = py_analyze(T, x, env)
            eff = _eunion(eff, e2)
        return env, eff
    if k == "assign":
        e = dict(env)
        e[s[1]] = _getall(env, s[2][1]) if s[2][0] == "alias" and s[2][1] else frozenset()
        return e, _eff()
    if k == "allocEmpty":
        e = dict(env)
        e[s[1]] = frozenset()
        return e, _eff()
    if k == "mutate":
        return env, _eff(wr=env.get(s[1], frozenset()))
    if k == "call":
        sm = T.get(s[2])
        if sm is None:
            return env, _eff(fail=True)
        oa = [env.get(a, frozenset()) for a in s[3]]

        def inst(os):
            out = frozenset()
            for o in os:
                if o == 0:
                    out |= {0}
                elif o - 1 < len(oa):
                    out |= oa[o - 1]
            return out
        e = dict(env)
        e[s[1]] = inst(sm["ret"])
        return e, _eff(wr=inst(sm["wr"]), gw=sm["gw"], fail=sm["fail"])
    if k == "ite":
        e1, f1 = py_analyze(T, s[1], env)
        e2, f2 = py_analyze(T, s[2], env)
        return _join(e1, e2), _eunion(f1, f2)
    if k == "loop":
        es = env
        while True:
            e1, f1 = py_analyze(T, s[1], es)
            nxt = _join(_join(es, e1), f1["brk"])
            if _leq(nxt, es):
                break
            es = nxt
        e1, f1 = py_analyze(T, s[1], es)
        return es, {"wr": f1["wr"], "ret": f1["ret"], "gw": f1["gw"], "fail": f1["fail"], "brk": {}}
    if k == "globalWrite":
        return env, _eff(gw=True)
    if k == "ret":
        return env, _eff(ret=_getall(env, s[1]))
    if k == "brk":
        return env, _eff(brk=env)
    raise AssertionError(k)


def summaries(tr, order):
    T = {}
    for q in order:
        f = tr.funs[q]
        env = {}
        for g in tr.globals:
            env["G:" + g] = frozenset({0})
        for i, p in enumerate(f.params):
            env[p] = env.get(p, frozenset()) | {i + 1}

        def once():
            _, e = py_analyze(T, f.body, env)
            return {"wr": e["wr"], "ret": e["ret"], "gw": e["gw"], "fail": e["fail"]}
        if q in f.callees:                      # self-recursive: iterate from the empty summary
            T[q] = {"wr": frozenset(), "ret": frozenset(), "gw": False, "fail": False}
            while True:
                n = once()
                m = {"wr": T[q]["wr"] | n["wr"], "ret": T[q]["ret"] | n["ret"], "gw": T[q]["gw"] or n["gw"],
                     "fail": T[q]["fail"] or n["fail"]}
                if m == T[q]:
                    break
                T[q] = m
        else:
            T[q] = once()
    return T


def is_pure(sm):
    return not sm["wr"] and not sm["gw"] and not sm["fail"]


NSLICES = 8


def render(tr, order):
    gids, per_fun = number(tr, order)
    fid = {q: i for i, q in enumerate(order)}
    T = summaries(tr, order)
    L = []
    L.append("import MirModel.Effects")
    L.append("/-! GENERATED by harness/translate/effects.py from the current source of mir_eval — do not edit.")
    L.append("    One `FunDef` per Python function (callees before callers).  Variable ids: module-level objects")
    L.append("    first, then the function's parameters, then its locals (x' = contents region of x). -/")
    L.append("set_option maxRecDepth 100000")
    L.append("namespace MirGen.Effects")
    L.append("open Mir.Effects")
    L.append("")
    sizes = []
    for q in order:
        f = tr.funs[q]
        ids, vid = per_fun[q]
        body = emit_stmt(f.body, vid, fid, 1)
        sizes.append(body.count("\n") + 1)
        names = ", ".join("%s=%d" % (n, i) for n, i in ids.items() if not n.startswith("$"))
        L.append("/-- `%s` (function %d); variables: %s -/" % (q, fid[q], names))
        L.append("def f_%s : FunDef := ⟨%s,\n%s⟩" % (f.lean, "[" + ", ".join(str(vid(p)) for p in f.params) + "]", body))
        L.append("def id_%s : Nat := %d" % (f.lean, fid[q]))
        L.append("")
    # contiguous slices of roughly equal size (checked in parallel by the EffectsCheck modules)
    total = sum(sizes)
    bounds, acc, cut = [0], 0, 1
    for i, sz in enumerate(sizes):
        acc += sz
        if cut < NSLICES and acc >= total * cut / NSLICES:
            bounds.append(i + 1)
            cut += 1
    while len(bounds) < NSLICES:
        bounds.append(len(order))
    bounds.append(len(order))
    for k in range(NSLICES):
        qs = order[bounds[k]:bounds[k + 1]]
        L.append("def slice%d : List FunDef := [%s]" % (k, ", ".join("f_" + tr.funs[q].lean for q in qs)))
    L.append("")
    L.append("/-- module-level objects: %s -/" % ", ".join("%s=%d" % kv for kv in gids.items()))
    L.append("def prog : Prog := ⟨[" + ", ".join("slice%d" % k for k in range(NSLICES)) + "].flatten,\n  [" +
             ", ".join(str(i) for i in sorted(gids.values())) + "]⟩")
    L.append("")
    L.append("def names : List String := [" + ",\n  ".join('"%s"' % q for q in order) + "]")
    L.append("")
    pub = [q for q in order if tr.funs[q].public]
    L.append("/-- the public functions of the task modules, util, sonify and separation -/")
    L.append("def publicIds : List Nat := [" + ", ".join(str(fid[q]) for q in pub) + "]")
    L.append("")
    L.append("/-- proposed effect summaries ⟨writes, returns, global write, failed, []⟩ (origin 0 = module-level")
    L.append("    object, i+1 = i-th parameter); checked by `validTable prog table` in MirGen.EffectsValid -/")
    L.append("def table : List Eff := [")
    rows = []
    for q in order:
        sm = T[q]
        rows.append("  ⟨%s, %s, %s, %s, []⟩" % (sorted(sm["wr"]), sorted(sm["ret"]),
                                                 "true" if sm["gw"] else "false", "true" if sm["fail"] else "false"))
    L.append(",\n".join(rows) + "]")
    L.append("")
    L.append("end MirGen.Effects")
    checks = []
    for k in range(NSLICES):
        checks.append(("EffectsCheck%d.lean" % k,
                       "import MirGen.Effects\n/-! GENERATED — do not edit. -/\nset_option maxRecDepth 100000\n"
                       "namespace MirGen.Effects\nopen Mir.Effects\n"
                       "theorem check%d : validFrom prog table slice%d %d = true := by decide +kernel\n"
                       "end MirGen.Effects\n" % (k, k, bounds[k])))
    valid = ["import MirGen.Effects"] + ["import MirGen.EffectsCheck%d" % k for k in range(NSLICES)]
    valid.append("/-! GENERATED — do not edit.  The proposed table is a post-fixpoint of the analysis. -/")
    valid.append("namespace MirGen.Effects")
    valid.append("open Mir.Effects")
    valid.append("theorem table_valid : validTable prog table = true := by")
    valid.append("  show validFrom prog table [%s].flatten 0 = true" % ", ".join("slice%d" % k for k in range(NSLICES)))
    valid.append("  rw [validFrom_flatten]")
    valid.append("  simp only [validSlices, Bool.and_eq_true, and_true]")
    valid.append("  exact ⟨" + ", ".join("check%d" % k for k in range(NSLICES)) + "⟩")
    valid.append("end MirGen.Effects")
    checks.append(("EffectsValid.lean", "\n".join(valid) + "\n"))
    return "\n".join(L) + "\n", pub, T, checks


def generate(repo, outdir):
    from translate import write_if_changed
    tr = Translator(repo)
    order = tr.translate_all()
    text, pub, T, checks = render(tr, order)
    write_if_changed(os.path.join(outdir, "Effects.lean"), text)
    for name, body in checks:
        write_if_changed(os.path.join(outdir, name), body)
    obligations = ["effects:" + q for q in pub]
    return obligations, tr.problems


def flagged(repo):
    """{qualified name: summary} of the functions the analysis does not find pure (for harness/props/c15.py)"""
    tr = Translator(repo)
    order = tr.translate_all()
    T = summaries(tr, order)
    return {q: T[q] for q in order if not is_pure(T[q])}, [q for q in order if tr.funs[q].public], tr.problems


if __name__ == "__main__":
    repo = sys.argv[1] if len(sys.argv) > 1 else "/repo"
    sys.path.insert(0, repo)
    sys.path.insert(0, os.path.dirname(os.path.dirname(os.path.abspath(__file__))))
    if len(sys.argv) > 2:
        obl, problems = generate(repo, sys.argv[2])
    else:
        problems = flagged(repo)[2]
    for p in problems:
        print("PROBLEM", p["name"], p["detail"])
    fl, pub, _ = flagged(repo)
    for q, sm in fl.items():
        print("FLAGGED", q, "wr=%s ret=%s gw=%s fail=%s" % (sorted(sm["wr"]), sorted(sm["ret"]), sm["gw"], sm["fail"]),
              "(public)" if q in pub else "")
