"""mir_eval source -> lean/MirGen/EvalPrograms.lean: the body of every task's `evaluate()` as a step list of the
mini-language of lean/MirModel/EvalProg.lean.

Accepted statement forms (exactly those that occur; anything else is a *problem* — the translator fails closed):

  scores = collections.OrderedDict()                                  initScores
  kwargs[<str>] = <constant>                                           force
  kwargs[<str>] = <name saved earlier>                                 restore
  kwargs.setdefault(<str>, <constant>)                                 setDefault
  <name> = kwargs[<str>]                                               save
  <targets> = util.filter_kwargs(<function>, <args>..., [name=<arg>]..., [**kwargs])   call (viaFilter)
  <targets> = <function>(<args>..., [name=<arg>]..., [**kwargs])       call (direct)
  <function>(<args>...) / util.filter_kwargs(<function>, <args>...)    call whose result is discarded (no targets),
                                                                       e.g. `validate(reference_beats, estimated_beats)`
  if kwargs[<str>] is not None: <one of the above>                     guard notNone
  if <str> not in kwargs: <one of the above>                           guard absent
  return scores                                                        ret (must be last)

<targets>: a name, `scores[<str>]`, or a tuple of those.  <args>: a bound local name, a constant, a module-level
constant name, `scores[<str>]`, `<name>.<method>()`, or a nested call of the two call forms (flattened into a
preceding call bound to a fresh temporary `_t<n>`; not allowed under an `if`).
<function>: a top-level function of the same module, of an imported mir_eval module (`util.f`), a name imported
with `from .mod import f`, or the builtin `min`.
"""
import ast
import os
from fractions import Fraction

from translate import write_if_changed
from translate.signatures import TASK_MODULES, MODULES, collect, lean_str, lean_strs, lean_bool, lean_sig

BUILTINS = {"min": "builtins.min"}


class Unsupported(Exception):
    def __init__(self, node, why):
        self.node = node
        self.why = why
        super().__init__(why)


def _src(node):
    try:
        return ast.unparse(node)
    except Exception:  # noqa: BLE001
        return "<%s>" % type(node).__name__


class ModuleCtx:
    """Name resolution context of one module (imports, top-level functions, module-level constants)."""

    def __init__(self, mod, tree, allsigs):
        self.mod = mod
        self.allsigs = allsigs
        self.modalias = {}     # local alias -> mir_eval module name or external module name
        self.fromnames = {}    # local name -> "module.func"
        self.constants = set()
        for node in tree.body:
            if isinstance(node, ast.Import):
                for a in node.names:
                    if a.asname is None and "." not in a.name:
                        self.modalias[a.name] = "ext:" + a.name
                    elif a.asname is not None:
                        self.modalias[a.asname] = "ext:" + a.name
            elif isinstance(node, ast.ImportFrom):
                base = node.module or ""
                is_pkg = (node.level == 1 and base == "") or (node.level == 0 and base == "mir_eval")
                sub = None
                if node.level == 1 and base:
                    sub = base
                elif node.level == 0 and base.startswith("mir_eval."):
                    sub = base[len("mir_eval."):]
                for a in node.names:
                    local = a.asname or a.name
                    if is_pkg:
                        self.modalias[local] = a.name if a.name in MODULES else "ext:mir_eval." + a.name
                    elif sub is not None and sub in MODULES:
                        self.fromnames[local] = "%s.%s" % (sub, a.name)
                    else:
                        self.fromnames[local] = "ext:%s.%s" % (base, a.name)
            elif isinstance(node, ast.Assign):
                for t in node.targets:
                    if isinstance(t, ast.Name):
                        self.constants.add(t.id)

    def resolve_function(self, node):
        """Expression in function position -> qualified name known to the signature table (or a builtin)."""
        if isinstance(node, ast.Name):
            n = node.id
            if n in self.allsigs.get(self.mod, {}):
                return "%s.%s" % (self.mod, n)
            if n in self.fromnames and not self.fromnames[n].startswith("ext:"):
                q = self.fromnames[n]
                m, f = q.split(".", 1)
                if f in self.allsigs.get(m, {}):
                    return q
                raise Unsupported(node, "imported name %s is not a top-level function of %s" % (n, m))
            if n in BUILTINS:
                return BUILTINS[n]
            raise Unsupported(node, "cannot resolve function name %r" % n)
        if isinstance(node, ast.Attribute) and isinstance(node.value, ast.Name):
            m = self.modalias.get(node.value.id)
            if m is not None and not m.startswith("ext:"):
                if node.attr in self.allsigs.get(m, {}):
                    return "%s.%s" % (m, node.attr)
                raise Unsupported(node, "%s is not a top-level function of %s" % (node.attr, m))
            if m is not None:
                return m + "." + node.attr           # external, e.g. ext:collections.OrderedDict
        raise Unsupported(node, "unsupported function expression %s" % _src(node))


def const_kv(node):
    """ast constant -> Lean `KV` term."""
    if not isinstance(node, ast.Constant):
        # negative literals
        if isinstance(node, ast.UnaryOp) and isinstance(node.op, ast.USub) and isinstance(node.operand, ast.Constant) \
                and isinstance(node.operand.value, (int, float)) and not isinstance(node.operand.value, bool):
            v = -node.operand.value
        else:
            raise Unsupported(node, "keyword value is not a constant: %s" % _src(node))
    else:
        v = node.value
    if v is None:
        return ".none"
    if isinstance(v, bool):
        return ".bool %s" % lean_bool(v)
    if isinstance(v, int):
        return ".int (%d)" % v
    if isinstance(v, float):
        if v != v or v in (float("inf"), float("-inf")):
            raise Unsupported(node, "non-finite float constant")
        q = Fraction(repr(v))
        return ".flt (mkRat (%d) %d)" % (q.numerator, q.denominator)
    if isinstance(v, str):
        return ".str %s" % lean_str(v)
    raise Unsupported(node, "unsupported constant %r" % (v,))


class EvalTranslator:
    def __init__(self, ctx, fn):
        self.ctx = ctx
        self.fn = fn
        a = fn.args
        if a.kwarg is None:
            raise Unsupported(fn, "evaluate() has no **kwargs parameter")
        if a.vararg is not None or a.kwonlyargs:
            raise Unsupported(fn, "evaluate() has *args / keyword-only parameters")
        if fn.decorator_list:
            raise Unsupported(fn, "evaluate() is decorated")
        self.kw = a.kwarg.arg
        self.inputs = [x.arg for x in a.posonlyargs] + [x.arg for x in a.args]
        self.bound = set(self.inputs)
        self.slots = set()
        self.scores = None
        self.steps = []          # list of (guard_lean, stmt_lean)
        self.ntemp = 0
        self.done = False
        self.callees = []        # qualified callee names in order of first occurrence

    # ---- expressions -------------------------------------------------------------------------
    def is_kwargs_sub(self, node):
        return (isinstance(node, ast.Subscript) and isinstance(node.value, ast.Name) and node.value.id == self.kw
                and isinstance(node.slice, ast.Constant) and isinstance(node.slice.value, str))

    def is_scores_sub(self, node):
        return (self.scores is not None and isinstance(node, ast.Subscript) and isinstance(node.value, ast.Name)
                and node.value.id == self.scores and isinstance(node.slice, ast.Constant)
                and isinstance(node.slice.value, str))

    def arg(self, node, allow_nested):
        if isinstance(node, ast.Name):
            n = node.id
            if n == self.kw or n == self.scores:
                raise Unsupported(node, "%s passed as a plain argument" % n)
            if n in self.slots:
                raise Unsupported(node, "saved keyword value %s passed as an argument" % n)
            if n in self.bound:
                return ".var %s" % lean_str(n)
            if n in self.ctx.constants:
                return ".lit %s" % lean_str(n)
            raise Unsupported(node, "unbound name %r used as argument" % n)
        if isinstance(node, ast.Constant):
            if isinstance(node.value, (int, float, str, bool)) or node.value is None:
                return ".lit %s" % lean_str(repr(node.value))
            raise Unsupported(node, "unsupported constant argument %s" % _src(node))
        if self.is_scores_sub(node):
            return ".score %s" % lean_str(node.slice.value)
        if isinstance(node, ast.Call) and isinstance(node.func, ast.Attribute) and isinstance(node.func.value, ast.Name) \
                and node.func.value.id in self.bound and not node.args and not node.keywords:
            return ".method %s %s" % (lean_str(node.func.value.id), lean_str(node.func.attr))
        if isinstance(node, ast.Call):
            if not allow_nested:
                raise Unsupported(node, "nested call under an `if`")
            self.ntemp += 1
            tmp = "_t%d" % self.ntemp
            self.call(node, [".var %s" % lean_str(tmp)], ".always", allow_nested=True)
            self.bound.add(tmp)
            return ".var %s" % lean_str(tmp)
        raise Unsupported(node, "unsupported argument expression %s" % _src(node))

    def call(self, node, targets, guard, allow_nested):
        f = self.ctx.resolve_function(node.func)
        via = False
        args = list(node.args)
        if f == "util.filter_kwargs":
            via = True
            if not args:
                raise Unsupported(node, "filter_kwargs without a function")
            f = self.ctx.resolve_function(args[0])
            args = args[1:]
        if f.startswith("ext:"):
            raise Unsupported(node, "call of external function %s" % f)
        if f.endswith(".evaluate") or f in ("util.filter_kwargs", "util.has_kwargs"):
            raise Unsupported(node, "unsupported callee %s" % f)
        if any(isinstance(a, ast.Starred) for a in args):
            raise Unsupported(node, "starred positional argument")
        pos = [self.arg(a, allow_nested) for a in args]
        named, passkw = [], False
        for k in node.keywords:
            if k.arg is None:
                if isinstance(k.value, ast.Name) and k.value.id == self.kw and not passkw:
                    passkw = True
                else:
                    raise Unsupported(node, "unsupported ** argument %s" % _src(k.value))
            else:
                named.append("(%s, %s)" % (lean_str(k.arg), self.arg(k.value, allow_nested)))
        if f not in self.callees:
            self.callees.append(f)
        self.steps.append((guard, ".call %s [%s] [%s] [%s] %s %s" % (
            lean_str(f), ", ".join(pos), ", ".join(named), ", ".join(targets), lean_bool(via), lean_bool(passkw))))

    def targets(self, node):
        """assignment target -> (list of Lean Target terms, list of local names bound)"""
        elts = list(node.elts) if isinstance(node, (ast.Tuple, ast.List)) else [node]
        out, names = [], []
        for e in elts:
            if isinstance(e, ast.Name):
                if e.id in (self.kw, self.scores):
                    raise Unsupported(e, "assignment to %s" % e.id)
                out.append(".var %s" % lean_str(e.id))
                names.append(e.id)
            elif self.is_scores_sub(e):
                out.append(".score %s" % lean_str(e.slice.value))
            else:
                raise Unsupported(e, "unsupported assignment target %s" % _src(e))
        return out, names

    # ---- statements --------------------------------------------------------------------------
    def simple(self, st, guard, allow_nested):
        """translate one non-`if`, non-`return` statement under `guard`"""
        if isinstance(st, ast.Expr) and isinstance(st.value, ast.Call):
            c = st.value
            if isinstance(c.func, ast.Attribute) and isinstance(c.func.value, ast.Name) and c.func.value.id == self.kw \
                    and c.func.attr == "setdefault" and len(c.args) == 2 and not c.keywords \
                    and isinstance(c.args[0], ast.Constant) and isinstance(c.args[0].value, str):
                self.steps.append((guard, ".setDefault %s (%s)" % (lean_str(c.args[0].value), const_kv(c.args[1]))))
                return
            if isinstance(c.func, ast.Attribute) and isinstance(c.func.value, ast.Name) \
                    and c.func.value.id in (self.kw, self.scores):
                raise Unsupported(st, "unsupported method call on %s" % c.func.value.id)
            # a direct / filtered call of a mir_eval function whose result is discarded (resolve_function and
            # self.call reject everything else: externals, methods, evaluate(), filter_kwargs itself)
            self.call(c, [], guard, allow_nested)
            return
        if not isinstance(st, ast.Assign) or len(st.targets) != 1:
            raise Unsupported(st, "unsupported statement")
        tgt, val = st.targets[0], st.value
        # scores = collections.OrderedDict()
        if isinstance(tgt, ast.Name) and isinstance(val, ast.Call) and not val.args and not val.keywords:
            try:
                f = self.ctx.resolve_function(val.func)
            except Unsupported:
                f = None
            if f == "ext:collections.OrderedDict":
                if self.scores is not None or guard != ".always":
                    raise Unsupported(st, "score dictionary created twice / conditionally")
                if tgt.id in self.bound or tgt.id == self.kw:
                    raise Unsupported(st, "score dictionary shadows %s" % tgt.id)
                self.scores = tgt.id
                self.steps.append((guard, ".initScores"))
                return
        # kwargs[k] = ...
        if self.is_kwargs_sub(tgt):
            k = tgt.slice.value
            if isinstance(val, ast.Name) and val.id in self.slots:
                self.steps.append((guard, ".restore %s %s" % (lean_str(k), lean_str(val.id))))
            else:
                self.steps.append((guard, ".force %s (%s)" % (lean_str(k), const_kv(val))))
            return
        # slot = kwargs[k]
        if isinstance(tgt, ast.Name) and self.is_kwargs_sub(val):
            if tgt.id in self.bound or tgt.id in (self.kw, self.scores) or guard != ".always":
                raise Unsupported(st, "unsupported save of a keyword value")
            self.slots.add(tgt.id)
            self.steps.append((guard, ".save %s %s" % (lean_str(val.slice.value), lean_str(tgt.id))))
            return
        # targets = call
        if isinstance(val, ast.Call):
            tl, names = self.targets(tgt)
            if any(n in self.slots for n in names):
                raise Unsupported(st, "assignment to a saved keyword slot")
            self.call(val, tl, guard, allow_nested)
            if names and guard != ".always":
                raise Unsupported(st, "conditional binding of a local name")
            self.bound.update(names)
            return
        raise Unsupported(st, "unsupported assignment")

    def guard_of(self, test):
        if isinstance(test, ast.Compare) and len(test.ops) == 1 and len(test.comparators) == 1:
            l, op, r = test.left, test.ops[0], test.comparators[0]
            if isinstance(op, ast.IsNot) and self.is_kwargs_sub(l) and isinstance(r, ast.Constant) and r.value is None:
                return ".notNone %s" % lean_str(l.slice.value)
            if isinstance(op, ast.NotIn) and isinstance(l, ast.Constant) and isinstance(l.value, str) \
                    and isinstance(r, ast.Name) and r.id == self.kw:
                return ".absent %s" % lean_str(l.value)
        raise Unsupported(test, "unsupported condition %s" % _src(test))

    def translate(self):
        body = list(self.fn.body)
        if body and isinstance(body[0], ast.Expr) and isinstance(body[0].value, ast.Constant) \
                and isinstance(body[0].value.value, str):
            body = body[1:]
        for st in body:
            if self.done:
                raise Unsupported(st, "statement after `return`")
            if isinstance(st, ast.Return):
                if not (isinstance(st.value, ast.Name) and st.value.id == self.scores):
                    raise Unsupported(st, "return of something other than the score dictionary")
                self.steps.append((".always", ".ret"))
                self.done = True
            elif isinstance(st, ast.If):
                if st.orelse or len(st.body) != 1 or isinstance(st.body[0], (ast.If, ast.Return)):
                    raise Unsupported(st, "`if` with else / several statements / nested control flow")
                g = self.guard_of(st.test)
                self.simple(st.body[0], g, allow_nested=False)
            else:
                self.simple(st, ".always", allow_nested=True)
        if not self.done:
            raise Unsupported(self.fn, "evaluate() does not end with `return scores`")
        return self.steps


def find_evaluate(tree):
    found = [n for n in tree.body if isinstance(n, ast.FunctionDef) and n.name == "evaluate"]
    return found[0] if len(found) == 1 else None


def render(progs, allsigs):
    lines = ["import MirModel.EvalProg",
             "/-! GENERATED by harness/translate/evalprogs.py from mir_eval's source — do not edit. -/",
             "namespace Mir.Gen",
             "open Mir.EvalProg",
             ""]
    for task, (inputs, steps, callees) in progs.items():
        lines.append("def inputs_%s : List String := %s" % (task, lean_strs(inputs)))
        lines.append("")
        lines.append("/-- the callees of `prog_%s` (first occurrence order) and their rows of `Gen.sigs` -/" % task)
        lines.append("def callees_%s : List String := %s" % (task, lean_strs(callees)))
        lines.append("")
        lines.append("def sigs_%s : Sigs := [" % task)
        rows = []
        for q in callees:
            m, f = q.split(".", 1)
            if f in allsigs.get(m, {}):
                rows.append("  (%s, %s)" % (lean_str(q), lean_sig(allsigs[m][f])))
        lines.append(",\n".join(rows))
        lines.append("]")
        lines.append("")
        lines.append("/-- `sigs` has exactly these rows for the callees of `prog_%s` -/" % task)
        lines.append("abbrev SigsOk_%s (sigs : Sigs) : Prop :=" % task)
        conj = []
        for q in callees:
            m, f = q.split(".", 1)
            if f in allsigs.get(m, {}):
                conj.append("  sigs.find %s = some %s" % (lean_str(q), lean_sig(allsigs[m][f])))
            else:
                conj.append("  sigs.find %s = none" % lean_str(q))
        lines.append(" ∧\n".join(conj) if conj else "  True")
        lines.append("")
        lines.append("def prog_%s : Program := [" % task)
        for i, (g, s) in enumerate(steps):
            head = "{ stmt := %s }" % s if g == ".always" else "{ guard := %s, stmt := %s }" % (g, s)
            lines.append("  %s%s" % (head, "," if i + 1 < len(steps) else ""))
        lines.append("]")
        lines.append("")
    lines.append("def evalPrograms : List (String × Program) := [%s]" %
                 ", ".join("(%s, prog_%s)" % (lean_str(t), t) for t in progs))
    lines.append("")
    lines.append("def evalCallees : List (String × List String) := [%s]" %
                 ", ".join("(%s, callees_%s)" % (lean_str(t), t) for t in progs))
    lines.append("")
    lines.append("def evalInputs : List (String × List String) := [%s]" %
                 ", ".join("(%s, inputs_%s)" % (lean_str(t), t) for t in progs))
    lines.append("")
    lines.append("end Mir.Gen")
    return "\n".join(lines) + "\n"


def generate(repo, outdir):
    allsigs, trees, problems = collect(repo)
    problems = []   # signature problems are reported by translate.signatures
    progs, obligations = {}, []
    for task in TASK_MODULES:
        tree = trees.get(task)
        if tree is None:
            problems.append({"name": "evalprogs:%s" % task, "detail": "module not parsed"})
            continue
        fn = find_evaluate(tree)
        if fn is None:
            problems.append({"name": "evalprogs:%s.evaluate" % task,
                             "detail": "no unique top-level evaluate() in mir_eval/%s.py" % task})
            continue
        try:
            tr = EvalTranslator(ModuleCtx(task, tree, allsigs), fn)
            steps = tr.translate()
            progs[task] = (tr.inputs, steps, tr.callees)
            obligations.append("MirGen.EvalPrograms.prog_%s" % task)
        except Unsupported as e:
            ln = getattr(e.node, "lineno", fn.lineno)
            problems.append({"name": "evalprogs:%s.evaluate" % task,
                             "detail": "line %d: %s: %s" % (ln, e.why, _src(e.node)[:160])})
            # keep the Lean side well-formed: an empty program makes every per-task obligation fail
            progs[task] = ([], [], [])
    os.makedirs(outdir, exist_ok=True)
    write_if_changed(os.path.join(outdir, "EvalPrograms.lean"), render(progs, allsigs))
    return obligations, problems
