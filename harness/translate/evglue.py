"""The event-metric glue of mir_eval -> lean/MirGen/EvGlue.lean   (AST based; mir_eval is never imported).
Translator part `evglue` (C04; the `util` functions also carry C05 / C07 statements).

  util._fast_hit_windows, util.match_events              -> Mir.Gen.util.<f>       (mir_eval/util.py)
  onset.f_measure, beat.f_measure                        -> Mir.Gen.onset.f_measure, Mir.Gen.beat.f_measure
  segment.detection, segment.deviation                   -> Mir.Gen.segment.<f>
  tempo.detection                                        -> Mir.Gen.tempo.detection

One SHALLOW Lean definition per function (`for` loops: auxiliary `<f>_loop<k>`), over the run-time library
`lean/MirModel/PyEvGlue.lean` (`Mir.PyEG`), plus the driver handler `Mir.Gen.EvGlue.handler` (op
`gen.evglue <"module.function"> <args...>`).  `MirProofs/Props/C04_GenGlue.lean` proves each equal to the hand model.
An extension of `translate/multipitch.py` (itself over `segindex.py`): statements, conditions, tuples, the typing of `/`,
loops over `enumerate(zip(..))`, comprehensions are inherited.  Fails closed.

ADDED SUBSET
  parameters   `np.ndarray` / `np.ndarray, shape=(n,)` / `shape=(2,)` = 1-D array of times (`List Rat`);
               `np.ndarray, shape=(n, 2)` = intervals; `float ...` ; `bool` / `boolean`; a parameter documented as `function`
               with default None is SPECIALISED to None (it disappears from the generated definition; `p is None` /
               `p is not None` are decided statically and only the live branch is translated — `match_events` is
               regenerated for `distance=None`, the call every event metric makes).
  containers   a local created by `[]` / `{}` in this function (never aliased: `y = x` is rejected) is OWNED:
               `x.extend(e)`, `d[k] = []`, `d[k].append(v)`, `k in d` / `k not in d` are read as pure updates of the
               local (`PyEG.extend`, `dictSet`, `dictAppend` — KeyError when absent —, `dictHas`); an untyped `[]` is a
               list of naturals (indices) and everything stored in it must be one; dicts map naturals to lists of
               naturals, in insertion order.  Owned containers may be loop state.
  expressions  `np.asarray(x)` of an array (identity), `np.argsort(x)`, `x[idx]` with an index array (IndexError),
               `np.searchsorted(s, v, side="left"|"right")` ONLY on an `s` obtained as `x[np.argsort(x)]`,
               `a + c`, `a - c` (array, scalar), `xs[lo:hi]` (natural bounds) and `xs[i:j]` (integer literals),
               `[v] * k`, `zip(*pair)`, `sorted(_bipartite_match(G).items())`,
               `np.abs(np.subtract.outer(a, b))`, `M.min(axis=0|1)`, `np.median(v)`, `np.nan`.
  externs      (bound to the hand models, see `MirModel/PyEvGlue.lean`): the module's own `validate` /
               `validate_boundary`, `util.intervals_to_boundaries`, `_bipartite_match` (= the proved Hopcroft-Karp
               transliteration), `util.f_measure` = the REGENERATED `Mir.Gen.util.f_measure` (part `scalars`),
               `util.match_events` from another module = the REGENERATED `Mir.Gen.util.match_events`.

`python harness/translate/evglue.py [repo]` prints the generated file.
"""
import ast
import os
import re
import sys

try:
    from translate import write_if_changed
    from translate import segindex as SI
    from translate import multipitch as MP
except ImportError:  # run as a script
    sys.path.insert(0, os.path.dirname(os.path.dirname(os.path.abspath(__file__))))
    from translate import write_if_changed
    from translate import segindex as SI
    from translate import multipitch as MP

from translate.segindex import (Unsupported, E, NAT, INT, RAT, NUM, BOOL, NONE, VEC, TUP, OPT, ident, indent, coerce,  # noqa: E402
                                const_expr, dotted, assigned_names, show_type, doc_param_types, Sig, INTERVALS)
from translate.multipitch import TIMES, EMPTY  # noqa: E402

# (module, [functions in emission order]); REQUIRED: one that leaves the subset is a translator problem
WANTED = [("util", ["_fast_hit_windows", "match_events"]),
          ("onset", ["f_measure"]),
          ("beat", ["f_measure"]),
          ("segment", ["detection", "deviation"]),
          ("tempo", ["validate", "detection"])]

NATS = VEC(NAT)
PAIRS = VEC(TUP([NAT, NAT]))
DICT = ("dict",)
ORAT = OPT(RAT)          # a float that may be nan (np.median of an empty array, np.nan)
RMAT = ("ratmat",)       # a 2-D float array with the number of its columns: (rows, ncols)
BOOLS = VEC(BOOL)
NUMS = VEC(NUM)

_mp_lean_type = SI.lean_type


def lean_type(t):
    if t == DICT:
        return "Mir.PyEG.Dict"
    if t == RMAT:
        return "((List (List Rat)) × Nat)"
    return _mp_lean_type(t)


SI.lean_type = lean_type
MP.lean_type = lean_type

VALIDATORS = {"onset": ("validate", "Mir.PyEG.onset_validate", [TIMES, TIMES]),
              "beat": ("validate", "Mir.PyEG.beat_validate", [TIMES, TIMES]),
              "segment": ("validate_boundary", "Mir.PyEG.validate_boundary", [INTERVALS, INTERVALS, BOOL])}


def param_type(text, node):
    t = text.strip().lower()
    if t in ("bool", "boolean"):
        return BOOL
    if re.match(r"^np\.ndarray, shape=\(\w+, 2\)$", t):
        return INTERVALS
    if t == "np.ndarray" or re.match(r"^np\.ndarray, shape=\(\w+,\)$", t):
        return TIMES
    if re.match(r"^float\b", t) and not re.search(r"array|list|tuple|none|\bor\b", t):
        return RAT
    raise Unsupported("documented parameter type %r is outside the subset" % text, node)


class Program:
    """the modules of one translation run (cross-module calls of translated functions go through it)"""

    def __init__(self, repo):
        self.repo, self.modules, self.read_problems = repo, {}, {}
        self.scalars_f_measure = None

    def module(self, name):
        if name not in self.modules:
            path = os.path.join(self.repo, "mir_eval", name + ".py")
            try:
                m = Module(open(path, encoding="utf-8").read(), name, self)
            except (OSError, SyntaxError) as e:
                self.read_problems[name] = "cannot read/parse %s: %s" % (path, e)
                m = None
            self.modules[name] = m
        return self.modules[name]

    def has_gen_f_measure(self):
        if self.scalars_f_measure is None:
            try:
                from translate import scalars
                _, done, _ = scalars.translate_all(self.repo)
                self.scalars_f_measure = ("util", "f_measure") in done
            except Exception:  # noqa: BLE001
                self.scalars_f_measure = False
        return self.scalars_f_measure


class Module(MP.Module):
    WANT = {"np": "numpy", "util": "..util", "warnings": "warnings"}
    REQUIRED = ()

    def __init__(self, source, modname, program):
        MP.Module.__init__(self, source)
        self.modname, self.program = modname, program

    def translate_def(self, fn):
        return translate_def(self, fn)


def desugar(body, params):
    """owned containers: rewrite the mutating statements on locals created by `[]` / `{}` into assignments of pseudo-calls
    -> (new body, owned list names, owned dict names)"""
    # a, b = [], []  ->  a = []; b = []
    def split(stmts):
        out = []
        for s in stmts:
            for fld in ("body", "orelse"):
                blk = getattr(s, fld, None)
                if isinstance(blk, list) and blk and isinstance(blk[0], ast.stmt):
                    setattr(s, fld, split(blk))
            if isinstance(s, ast.Assign) and len(s.targets) == 1 and isinstance(s.targets[0], ast.Tuple) \
                    and isinstance(s.value, ast.Tuple) and len(s.targets[0].elts) == len(s.value.elts) \
                    and all(isinstance(t, ast.Name) for t in s.targets[0].elts) \
                    and all(isinstance(v, (ast.List, ast.Dict)) and not (v.elts if isinstance(v, ast.List) else v.keys)
                            for v in s.value.elts):
                for t, v in zip(s.targets[0].elts, s.value.elts):
                    out.append(ast.copy_location(ast.Assign(targets=[t], value=v), s))
            else:
                out.append(s)
        return out
    body = split(body)
    mod = ast.Module(body=body, type_ignores=[])
    lists, dicts = set(), set()
    for nd in ast.walk(mod):
        if isinstance(nd, ast.Assign) and len(nd.targets) == 1 and isinstance(nd.targets[0], ast.Name):
            if isinstance(nd.value, ast.List) and not nd.value.elts:
                lists.add(nd.targets[0].id)
            if isinstance(nd.value, ast.Dict) and not nd.value.keys:
                dicts.add(nd.targets[0].id)
    owned = lists | dicts
    if owned & set(params):
        raise Unsupported("a parameter is rebound to a fresh container")
    if lists & dicts:
        raise Unsupported("a local is both a list and a dict")
    for nd in ast.walk(mod):
        if isinstance(nd, ast.Assign):
            if isinstance(nd.value, ast.Name) and nd.value.id in owned:
                raise Unsupported("an owned container is aliased", nd)
            for t in nd.targets:
                if isinstance(t, ast.Name) and t.id in owned and not (
                        isinstance(nd.value, (ast.List, ast.Dict)) and not getattr(nd.value, "elts", getattr(nd.value, "keys", None))):
                    raise Unsupported("an owned container is reassigned", nd)

    def call(fn, args, at):
        c = ast.Call(func=ast.Name(id=fn, ctx=ast.Load()), args=args, keywords=[])
        return ast.fix_missing_locations(ast.copy_location(c, at))

    def load(x, at):
        return ast.copy_location(ast.Name(id=x, ctx=ast.Load()), at)

    def rewrite(stmts):
        out = []
        for s in stmts:
            for fld in ("body", "orelse"):
                blk = getattr(s, fld, None)
                if isinstance(blk, list) and blk and isinstance(blk[0], ast.stmt):
                    setattr(s, fld, rewrite(blk))
            new = None
            if isinstance(s, ast.Expr) and isinstance(s.value, ast.Call) and isinstance(s.value.func, ast.Attribute) \
                    and len(s.value.args) == 1 and not s.value.keywords:
                f, arg = s.value.func, s.value.args[0]
                if isinstance(f.value, ast.Name) and f.value.id in lists and f.attr in ("extend", "append"):
                    new = (f.value.id, call("__%s__" % f.attr, [load(f.value.id, s), arg], s))
                elif isinstance(f.value, ast.Subscript) and isinstance(f.value.value, ast.Name) and f.value.value.id in dicts \
                        and f.attr == "append":
                    d = f.value.value.id
                    new = (d, call("__dictappend__", [load(d, s), f.value.slice, arg], s))
            elif isinstance(s, ast.Assign) and len(s.targets) == 1 and isinstance(s.targets[0], ast.Subscript) \
                    and isinstance(s.targets[0].value, ast.Name) and s.targets[0].value.id in dicts:
                d = s.targets[0].value.id
                new = (d, call("__dictset__", [load(d, s), s.targets[0].slice, s.value], s))
            if new is not None:
                a = ast.Assign(targets=[ast.Name(id=new[0], ctx=ast.Store())], value=new[1])
                out.append(ast.fix_missing_locations(ast.copy_location(a, s)))
            else:
                out.append(s)
        return out
    return rewrite(body), lists, dicts


class Body(MP.Body):
    def __init__(self, module, fn, name, params, body, what="", none_params=(), lists=(), dicts=()):
        MP.Body.__init__(self, module, fn, name, params, body, what=what)
        self.none_params = set(none_params)
        self.lists, self.dicts = set(lists), set(dicts)
        self.argsort_of, self.sorted_arrays = {}, set()

    def translate(self):
        self.argsort_of, self.sorted_arrays = {}, set()
        return MP.Body.translate(self)

    def check_carried(self, n, env, s):
        if n in self.lists or n in self.dicts:
            return
        if env[n][0] == BOOLS and n in self.fresh_arrays:
            return
        MP.Body.check_carried(self, n, env, s)

    def item_store(self, s, env, cont):
        t = s.targets[0]
        if isinstance(t.value, ast.Name) and t.value.id in env and env[t.value.id][0] == BOOLS:
            x = t.value.id
            if x not in self.fresh_arrays:
                raise Unsupported("item assignment into %s, whose value may be shared with the caller" % x, s)
            binds = []
            i = self.expr(t.slice, env, binds)
            v = self.expr(s.value, env, binds)
            if i.ty != NAT or v.ty != BOOL:
                raise Unsupported("%s[<%s>] = <%s>" % (x, show_type(i.ty), show_type(v.ty)), s)
            self.effect_lines.add(s.lineno)
            line = "let %s : %s ← Mir.PyEG.setItemB %s %s %s" % (ident(x), lean_type(BOOLS), ident(x), i.term, v.term)
            return self.bind_lines(binds) + [line] + cont(dict(env))
        return MP.Body.item_store(self, s, env, cont)

    def number(self, e, node, allow_num=False):
        if e.ty == BOOL:
            return E("(Mir.PyEG.b2r %s)" % e.term, RAT)
        return MP.Body.number(self, e, node, allow_num)

    # -- statements -------------------------------------------------------------------------------------------------
    def static_none_test(self, t):
        """`p is None` / `p is not None` for a parameter specialised to None -> True / False, else None"""
        if isinstance(t, ast.Compare) and len(t.ops) == 1 and isinstance(t.left, ast.Name) and t.left.id in self.none_params \
                and isinstance(t.comparators[0], ast.Constant) and t.comparators[0].value is None:
            if isinstance(t.ops[0], ast.Is):
                return True
            if isinstance(t.ops[0], ast.IsNot):
                return False
        return None

    def stmts(self, sts, env, k):
        if not sts:
            return k(env)
        s, rest = sts[0], sts[1:]
        if isinstance(s, ast.If):
            v = self.static_none_test(s.test)
            if v is not None:
                return self.stmts(list(s.body if v else s.orelse) + list(rest), env, k)
        if isinstance(s, ast.If) and not s.orelse and all(isinstance(x, ast.Pass) for x in s.body):
            b0 = []
            self.cond(s.test, env, b0)
            if not b0:
                return self.stmts(list(rest), env, k)      # `if c: <only a dropped warning>` with a test that cannot raise
        if isinstance(s, ast.Raise):
            exc = s.exc
            nm = dotted(exc.func) if isinstance(exc, ast.Call) else dotted(exc) if exc is not None else None
            if nm == "ValueError" and s.cause is None and "ValueError" not in self.locals and "ValueError" not in self.m.funcs \
                    and "ValueError" not in self.m.assigned:
                return ["Except.error PyErr.valueError"]
            raise Unsupported("raise of anything but ValueError", s)
        return MP.Body.stmts(self, sts, env, k)

    def assign(self, target, value, env, cont, node):
        if isinstance(target, ast.Name):
            x = target.id
            # bookkeeping for "searchsorted only on x[np.argsort(x)]"
            self.sorted_arrays.discard(x)
            self.argsort_of.pop(x, None)
            for kk in [a for a, b in self.argsort_of.items() if b == x]:
                del self.argsort_of[kk]
            if isinstance(value, ast.List) and value.elts and all(
                    isinstance(v, ast.Constant) and type(v.value) is bool for v in value.elts):
                env2 = dict(env)
                env2[x] = (BOOLS, False, False)
                self.fresh_arrays.add(x)
                return ["let %s : %s := [%s]" % (ident(x), lean_type(BOOLS), ", ".join(
                    "true" if v.value else "false" for v in value.elts))] + cont(env2)
            if isinstance(value, ast.List) and not value.elts and x in self.lists:
                env2 = dict(env)
                env2[x] = (NATS, False, False)
                return ["let %s : %s := []" % (ident(x), lean_type(NATS))] + cont(env2)
            if isinstance(value, ast.Call) and dotted(value.func) == "np.argsort" and len(value.args) == 1 \
                    and isinstance(value.args[0], ast.Name):
                self.argsort_of[x] = value.args[0].id
            if isinstance(value, ast.Subscript) and isinstance(value.value, ast.Name) and isinstance(value.slice, ast.Name) \
                    and self.argsort_of.get(value.slice.id) == value.value.id:
                lines = MP.Body.assign(self, target, value, env, cont_marker(self, x, cont), node)
                return lines
        return MP.Body.assign(self, target, value, env, cont, node)

    # -- expressions --------------------------------------------------------------------------------------------------
    def expr(self, node, env, binds):
        if isinstance(node, ast.Dict) and not node.keys:
            return E("Mir.PyEG.dictEmpty", DICT)
        if isinstance(node, ast.Name) and node.id in self.none_params:
            raise Unsupported("use of %s, which is specialised to None" % node.id, node)
        if isinstance(node, ast.Attribute) and dotted(node) == "np.nan" and "np" not in env:
            return E("(none : Option Rat)", ORAT)
        return MP.Body.expr(self, node, env, binds)

    def compare(self, node, env, binds):
        if len(node.ops) == 1 and isinstance(node.ops[0], (ast.In, ast.NotIn)):
            k = self.expr(node.left, env, binds)
            d = self.expr(node.comparators[0], env, binds)
            if d.ty != DICT or k.ty != NAT:
                raise Unsupported("`in` on (%s, %s)" % (show_type(k.ty), show_type(d.ty)), node)
            t = "(Mir.PyEG.dictHas %s %s)" % (d.term, k.term)
            return E(t if isinstance(node.ops[0], ast.In) else "(!%s)" % t, BOOL)
        if len(node.ops) == 1 and isinstance(node.ops[0], (ast.LtE, ast.Lt)):
            b0 = []
            a = self.expr(node.left, env, b0)
            if a.ty == NUM:
                c = self.expr(node.comparators[0], env, b0)
                if c.ty not in (NAT, INT, RAT):
                    raise Unsupported("comparison of an np.float64 with a %s" % show_type(c.ty), node)
                binds += b0
                prim = "numLe" if isinstance(node.ops[0], ast.LtE) else "numLt"
                return E("(Mir.PyEG.%s %s %s)" % (prim, a.term, coerce(c, RAT, node)), BOOL)
        return MP.Body.compare(self, node, env, binds)

    def binop(self, node, env, binds):
        op = node.op
        if isinstance(op, ast.Sub) and not isinstance(node.left, ast.List) and not isinstance(node.right, ast.List):
            b0 = []
            c, a = self.expr(node.left, env, b0), self.expr(node.right, env, b0)
            if a.ty == TIMES and c.ty in (NAT, INT, RAT) and not b0:
                return E("(Mir.PyEG.rsubScalar %s %s)" % (coerce(c, RAT, node), a.term), TIMES)
        if isinstance(op, ast.Div):
            b0 = []
            a, c = self.expr(node.left, env, b0), self.expr(node.right, env, b0)
            if a.ty == TIMES and c.ty in (NAT, INT, RAT) and not b0:
                return E("(Mir.PyEG.divVecNp %s %s)" % (a.term, coerce(c, RAT, node)), NUMS)
        if isinstance(op, (ast.Add, ast.Sub)) and not isinstance(node.left, ast.List) and not isinstance(node.right, ast.List):
            b0 = []
            a = self.expr(node.left, env, b0)
            if a.ty == TIMES:
                c = self.expr(node.right, env, b0)
                if c.ty in (NAT, INT, RAT) and not b0:
                    prim = "addScalar" if isinstance(op, ast.Add) else "subScalar"
                    return E("(Mir.PyEG.%s %s %s)" % (prim, a.term, coerce(c, RAT, node)), TIMES)
                raise Unsupported("array arithmetic %s %s %s" % (show_type(a.ty), type(op).__name__, show_type(c.ty)), node)
        if isinstance(op, ast.Mult) and isinstance(node.left, ast.List) and len(node.left.elts) == 1:
            b0 = []
            v, kk = self.expr(node.left.elts[0], env, b0), self.expr(node.right, env, b0)
            if kk.ty == INT and v.ty in (NAT, INT, RAT) and not b0:
                return E("(Mir.PyEG.repeatInt %s %s)" % (v.term, kk.term), VEC(v.ty))
        return MP.Body.binop(self, node, env, binds)

    def subscript(self, node, env, binds):
        idx = node.slice
        if isinstance(idx, ast.Slice):
            if idx.step is not None or idx.lower is None or idx.upper is None:
                raise Unsupported("a slice other than xs[lo:hi]", node)
            a = self.expr(node.value, env, binds)
            if a.ty[0] != "vec":
                raise Unsupported("slice of a %s" % show_type(a.ty), node)

            def intlit(x):
                if isinstance(x, ast.UnaryOp) and isinstance(x.op, ast.USub) and isinstance(x.operand, ast.Constant) \
                        and type(x.operand.value) is int:
                    return -x.operand.value
                if isinstance(x, ast.Constant) and type(x.value) is int:
                    return x.value
                return None
            lo, hi = intlit(idx.lower), intlit(idx.upper)
            if lo is not None and hi is not None:
                return E("(Mir.PyEG.sliceLit %s (%d : Int) (%d : Int))" % (a.term, lo, hi), a.ty)
            l, h = self.expr(idx.lower, env, binds), self.expr(idx.upper, env, binds)
            if l.ty != NAT or h.ty != NAT:
                raise Unsupported("slice bounds of type (%s, %s)" % (show_type(l.ty), show_type(h.ty)), node)
            return E("(Mir.PyEG.sliceNat %s %s %s)" % (a.term, l.term, h.term), a.ty)
        if isinstance(idx, ast.Constant) and type(idx.value) is int and idx.value >= 0 and isinstance(node.value, ast.Name) \
                and node.value.id in env and env[node.value.id][0][0] == "vec":
            a = self.expr(node.value, env, binds)
            tmp = self.bind(binds, "Mir.PyMP.listGet %s (%d : Nat)" % (a.term, idx.value), a.ty[1], node)
            return E(tmp, a.ty[1])
        if isinstance(idx, ast.Name) and idx.id in env and env[idx.id][0] == NATS:
            a = self.expr(node.value, env, binds)
            if a.ty != TIMES:
                raise Unsupported("%s indexed by an index array" % show_type(a.ty), node)
            tmp = self.bind(binds, "Mir.PyEG.takeIdx %s %s" % (a.term, ident(idx.id)), TIMES, node)
            return E(tmp, TIMES)
        return MP.Body.subscript(self, node, env, binds)

    def call(self, node, env, binds):
        f = node.func
        name = dotted(f)
        args = node.args
        kwnames = [k.arg for k in node.keywords]
        mod = self.m.modname
        if isinstance(f, ast.Name) and f.id in ("__extend__", "__append__", "__dictset__", "__dictappend__"):
            return self.pseudo(f.id, node, env, binds)
        # sorted(_bipartite_match(G).items())
        if isinstance(f, ast.Attribute) and f.attr == "items" and not args and not node.keywords \
                and isinstance(f.value, ast.Call) and isinstance(f.value.func, ast.Name) and f.value.func.id == "_bipartite_match":
            c = f.value
            if len(c.args) != 1 or c.keywords or "_bipartite_match" in self.locals:
                raise Unsupported("_bipartite_match(G) expected", node)
            defs = self.m.funcs.get("_bipartite_match")
            if not defs or len(defs) != 1 or "_bipartite_match" in self.m.assigned or len(defs[0].args.args) != 1:
                raise Unsupported("_bipartite_match is not a single top-level function of one parameter", node)
            g = self.expr(c.args[0], env, binds)
            if g.ty != DICT:
                raise Unsupported("_bipartite_match of a %s" % show_type(g.ty), node)
            return E("(Mir.PyEG.bipartite_match_items %s)" % g.term, PAIRS)
        if isinstance(f, ast.Name) and f.id not in self.locals:
            builtin = f.id not in self.m.funcs and f.id not in self.m.assigned and f.id not in self.m.imports
            if builtin and f.id == "sorted" and len(args) == 1 and not node.keywords:
                a = self.expr(args[0], env, binds)
                if a.ty != PAIRS:
                    raise Unsupported("sorted of a %s" % show_type(a.ty), node)
                return E("(Mir.PyEG.sortedPairs %s)" % a.term, PAIRS)
            v = VALIDATORS.get(mod)
            if not builtin and v and f.id == v[0] and not node.keywords:
                es = [self.expr(a, env, binds) for a in args]
                if [e.ty for e in es] != v[2]:
                    raise Unsupported("%s on %s" % (f.id, ", ".join(show_type(e.ty) for e in es)), node)
                self.check_extern_sig(f.id, v[2], node)
                tmp = self.bind(binds, "%s %s" % (v[1], " ".join(e.term for e in es)), NONE, node)
                return E(tmp, NONE)
        if isinstance(f, ast.Name) and f.id == "validate_tempi" and mod == "tempo" and f.id not in self.locals and args:
            self.check_validate_tempi(node)
            t = self.expr(args[0], env, binds)
            r = args[1] if len(args) == 2 and not node.keywords else (
                node.keywords[0].value if len(args) == 1 and kwnames == ["reference"] else None)
            if r is None:
                raise Unsupported("validate_tempi(tempi, reference=...) expected", node)
            rb = self.expr(r, env, binds)
            if t.ty != TIMES or rb.ty != BOOL:
                raise Unsupported("validate_tempi on (%s, %s)" % (show_type(t.ty), show_type(rb.ty)), node)
            tmp = self.bind(binds, "Mir.PyEG.validate_tempi %s %s" % (t.term, rb.term), NONE, node)
            return E(tmp, NONE)
        if isinstance(f, ast.Name) and f.id == "bool" and f.id not in self.locals and f.id not in self.m.funcs \
                and f.id not in self.m.assigned and len(args) == 1 and not node.keywords:
            a = self.expr(args[0], env, binds)
            if a.ty != BOOL:
                raise Unsupported("bool() of a %s" % show_type(a.ty), node)
            return a
        if name == "np.abs" and len(args) == 1 and not node.keywords and not (
                isinstance(args[0], ast.Call) and dotted(args[0].func) == "np.subtract.outer"):
            a = self.expr(args[0], env, binds)
            if a.ty != TIMES:
                raise Unsupported("np.abs of a %s" % show_type(a.ty), node)
            return E("(Mir.PyEG.absV %s)" % a.term, TIMES)
        if name in ("np.min", "np.max") and len(args) == 1 and not node.keywords:
            a = self.expr(args[0], env, binds)
            if a.ty == NUMS and name == "np.min":
                tmp = self.bind(binds, "Mir.PyEG.npMin %s" % a.term, NUM, node)
                return E(tmp, NUM, np=True)
            if a.ty == BOOLS:
                tmp = self.bind(binds, "Mir.PyEG.%s %s" % ("minBools" if name == "np.min" else "maxBools", a.term), BOOL, node)
                return E(tmp, BOOL)
            raise Unsupported("%s of a %s" % (name, show_type(a.ty)), node)
        if name == "np.asarray" and len(args) == 1 and not node.keywords:
            a = self.expr(args[0], env, binds)
            if a.ty != TIMES:
                raise Unsupported("np.asarray of a %s" % show_type(a.ty), node)
            return E(a.term, TIMES)
        if name == "np.argsort" and len(args) == 1 and not node.keywords:
            a = self.expr(args[0], env, binds)
            if a.ty != TIMES:
                raise Unsupported("np.argsort of a %s" % show_type(a.ty), node)
            return E("(Mir.PyEG.argsort %s)" % a.term, NATS)
        if name == "np.searchsorted" and len(args) == 2 and kwnames == ["side"]:
            side = node.keywords[0].value
            if not (isinstance(side, ast.Constant) and side.value in ("left", "right")):
                raise Unsupported("np.searchsorted(side=<not 'left' / 'right'>)", node)
            if not (isinstance(args[0], ast.Name) and args[0].id in self.sorted_arrays):
                raise Unsupported("np.searchsorted on an array that is not x[np.argsort(x)]", node)
            s, v = self.expr(args[0], env, binds), self.expr(args[1], env, binds)
            if s.ty != TIMES or v.ty != TIMES:
                raise Unsupported("np.searchsorted on (%s, %s)" % (show_type(s.ty), show_type(v.ty)), node)
            prim = "searchsortedLeft" if side.value == "left" else "searchsortedRight"
            return E("(Mir.PyEG.%s %s %s)" % (prim, s.term, v.term), NATS)
        if name == "util.intervals_to_boundaries" and len(args) == 1 and not node.keywords and mod != "util":
            a = self.expr(args[0], env, binds)
            if a.ty != INTERVALS:
                raise Unsupported("util.intervals_to_boundaries of a %s" % show_type(a.ty), node)
            return E("(Mir.PyEG.intervals_to_boundaries %s)" % a.term, TIMES)
        if name == "util.match_events" and len(args) == 3 and not node.keywords and mod != "util":
            r, e, w = [self.expr(a, env, binds) for a in args]
            if r.ty != TIMES or e.ty != TIMES or w.ty not in (NAT, INT, RAT):
                raise Unsupported("util.match_events on (%s, %s, %s)" % (show_type(r.ty), show_type(e.ty), show_type(w.ty)), node)
            um = self.m.program.module("util")
            if um is None:
                raise Unsupported("mir_eval/util.py cannot be read", node)
            sig = um.translate("match_events", node)
            if [p[1] for p in sig.params] != [TIMES, TIMES, RAT] or sig.ret != PAIRS:
                raise Unsupported("the translated util.match_events has another signature", node)
            tmp = self.bind(binds, "Mir.Gen.util.match_events %s %s %s" % (r.term, e.term, coerce(w, RAT, node)), PAIRS, node)
            return E(tmp, PAIRS)
        if name == "util.f_measure" and len(args) == 2 and mod != "util":
            kw = self.kwargs(node, ("beta",))
            p, r = self.expr(args[0], env, binds), self.expr(args[1], env, binds)
            if p.ty in (NAT, INT, RAT) and r.ty in (NAT, INT, RAT) and not p.np and not r.np:
                beta = self.expr(kw["beta"], env, binds) if kw else E("(1 : Rat)", RAT, lit=1.0)
                if beta.ty not in (NAT, INT, RAT):
                    raise Unsupported("util.f_measure(beta=<%s>)" % show_type(beta.ty), node)
                if not self.m.program.has_gen_f_measure():
                    raise Unsupported("util.f_measure is outside the subset of translator part `scalars`", node)
                tmp = self.bind(binds, "Mir.Gen.util.f_measure %s %s %s" % (
                    coerce(p, RAT, node), coerce(r, RAT, node), coerce(beta, RAT, node)), RAT, node)
                return E(tmp, RAT)
        # ---- segment.deviation ------------------------------------------------------------------------------------
        if name == "np.abs" and len(args) == 1 and not node.keywords and isinstance(args[0], ast.Call) \
                and dotted(args[0].func) == "np.subtract.outer" and len(args[0].args) == 2 and not args[0].keywords:
            a, b = self.expr(args[0].args[0], env, binds), self.expr(args[0].args[1], env, binds)
            if a.ty != TIMES or b.ty != TIMES:
                raise Unsupported("np.subtract.outer on (%s, %s)" % (show_type(a.ty), show_type(b.ty)), node)
            return E("((Mir.PyEG.absOuter %s %s), (Mir.PyM.len %s))" % (a.term, b.term, b.term), RMAT)
        if isinstance(f, ast.Attribute) and f.attr == "min" and not args and kwnames == ["axis"] \
                and isinstance(f.value, ast.Name) and f.value.id in env and env[f.value.id][0] == RMAT:
            ax = node.keywords[0].value
            if not (isinstance(ax, ast.Constant) and type(ax.value) is int and ax.value in (0, 1)):
                raise Unsupported(".min along a non-literal axis", node)
            m = ident(f.value.id)
            term = "Mir.PyEG.minAxis1 %s.1" % m if ax.value == 1 else "Mir.PyEG.minAxis0 %s.1 %s.2" % (m, m)
            tmp = self.bind(binds, term, TIMES, node)
            return E(tmp, TIMES)
        if name == "np.median" and len(args) == 1 and not node.keywords:
            a = self.expr(args[0], env, binds)
            if a.ty != TIMES:
                raise Unsupported("np.median of a %s" % show_type(a.ty), node)
            return E("(Mir.PyEG.median %s)" % a.term, ORAT)
        return MP.Body.call(self, node, env, binds)

    def check_validate_tempi(self, node):
        defs = self.m.funcs.get("validate_tempi")
        if not defs or len(defs) != 1 or "validate_tempi" in self.m.assigned:
            raise Unsupported("validate_tempi is not a single top-level function", node)
        a = defs[0].args
        if [p.arg for p in a.args] != ["tempi", "reference"] or a.vararg or a.kwarg or a.kwonlyargs:
            raise Unsupported("the signature of validate_tempi changed", node)

    def pseudo(self, fn, node, env, binds):
        args = node.args
        x = args[0].id
        if x not in env:
            raise Unsupported("container %s may be unbound here" % x, node)
        if fn in ("__extend__", "__append__"):
            v = self.expr(args[1], env, binds)
            if fn == "__extend__":
                if v.ty != NATS:
                    raise Unsupported("extend of a list of naturals by a %s" % show_type(v.ty), node)
                return E("(Mir.PyEG.extend %s %s)" % (ident(x), v.term), NATS)
            if v.ty != NAT:
                raise Unsupported("append of a %s to a list of naturals" % show_type(v.ty), node)
            return E("(Mir.PyEG.extend %s [%s])" % (ident(x), v.term), NATS)
        k = self.expr(args[1], env, binds)
        if k.ty != NAT:
            raise Unsupported("dict key of type %s" % show_type(k.ty), node)
        if fn == "__dictset__":
            if isinstance(args[2], ast.List) and not args[2].elts:
                vt = "([] : List Nat)"
            else:
                v = self.expr(args[2], env, binds)
                if v.ty != NATS:
                    raise Unsupported("dict value of type %s" % show_type(v.ty), node)
                vt = v.term
            return E("(Mir.PyEG.dictSet %s %s %s)" % (ident(x), k.term, vt), DICT)
        v = self.expr(args[2], env, binds)
        if v.ty != NAT:
            raise Unsupported("append of a %s to a dict entry" % show_type(v.ty), node)
        tmp = self.bind(binds, "Mir.PyEG.dictAppend %s %s %s" % (ident(x), k.term, v.term), DICT, node)
        return E(tmp, DICT)


def cont_marker(body, x, cont):
    def k(env2):
        body.sorted_arrays.add(x)
        return cont(env2)
    return k


# ----------------------------------------------------------------------------------------
# a whole function

def translate_def(module, fn):
    if fn.decorator_list:
        raise Unsupported("decorated function", fn)
    a = fn.args
    if a.vararg or a.kwarg or a.kwonlyargs or a.posonlyargs:
        raise Unsupported("*args / **kwargs / keyword-only parameters", fn)
    doc = doc_param_types(fn)
    params, none_params = [], []
    ndef = len(a.defaults)
    for i, p in enumerate(a.args):
        if p.arg not in doc:
            raise Unsupported("parameter %s has no documented type" % p.arg, fn)
        d = None
        k = i - (len(a.args) - ndef)
        if k >= 0:
            d = const_expr(a.defaults[k])
        if d is not None and d.ty == NONE:
            if doc[p.arg].strip().lower() != "function" or i != len(a.args) - 1:
                raise Unsupported("a parameter with default None that is not a trailing documented `function`", fn)
            none_params.append(p.arg)
            continue
        ty = param_type(doc[p.arg], fn)
        if d is not None:
            coerce(d, ty, fn)
        params.append((p.arg, ty, d))
    body = MP.strip_warnings([s for s in fn.body
                              if not (isinstance(s, ast.Expr) and isinstance(s.value, ast.Constant) and isinstance(s.value.value, str))])
    body, lists, dicts = desugar(body, [n for n, _, _ in params])
    where = "`%s.%s` (mir_eval/%s.py)" % (module.modname, fn.name, module.modname)
    if none_params:
        where += ", specialised to %s" % ", ".join("%s=None" % n for n in none_params)
    b = Body(module, fn, fn.name, params, body, what=where, none_params=none_params, lists=lists, dicts=dicts)
    return b.translate()


# ----------------------------------------------------------------------------------------
# driver handler

def val_decoder(ty, v, default=None):
    dec = {RAT: "Val.asRat?", NAT: "Val.asNat?", INT: "Val.asInt?", BOOL: "Val.asBool?", TIMES: "Val.asRats?",
           INTERVALS: "Val.asRatPairs?"}.get(ty)
    if dec is None:
        raise Unsupported("no protocol decoder for %s" % show_type(ty))
    if default is not None:
        return "let %s ← (match %s with | Val.none => some %s | _v => %s _v)" % (v, v, default, dec)
    return "let %s ← %s %s" % (v, dec, v)


def val_encoder(ty):
    if ty == TIMES:
        return "Val.ofRats"
    if ty == NATS:
        return "Val.ofNats"
    if ty == PAIRS:
        return "Val.ofNatPairs"
    if ty == ORAT:
        return "(fun (x : Option Rat) => match x with | some q => Val.rat q | none => Val.nan)"
    if ty[0] == "tup":
        n = len(ty[1])
        vs = ["x%d" % i for i in range(n)]
        return "(fun ((%s) : %s) => Val.list [%s])" % (
            ", ".join(vs), lean_type(ty), ", ".join("%s %s" % (val_encoder(t), v) for t, v in zip(ty[1], vs)))
    return SI.val_encoder(ty)


HEADER = """import MirModel.PyScalar
import MirModel.PyMat
import MirModel.PyMultipitch
import MirModel.PyEvGlue
import MirGen.Scalars
/-!
  GENERATED by harness/translate/evglue.py from mir_eval/{util,onset,beat,segment,tempo}.py — do not edit.
  One shallow definition per translated function (`Mir.Gen.<module>.<function>`; a `for` loop is the auxiliary
  `<function>_loop<k>`), over `Mir.PyEG`.  Regenerated from the working tree on every run of ./check C04;
  `MirProofs/Props/C04_GenGlue.lean` proves each of them equal to the hand-written model.
-/
set_option linter.unusedVariables false
"""


def translate_all(repo, wanted=None):
    """-> (lean text, [(module, name, Sig)], problems [(module.function, detail)])"""
    wanted = WANTED if wanted is None else wanted
    prog = Program(repo)
    problems = []
    for modname, fns in wanted:
        m = prog.module(modname)
        for fname in fns:
            if m is None:
                problems.append(("%s.%s" % (modname, fname), prog.read_problems[modname]))
                continue
            try:
                m.translate(fname)
            except Unsupported as e:
                problems.append(("%s.%s" % (modname, fname), e.detail))
    L = [HEADER]
    public, rows = [], []
    for modname, fns in wanted:
        m = prog.modules.get(modname)
        if m is None or not m.emitted:
            continue
        L += ["namespace Mir.Gen.%s" % modname, ""]
        for name, lines in m.emitted:
            L += lines + [""]
        L += ["end Mir.Gen.%s" % modname, ""]
        for name, _ in m.emitted:
            if name in m.internal:
                continue
            sig = m.sigs[name]
            public.append((modname, name, sig))
            try:
                vs = ["a%d" % i for i in range(len(sig.params))]
                decs = [val_decoder(pt, v, None if pd is None else coerce(pd, pt)) for (pn, pt, pd), v in zip(sig.params, vs)]
                enc = val_encoder(sig.ret)
            except Unsupported:
                continue
            rows.append("  | \"gen.evglue\", Val.str \"%s.%s\" :: [%s] => do\n%s      some (Except.map %s (Mir.Gen.%s.%s %s))" % (
                modname, name, ", ".join(vs), "".join("      %s\n" % d for d in decs), enc, modname, ident(name), " ".join(vs)))
    L.append("namespace Mir.Gen.EvGlue")
    L.append("")
    L.append("/-- names of the translated functions (in emission order) -/")
    L.append("def names : List String := [%s]" % ", ".join('"%s.%s"' % (mn, n) for mn, n, _ in public))
    L.append("")
    L.append("/-- protocol op `gen.evglue <\"module.function\"> <args...>` (a defaulted parameter may be sent as `none`) -/")
    L.append("def handler : Handler := fun fn args =>")
    L.append("  match fn, args with")
    L += rows
    L.append("  | _, _ => none")
    L.append("")
    L.append("end Mir.Gen.EvGlue")
    return "\n".join(L) + "\n", public, problems


def generate(repo, outdir):
    # MirGen/EvGlue.lean calls Mir.Gen.util.f_measure of MirGen/Scalars.lean: rewrite that file from the same tree (nothing
    # of it is reported here), so that the two generated files always fit together
    try:
        from translate import scalars
        scalars.generate(repo, outdir, groups=())
    except Exception:  # noqa: BLE001
        pass
    text, public, problems = translate_all(repo)
    os.makedirs(outdir, exist_ok=True)
    write_if_changed(os.path.join(outdir, "EvGlue.lean"), text)
    obligations = ["Mir.Gen.%s.%s" % (mn, n) for mn, n, _ in public]
    probs = [{"name": "evglue: %s" % f, "detail": "outside the translated subset: " + d} for f, d in problems]
    return obligations, probs


if __name__ == "__main__":
    repo = sys.argv[1] if len(sys.argv) > 1 else "/repo"
    text, public, problems = translate_all(repo)
    sys.stdout.write(text)
    for p in problems:
        sys.stderr.write("PROBLEM %s: %s\n" % p)
