"""mir_eval.hierarchy T-/L-measure kernels -> lean/MirGen/Hierarchy.lean   (AST based; mir_eval is never imported).
Translator part `hierarchy` (C17).

One SHALLOW Lean definition per translated function, `Mir.Gen.hierarchy.<function>` (a `for` loop becomes an auxiliary
structurally recursive `<function>_loop<k>` over the items, carrying the loop state; a `while` loop an auxiliary
`<function>_loop<k>` recursive on a FUEL argument, see below), over the run-time library `lean/MirModel/PyHier.lean`
(`Mir.PyH`), plus a driver handler (`Mir.Gen.Hierarchy.handler`, protocol op `gen.hierarchy <"function"> <args...>`).
`MirProofs/Props/C17_Gen.lean` proves every one of them equal to the hand-written model (`MirModel/Hierarchy.lean`) for ALL
inputs, so the C17 theorems are re-checked against what the source says *now* on every run.

The translator fails closed.  THE SUBSET (anything else => `Unsupported` => the function is not emitted => a translator
problem => a broken obligation of C17):

  def f(p, q=<literal>)   no decorators / *args / **kwargs.  Parameter kinds are DECLARED below (`DECL`, by name, in order;
                          numpydoc cannot say "array of relevance levels") and checked against the function's own numpydoc
                          text.  A declared precondition `p > 0` (`POSITIVE`) may be used for exact division by `p`; every
                          translated call site must establish it (a dominating `if p <= 0: raise ...`, or the caller's own
                          declared precondition), and the generated handler refuses arguments outside it.
  statements   docstring; `x = e`; `a, b = e`; `x op= e`; `d[k] = v` on a defaultdict created by the function;
               `xs.append(e)` on a list the function has just built (`list(...)`); `if c: ... [elif/else: ...]`
               (a fall-through `if` is ONE monadic binding of the names it re-assigns); `if p is None: p = e` for an
               optional parameter; `return e`; `raise ValueError(...)`; `warnings.warn(...)` is dropped;
               `for <targets> in <xs | range(n) | zip(a, b[, c, d]) | enumerate(xs, 1)>:` without break / continue / return;
               `while x < len(u) and y < len(v):` (a conjunction of `<name> < len(<array not assigned in the body>)`): the
               auxiliary definition takes FUEL = len(u) + len(v) + 1, one unit per iteration, and returns the
               error `other` when it runs out (Python would still be looping); that this never happens is PROVED
               (`Gen = model` would fail otherwise), not assumed.
  expressions  int / float / bool / None literals, locals, tuples, + - * (exact), `a - b` of naturals is an integer,
               `max(0, <int>)` a natural, `min` / `max` of naturals, unary -, comparisons, and / or / not, truth value of a
               number (`!= 0`), `float(x)`, `int(x)` (truncation), `len(x)`, `x[i]` (IndexError), `x[i:]`, `x[:i]`, `x[:-1]`,
               `x[1:]`, `x[<index array>]` (IndexError), `x[<slice value>]`, `slice(a[, b])`, `d[k]` of a defaultdict,
               `[e for <targets> in xs]`, `sum([...])`, `np.sum(x)`, `list(x)`, `np.unique(x, return_counts=True)`,
               `np.unique(x, return_index=True, return_counts=True)`, `np.argsort(x)`, `np.concatenate((a, b))`,
               `collections.defaultdict(lambda: <literal | slice(0)>)`, `itertools.combinations(xs, 2)`, `itertools.tee(xs)`,
               `m.shape`, `m.shape[0]`, `m[q, s]` + `.toarray()` + `.ravel()` on a sparse matrix,
               `a / b`: exact when `b` is a declared-positive parameter (or a non-zero literal), else `Mir.PyH.divF`
               (ZeroDivisionError); calls of other translated functions of hierarchy.py (positional / keyword);
               interval arrays: `np.asarray(x)`, `np.mod(t, float(p))` for a declared-positive p (number or array),
               `a - b`, `a / p`, `.astype(int)` (frame indices, truncation), `min(xs)` / `max(xs)` (ValueError when empty),
               `list(itertools.chain(*list(itertools.chain(*H))))`, `scipy.sparse.lil_matrix((n, n), dtype=np.uint8)`
               (ValueError for n < 0), `M[s, s'] = level` with slices of integer bounds on a matrix the function built,
               `.tocsr()`, `scipy.sparse.csr_matrix(M)`; labels: `util.index_labels(labels)[0]` (EXTERN: codes equal exactly for
               labels equal after str.lower), `np.triu(np.equal.outer(e, e))` and `zip(*np.where(<that>))` (the index pairs
               i <= j with equal codes, row-major), `frames[i]` (IndexError), `slice(*list(<pair>))`,
               `enumerate(zip(a, b), 1)`; the public functions: `if p is None: A else: B` on an optional parameter (a `match`,
               p narrowed in B; a `raise` inside a branch aborts it), `x = None` joined with a value (an `Option`),
               `validate_hier_intervals(h)` (EXTERN: the hand model's `validateHier`), `util.f_measure(p, r, beta=b)` (the
               already regenerated `Mir.Gen.util.f_measure`); an `int(...)` frame count passed to a kernel whose parameter is a
               natural goes through the CHECKED cast `natOfIntOpt` (error `other` when negative; proved unreachable).
               A parameter documented `number or ndarray` (`_round`) gives one definition per kind that is used
               (`_round` for numbers, `_round_nd` for (n, 2) arrays).

`python harness/translate/hierarchy.py [repo]` prints the generated file.
"""
import ast
import os
import re
import sys
from fractions import Fraction

try:
    from translate import write_if_changed
    from translate.segindex import Unsupported, ident, indent, lean_rat, dotted, assigned_names
except ImportError:  # run as a script
    sys.path.insert(0, os.path.dirname(os.path.dirname(os.path.abspath(__file__))))
    from translate import write_if_changed
    from translate.segindex import Unsupported, ident, indent, lean_rat, dotted, assigned_names

# functions of mir_eval/hierarchy.py, in emission order; REQUIRED: one that leaves the subset is a translator problem
WANTED = ["_count_inversions", "_compare_frame_rankings", "_gauc", "_round", "_hierarchy_bounds", "_lca", "_meet", "tmeasure", "lmeasure"]

NAT, INT, RAT, BOOL, UNIT = ("nat",), ("int",), ("rat",), ("bool",), ("unit",)
SLICE, ISLICE, MAT, ROW = ("slice",), ("islice",), ("mat",), ("row",)
IVALS, HIER, STRS, LABHIER, IFRAMES = ("ivals",), ("hier",), ("strs",), ("labhier",), ("iframes",)
LABKEYS, AGREE, TRIU = ("labkeys",), ("agree",), ("triu",)      # label codes; their equality matrix; its upper triangle
NUMERIC = (NAT, INT, RAT)
P = "Mir.PyH."


def VEC(t):
    return ("vec", t)


def TUP(ts):
    return ("tup", tuple(ts))


def OPT(t):
    return ("opt", t)


def DDICT(vt, dflt):
    return ("ddict", vt, dflt)


LEVELS = VEC(NAT)

# parameter kinds, by function, in order: (name, type, regex the numpydoc text of that parameter must match)
DECL = {
    "_count_inversions": [("a", LEVELS, r"np\.ndarray"), ("b", LEVELS, r"np\.ndarray")],
    "_compare_frame_rankings": [("ref", LEVELS, r"np\.ndarray"), ("est", LEVELS, r"np\.ndarray"), ("transitive", BOOL, r"bool")],
    "_gauc": [("ref_lca", MAT, r"scipy\.sparse"), ("est_lca", MAT, r"scipy\.sparse"), ("transitive", BOOL, r"bool"),
              ("window", OPT(NAT), r"number or None")],
}
# a parameter documented as `number or ndarray`: one definition per kind that is used (`<f>` for a number, `<f>_nd` for an
# (n, 2) array of intervals); a call site picks the instance by the static kind of its argument
POLY = ("poly",)
DECL.update({
    "_round": [("t", POLY, r"number or ndarray"), ("frame_size", RAT, r"number > 0")],
    "_hierarchy_bounds": [("intervals_hier", HIER, r"list of ndarray")],
    "_lca": [("intervals_hier", HIER, r"list of ndarray"), ("frame_size", RAT, r"number")],
    "_meet": [("intervals_hier", HIER, r"list of ndarray"), ("labels_hier", LABHIER, r"list of list of str"),
              ("frame_size", RAT, r"number")],
})
POLY_KINDS = [(RAT, ""), (IVALS, "_nd")]
# declared preconditions `p > 0`
DECL.update({
    "tmeasure": [("reference_intervals_hier", HIER, r"list of ndarray"), ("estimated_intervals_hier", HIER, r"list of ndarray"),
                 ("transitive", BOOL, r"bool"), ("window", OPT(RAT), r"float > 0"), ("frame_size", RAT, r"float > 0"),
                 ("beta", RAT, r"float > 0")],
    "lmeasure": [("reference_intervals_hier", HIER, r"list of ndarray"), ("reference_labels_hier", LABHIER, r"list of list of str"),
                 ("estimated_intervals_hier", HIER, r"list of ndarray"), ("estimated_labels_hier", LABHIER, r"list of ndarray"),
                 ("frame_size", RAT, r"float > 0"), ("beta", RAT, r"float > 0")],
})
# (`frame_size` of tmeasure / lmeasure is NOT declared positive: the functions check it themselves, and the translated check is
# what establishes the precondition of `_lca` / `_meet` / `_round` at their call sites)
POSITIVE = {"_round": ["frame_size"], "_lca": ["frame_size"], "_meet": ["frame_size"], "tmeasure": ["beta"], "lmeasure": ["beta"]}


def lean_type(t):
    k = t[0]
    if k == "nat":
        return "Nat"
    if k == "int":
        return "Int"
    if k == "rat":
        return "Rat"
    if k == "bool":
        return "Bool"
    if k == "unit":
        return "Unit"
    if k == "vec":
        return "(List %s)" % lean_type(t[1])
    if k == "opt":
        return "(Option %s)" % lean_type(t[1])
    if k == "tup":
        return "(%s)" % " × ".join(lean_type(x) for x in t[1])
    if k == "slice":
        return "Mir.PyH.Slice"
    if k == "islice":
        return "Mir.PyH.ISlice"
    if k == "ddict":
        return "(Mir.PyH.DDict %s)" % lean_type(t[1])
    if k in ("mat",):
        return "Mir.Hierarchy.Mat"
    if k == "row":
        return "(List Nat)"
    if k == "ivals":
        return "Mir.Hierarchy.Ivals"
    if k == "hier":
        return "Mir.Hierarchy.Hier"
    if k == "strs":
        return "(List String)"
    if k == "labhier":
        return "(List (List String))"
    if k == "iframes":
        return "(List (Int × Int))"
    if k in ("labkeys", "agree", "triu"):
        return "(List String)"
    raise Unsupported("no Lean type for %r" % (t,))


def show_type(t):
    k = t[0]
    if k in ("vec", "opt"):
        return "%s[%s]" % (k, show_type(t[1]))
    if k == "ddict":
        return "defaultdict[%s]" % show_type(t[1])
    if k == "tup":
        return "(%s)" % ", ".join(show_type(x) for x in t[1])
    return k


def join(a, b, node=None):
    if a == b:
        return a
    if a in NUMERIC and b in NUMERIC:
        return NUMERIC[max(NUMERIC.index(a), NUMERIC.index(b))]
    if a[0] == "tup" and b[0] == "tup" and len(a[1]) == len(b[1]):
        return TUP([join(x, y, node) for x, y in zip(a[1], b[1])])
    raise Unsupported("values of type %s and %s meet on one variable / return" % (show_type(a), show_type(b)), node)


class E:
    """a translated PURE expression: Lean term, static type, literal value, tuple parts"""
    __slots__ = ("term", "ty", "lit", "elts")

    def __init__(self, term, ty, lit=None, elts=None):
        self.term, self.ty, self.lit, self.elts = term, ty, lit, elts


def coerce(e, to, node=None):
    if e.ty == to:
        return e.term
    if e.ty in NUMERIC and to in NUMERIC and NUMERIC.index(e.ty) < NUMERIC.index(to):
        if e.lit is not None and type(e.lit) in (int, float):
            q = Fraction(repr(e.lit)) if type(e.lit) is float else Fraction(e.lit)
            if to == RAT:
                return lean_rat(q)
            return "(%d : %s)" % (q.numerator, lean_type(to))
        return "((%s : %s) : %s)" % (e.term, lean_type(e.ty), lean_type(to))
    if to[0] == "tup" and e.ty[0] == "tup" and e.elts is not None and len(e.elts) == len(to[1]):
        return "(%s)" % ", ".join(coerce(x, t, node) for x, t in zip(e.elts, to[1]))
    if to[0] == "opt" and e.ty == to[1]:
        return "(some %s)" % e.term
    if to[0] == "opt" and e.ty == UNIT:
        return "none"
    raise Unsupported("cannot convert %s to %s" % (show_type(e.ty), show_type(to)), node)


def const_expr(x):
    neg = False
    if isinstance(x, ast.UnaryOp) and isinstance(x.op, ast.USub) and isinstance(x.operand, ast.Constant):
        neg, x = True, x.operand
    if not isinstance(x, ast.Constant):
        raise Unsupported("not a literal constant", x)
    v = x.value
    if v is None and not neg:
        return E("()", UNIT)
    if type(v) is bool and not neg:
        return E("true" if v else "false", BOOL, lit=v)
    if type(v) is int:
        v = -v if neg else v
        return E("(%d : Nat)" % v, NAT, lit=v) if v >= 0 else E("(%d : Int)" % v, INT, lit=v)
    if type(v) is float:
        v = -v if neg else v
        if v != v or v in (float("inf"), float("-inf")):
            raise Unsupported("non-finite float literal", x)
        return E(lean_rat(Fraction(repr(v))), RAT, lit=v)
    raise Unsupported("literal of type %s" % type(v).__name__, x)


def is_none(x):
    return isinstance(x, ast.Constant) and x.value is None


def read_names(nodes, names):
    out = set()
    for st in nodes:
        for nd in ast.walk(st):
            if isinstance(nd, ast.Name) and isinstance(nd.ctx, ast.Load) and nd.id in names:
                out.add(nd.id)
    return out


def stored_names(stmts):
    """names assigned by the statements, incl. item stores `x[k] = v` and `x.append(v)` (they rebind x in the translation)"""
    out = assigned_names(stmts)
    for st in stmts:
        for nd in ast.walk(st):
            nm = None
            if isinstance(nd, ast.Subscript) and isinstance(nd.ctx, ast.Store) and isinstance(nd.value, ast.Name):
                nm = nd.value.id
            if isinstance(nd, ast.Expr) and isinstance(nd.value, ast.Call) and isinstance(nd.value.func, ast.Attribute) \
                    and nd.value.func.attr == "append" and isinstance(nd.value.func.value, ast.Name):
                nm = nd.value.func.value.id
            if nm is not None and nm not in out:
                out.append(nm)
    return out


def terminates(sts):
    """every path through the statement list ends in return / raise"""
    if not sts:
        return False
    s = sts[-1]
    if isinstance(s, (ast.Return, ast.Raise)):
        return True
    if isinstance(s, ast.If):
        return terminates(s.body) and terminates(s.orelse)
    return False


def has_return(sts):
    for st in sts:
        for nd in ast.walk(st):
            if isinstance(nd, ast.Return):
                return True
    return False


class Sig:
    def __init__(self, name, params, ret, positive=()):
        self.name, self.params, self.ret = name, params, ret      # params: [(name, type, default E | None)]
        self.positive = set(positive)


class Module:
    def __init__(self, source):
        self.tree = ast.parse(source)
        self.funcs, self.assigned, self.imports = {}, set(), {}
        for st in self.tree.body:
            if isinstance(st, ast.FunctionDef):
                self.funcs.setdefault(st.name, []).append(st)
            elif isinstance(st, (ast.Assign, ast.AugAssign, ast.AnnAssign)):
                self.assigned.update(assigned_names([st]))
            elif isinstance(st, ast.Import):
                for a in st.names:
                    self.imports[a.asname or a.name.split(".")[0]] = a.name if a.asname else a.name.split(".")[0]
            elif isinstance(st, ast.ImportFrom):
                for a in st.names:
                    self.imports[a.asname or a.name] = "%s%s.%s" % ("." * st.level, st.module or "", a.name)
        self.sigs, self.failed, self.emitted, self.in_progress, self.internal = {}, {}, [], set(), set()

    def check_globals(self, node):
        want = {"np": "numpy", "scipy": "scipy", "collections": "collections", "itertools": "itertools",
                "warnings": "warnings"}
        for nm, src in want.items():
            if nm in self.assigned or nm in self.funcs:
                raise Unsupported("module-level name %s is rebound" % nm, node)
            if self.imports.get(nm) != src:
                raise Unsupported("`%s` is not the module %s" % (nm, src), node)
        if "util" in self.assigned or "util" in self.funcs or self.imports.get("util") not in (".util", "..util", "mir_eval.util"):
            raise Unsupported("`util` is not mir_eval.util", node)

    def translate(self, fname, node=None, variant=0):
        key = fname + (POLY_KINDS[variant][1] if variant else "")
        if key in self.sigs:
            return self.sigs[key]
        if key in self.failed:
            raise Unsupported("callee %s is outside the subset (%s)" % (key, self.failed[key]), node)
        defs = self.funcs.get(fname)
        if not defs:
            raise Unsupported("no top-level function %s in hierarchy.py" % fname, node)
        if len(defs) != 1 or fname in self.assigned:
            raise Unsupported("%s is defined more than once" % fname, node)
        if key in self.in_progress:
            raise Unsupported("recursive call of %s" % fname, node)
        self.in_progress.add(key)
        try:
            self.check_globals(defs[0])
            sigs_lines = translate_def(self, defs[0], variant)
        except Unsupported as e:
            self.failed[key] = e.detail
            raise
        except RecursionError:
            self.failed[key] = "expression too deep"
            raise Unsupported(self.failed[key], node)
        finally:
            self.in_progress.discard(key)
        for sig, lines in sigs_lines:
            self.sigs[sig.name] = sig
            self.emitted.append((sig.name, lines))
        return self.sigs[key]


# ----------------------------------------------------------------------------------------
# one function

class Body:
    def __init__(self, module, fn, params, positive, what, name=None):
        self.m, self.fn, self.name, self.params, self.what = module, fn, name or fn.name, params, what
        self.positive0 = set(positive)
        self.locals = set(stored_names(fn.body)) | {a.arg for a in fn.args.args}
        self.ret_ty, self.ret_types = None, []

    # -- bookkeeping ------------------------------------------------------------------------
    def fresh(self):
        self.tmp += 1
        return "_t%d" % self.tmp

    def bind(self, binds, term, ty):
        tmp = self.fresh()
        binds.append((tmp, term, ty))
        return tmp

    @staticmethod
    def bind_lines(binds):
        return ["let %s : %s ← %s" % (n, lean_type(t), term) for n, term, t in binds]

    def translate(self):
        env0 = {p[0]: p[1] for p in self.params}

        def run():
            self.tmp, self.nloops, self.aux = 0, 0, []
            self.owned = set()                 # lists built by this function (`.append` is admitted on them)
            self.positive = set(self.positive0)
            return self.stmts(list(self.body()), dict(env0), self.fallthrough)
        self.ret_ty, self.ret_types = None, []
        run()
        if not self.ret_types:
            raise Unsupported("no path returns", self.fn)
        rt = self.ret_types[0]
        for t in self.ret_types[1:]:
            rt = join(rt, t, self.fn)
        self.ret_ty = rt
        lines = run()
        sig = Sig(self.name, self.params, rt, self.positive0)
        plist = " ".join("(%s : %s%s)" % (ident(n), lean_type(t), "" if d is None else " := %s" % self.default_term(d, t))
                         for n, t, d in self.params)
        out = ["/-- %s -/" % self.what, "def %s %s : Py %s := do" % (ident(self.name), plist, lean_type(rt))]
        out += indent(lines)
        return self.aux + [(sig, out)]

    def body(self):
        return [s for s in self.fn.body
                if not (isinstance(s, ast.Expr) and isinstance(s.value, ast.Constant) and isinstance(s.value.value, str))]

    def default_term(self, d, t):
        if d.ty == UNIT and t[0] == "opt":
            return "none"
        return coerce(d, t, self.fn)

    def fallthrough(self, env):
        return self.emit_return(E("()", UNIT), self.fn)

    def emit_return(self, e, node):
        if self.ret_ty is None:
            self.ret_types.append(e.ty)
            return ["pure ?"]
        return ["pure %s" % coerce(e, self.ret_ty, node)]

    # -- statements -------------------------------------------------------------------------
    def stmts(self, sts, env, k):
        if not sts:
            return k(env)
        s, rest = sts[0], sts[1:]

        def cont(env2):
            return self.stmts(rest, env2, k)

        if isinstance(s, ast.Pass):
            return cont(env)
        if isinstance(s, ast.Expr) and isinstance(s.value, ast.Constant) and isinstance(s.value.value, str):
            return cont(env)
        if isinstance(s, ast.Expr) and isinstance(s.value, ast.Call) and dotted(s.value.func) == "warnings.warn":
            return cont(env)
        if isinstance(s, ast.Return):
            binds = []
            e = E("()", UNIT) if s.value is None else self.expr(s.value, env, binds)
            return self.bind_lines(binds) + self.emit_return(e, s)
        if isinstance(s, ast.Raise):
            return ["throw %s" % self.exc_class(s)]
        if isinstance(s, ast.Expr):
            return self.expr_stmt(s, env, cont)
        if isinstance(s, ast.Assign):
            if len(s.targets) != 1:
                raise Unsupported("chained assignment", s)
            if isinstance(s.targets[0], ast.Subscript):
                return self.item_store(s, env, cont)
            return self.assign(s.targets[0], s.value, env, cont, s)
        if isinstance(s, ast.AugAssign):
            t = s.target
            if not (isinstance(t, ast.Name) and t.id in env):
                raise Unsupported("augmented assignment to anything but a defined local", s)
            if env[t.id] not in NUMERIC:
                raise Unsupported("augmented assignment to a %s" % show_type(env[t.id]), s)
            val = ast.BinOp(left=ast.Name(id=t.id, ctx=ast.Load()), op=s.op, right=s.value)
            ast.copy_location(val, s)
            ast.copy_location(val.left, s)
            return self.assign(t, val, env, cont, s)
        if isinstance(s, ast.If):
            return self.if_stmt(s, rest, env, cont)
        if isinstance(s, ast.For):
            return self.for_loop(s, rest, env, cont)
        if isinstance(s, ast.While):
            return self.while_loop(s, rest, env, cont)
        raise Unsupported("statement %s" % type(s).__name__, s)

    def exc_class(self, s):
        x = s.exc
        if isinstance(x, ast.Call):
            x = x.func
        if isinstance(x, ast.Name) and x.id == "ValueError" and x.id not in self.locals and x.id not in self.m.funcs \
                and x.id not in self.m.assigned and x.id not in self.m.imports and s.cause is None:
            return "PyErr.valueError"
        raise Unsupported("raise of anything but ValueError", s)

    def expr_stmt(self, s, env, cont):
        c = s.value
        if isinstance(c, ast.Call) and isinstance(c.func, ast.Attribute) and c.func.attr == "append" \
                and isinstance(c.func.value, ast.Name) and len(c.args) == 1 and not c.keywords:
            x = c.func.value.id
            if x not in env or env[x][0] != "vec":
                raise Unsupported(".append on anything but a local list", s)
            if x not in self.owned:
                raise Unsupported(".append on %s, which may be shared with the caller / is not a Python list" % x, s)
            binds = []
            v = self.expr(c.args[0], env, binds)
            line = "let %s : %s := (%s ++ [%s])" % (ident(x), lean_type(env[x]), ident(x), coerce(v, env[x][1], s))
            return self.bind_lines(binds) + [line] + cont(env)
        binds = []
        self.expr(c, env, binds)
        if not binds:
            raise Unsupported("expression statement without effect", s)
        return self.bind_lines(binds) + cont(env)

    def item_store(self, s, env, cont):
        t = s.targets[0]
        if not (isinstance(t.value, ast.Name) and t.value.id in env):
            raise Unsupported("item assignment to anything but a local", s)
        x = t.value.id
        ty = env[x]
        binds = []
        if ty[0] == "ddict":
            kx = self.expr(t.slice, env, binds)
            v = self.expr(s.value, env, binds)
            if kx.ty != NAT:
                raise Unsupported("defaultdict key of type %s" % show_type(kx.ty), s)
            line = "let %s : %s := (%sdictSet %s %s %s)" % (ident(x), lean_type(ty), P, ident(x), kx.term, coerce(v, ty[1], s))
            return self.bind_lines(binds) + [line] + cont(env)
        if ty == MAT and isinstance(t.slice, ast.Tuple) and len(t.slice.elts) == 2:
            if x not in self.owned:
                raise Unsupported("item assignment into %s, which is not a lil_matrix built by this function" % x, s)
            r, c = self.expr(t.slice.elts[0], env, binds), self.expr(t.slice.elts[1], env, binds)
            v = self.expr(s.value, env, binds)
            if r.ty != ISLICE or c.ty != ISLICE or v.ty != NAT:
                raise Unsupported("%s[<%s>, <%s>] = <%s>" % (x, show_type(r.ty), show_type(c.ty), show_type(v.ty)), s)
            line = "let %s : %s := (%ssetBlock %s %s %s %s)" % (ident(x), lean_type(ty), P, ident(x), r.term, c.term, v.term)
            return self.bind_lines(binds) + [line] + cont(env)
        raise Unsupported("item assignment into a %s" % show_type(ty), s)

    def assign(self, target, value, env, cont, node):
        binds = []
        if isinstance(target, ast.Name):
            e = self.expr(value, env, binds)
            x = target.id
            if e.ty == UNIT:
                # `x = None`: the name holds no value on this path; admitted only where a `match` joins it with a value
                env2 = dict(env)
                env2[x] = UNIT
                return self.bind_lines(binds) + cont(env2)
            if x in env and env[x] != e.ty:
                if env[x] in NUMERIC and e.ty in NUMERIC and NUMERIC.index(e.ty) < NUMERIC.index(env[x]):
                    e = E(coerce(e, env[x], node), env[x])        # `score = 0` after `score = 0.0`
                elif env[x][0] == "opt" or e.ty[0] == "opt":
                    raise Unsupported("re-binding %s with another type" % x, node)
            env2 = dict(env)
            env2[x] = e.ty
            keeps = self.keeps_positive(value, env)
            self.positive.discard(x)
            if keeps:
                self.positive.add(x)
            if self.builds_list(value):
                self.owned.add(x)
            else:
                self.owned.discard(x)
            return self.bind_lines(binds) + ["let %s : %s := %s" % (ident(x), lean_type(e.ty), e.term)] + cont(env2)
        if isinstance(target, (ast.Tuple, ast.List)) and all(isinstance(t, ast.Name) for t in target.elts):
            names = [t.id for t in target.elts]
            if len(set(names)) != len(names):
                raise Unsupported("repeated unpacking target", node)
            e = self.expr(value, env, binds)
            if e.ty[0] != "tup" or len(e.ty[1]) != len(names):
                raise Unsupported("unpacking a value of type %s into %d names" % (show_type(e.ty), len(names)), node)
            env2 = dict(env)
            for n, t in zip(names, e.ty[1]):
                env2[n] = t
                self.positive.discard(n)
                self.owned.discard(n)
            return self.bind_lines(binds) + [
                "let (%s) : %s := %s" % (", ".join(ident(n) for n in names), lean_type(e.ty), e.term)] + cont(env2)
        raise Unsupported("assignment target %s" % type(target).__name__, node)

    def keeps_positive(self, value, env):
        """`float(p)` / `p` of a positive p"""
        if isinstance(value, ast.Call) and isinstance(value.func, ast.Name) and value.func.id == "float" and len(value.args) == 1:
            value = value.args[0]
        return isinstance(value, ast.Name) and value.id in self.positive

    @staticmethod
    def builds_list(value):
        """the value is a container this function has just built (a Python list, a lil_matrix): in-place updates allowed"""
        return (isinstance(value, ast.Call) and isinstance(value.func, ast.Name) and value.func.id == "list") \
            or (isinstance(value, ast.Call) and dotted(value.func) == "scipy.sparse.lil_matrix") \
            or isinstance(value, (ast.List, ast.ListComp))

    # -- if ---------------------------------------------------------------------------------
    def if_stmt(self, s, rest, env, cont):
        # `if p is None: p = e` on an optional parameter
        t = s.test
        if isinstance(t, ast.Compare) and len(t.ops) == 1 and isinstance(t.ops[0], ast.Is) and isinstance(t.left, ast.Name) \
                and is_none(t.comparators[0]):
            x = t.left.id
            if x not in env or env[x][0] != "opt":
                raise Unsupported("`is None` on a value that is not an optional parameter", s)
            if s.orelse:
                return self.if_none_else(s, x, env, cont)
            if len(s.body) != 1 or not (isinstance(s.body[0], ast.Assign) and len(s.body[0].targets) == 1
                                        and isinstance(s.body[0].targets[0], ast.Name)
                                        and s.body[0].targets[0].id == x):
                raise Unsupported("`if p is None:` with a body other than `p = <e>`", s)
            binds = []
            env0 = dict(env)
            del env0[x]
            e = self.expr(s.body[0].value, env0, binds)
            inner = env[x][1]
            if binds:
                raise Unsupported("`if p is None: p = <e>` whose value can raise", s)
            line = "let %s : %s := (match %s with | none => %s | some _v => _v)" % (
                ident(x), lean_type(inner), ident(x), coerce(e, inner, s))
            env2 = dict(env)
            env2[x] = inner
            return [line] + cont(env2)
        binds = []
        c = self.cond(s.test, env, binds)
        pre = self.bind_lines(binds)
        t_body, t_else = terminates(s.body), terminates(s.orelse)
        if t_body or t_else:
            # a guard: the terminated branch does not reach the continuation (it is emitted once)
            saved = set(self.positive)
            guard_pos = self.guard_positive(s.test) if t_body and not s.orelse else None
            then_lines = self.stmts(list(s.body), dict(env), cont)
            self.positive = set(saved)
            if guard_pos:
                self.positive.add(guard_pos)
            else_lines = self.stmts(list(s.orelse), dict(env), cont)
            return pre + ["if %s then do" % c] + indent(then_lines) + ["else do"] + indent(else_lines)
        if has_return(s.body) or has_return(s.orelse):
            raise Unsupported("an `if` with a return on some but not all paths of a branch", s)
        # fall-through `if`: ONE monadic binding of the names it (re-)assigns
        wr_a, wr_b = stored_names(list(s.body)), stored_names(list(s.orelse))
        names = sorted(n for n in wr_a + [m for m in wr_b if m not in wr_a]
                       if n in env or (n in wr_a and n in wr_b))
        if not names:
            raise Unsupported("an `if` without effect on the function's state", s)
        results = []

        def branch(sts):
            def done(envb):
                results.append(envb)
                return ["pure ?"]
            return self.stmts(list(sts), dict(env), done)
        saved_owned, saved_pos = set(self.owned), set(self.positive)
        la = branch(s.body)
        owned_a = set(self.owned)
        self.owned, self.positive = set(saved_owned), set(saved_pos)
        lb = branch(s.orelse)
        self.owned &= owned_a
        self.positive = saved_pos - set(names)
        ea, eb = results
        tys = []
        for n in names:
            if n not in ea or n not in eb:
                raise Unsupported("%s is assigned on one branch only and was not defined before" % n, s)
            tys.append(join(ea[n], eb[n], s))
        tup = ident(names[0]) if len(names) == 1 else "(%s)" % ", ".join(ident(n) for n in names)
        ty = lean_type(tys[0]) if len(names) == 1 else lean_type(TUP(tys))

        def close(lines, envb):
            vals = [coerce(E(ident(n), envb[n]), t, s) for n, t in zip(names, tys)]
            pad = lines[-1][:len(lines[-1]) - len(lines[-1].lstrip())]
            return lines[:-1] + [pad + "pure %s" % (vals[0] if len(vals) == 1 else "(%s)" % ", ".join(vals))]
        la, lb = close(la, ea), close(lb, eb)
        env2 = dict(env)
        for n, t in zip(names, tys):
            env2[n] = t
        out = pre + ["let %s : %s ← (if %s then (do" % (tup, ty, c)] + indent(la, 4)
        out[-1] += ")"
        out += ["  else (do"] + indent(lb, 4)
        out[-1] += "))"
        return out + cont(env2)

    def if_none_else(self, s, x, env, cont):
        """`if p is None: A else: B` for an optional p, both branches falling through (a `raise` inside aborts the
        do-block): ONE monadic binding of the names the branches assign, by `match p`; p is narrowed in B"""
        if has_return(s.body) or has_return(s.orelse) or terminates(s.body) or terminates(s.orelse):
            raise Unsupported("`if p is None: ... else: ...` with a return / a terminated branch", s)
        wr_a, wr_b = stored_names(list(s.body)), stored_names(list(s.orelse))
        names = sorted(n for n in wr_a + [m for m in wr_b if m not in wr_a] if n in env or (n in wr_a and n in wr_b))
        if not names or x in names:
            raise Unsupported("`if p is None: ... else: ...` that assigns nothing / assigns p", s)
        results = []

        def branch(sts, envb):
            def done(e):
                results.append(e)
                return ["pure ?"]
            return self.stmts(list(sts), envb, done)
        saved_owned, saved_pos = set(self.owned), set(self.positive)
        env_a = dict(env)
        del env_a[x]
        la = branch(s.body, env_a)
        owned_a = set(self.owned)
        self.owned, self.positive = set(saved_owned), set(saved_pos)
        env_b = dict(env)
        env_b[x] = env[x][1]
        lb = branch(s.orelse, env_b)
        self.owned &= owned_a
        self.positive = saved_pos - set(names)
        if len(results) != 2:
            raise Unsupported("a branch of `if p is None` reaches its end on several paths", s)
        ea, eb = results
        tys = []
        for n in names:
            if n not in ea or n not in eb:
                raise Unsupported("%s is assigned on one branch only and was not defined before" % n, s)
            ta, tb = ea[n], eb[n]
            if ta == UNIT and tb != UNIT:
                t = OPT(tb) if tb[0] != "opt" else tb
            elif tb == UNIT and ta != UNIT:
                t = OPT(ta) if ta[0] != "opt" else ta
            else:
                t = join(ta, tb, s)
            tys.append(t)
        tup = ident(names[0]) if len(names) == 1 else "(%s)" % ", ".join(ident(n) for n in names)
        ty = lean_type(tys[0]) if len(names) == 1 else lean_type(TUP(tys))

        def close(lines, envb):
            vals = [coerce(E(ident(n) if envb[n] != UNIT else "()", envb[n]), t, s) for n, t in zip(names, tys)]
            pad = lines[-1][:len(lines[-1]) - len(lines[-1].lstrip())]
            return lines[:-1] + [pad + "pure %s" % (vals[0] if len(vals) == 1 else "(%s)" % ", ".join(vals))]
        la, lb = close(la, ea), close(lb, eb)
        env2 = dict(env)
        for n, t in zip(names, tys):
            env2[n] = t
        out = ["let %s : %s ← (match %s with" % (tup, ty, ident(x)), "  | none => (do"] + indent(la, 6)
        out[-1] += ")"
        out += ["  | some %s => (do" % ident(x)] + indent(lb, 6)
        out[-1] += "))"
        return out + cont(env2)

    def guard_positive(self, test):
        """`if p <= 0: raise ...`  ->  p is positive afterwards"""
        if isinstance(test, ast.Compare) and len(test.ops) == 1 and isinstance(test.ops[0], ast.LtE) \
                and isinstance(test.left, ast.Name) and isinstance(test.comparators[0], ast.Constant) \
                and type(test.comparators[0].value) in (int, float) and test.comparators[0].value == 0:
            return test.left.id
        return None

    # -- loops ------------------------------------------------------------------------------
    def loop_common(self, s, rest, env, body_targets):
        if s.orelse:
            raise Unsupported("loop ... else", s)
        for nd in ast.walk(s):
            if isinstance(nd, (ast.Return, ast.Break, ast.Continue, ast.Yield, ast.YieldFrom, ast.Raise)):
                raise Unsupported("return / raise / break / continue inside a loop", nd)
        written = stored_names(list(s.body))
        if set(written) & set(body_targets):
            raise Unsupported("the loop body assigns a loop target", s)
        carried = sorted(n for n in written if n in env)        # alphabetical: stable under statement reordering
        local = [n for n in written if n not in env] + list(body_targets)
        after = read_names(rest, set(local))
        if after:
            raise Unsupported("loop-local name(s) %s are read after the loop" % ", ".join(sorted(after)), s)
        if not carried:
            raise Unsupported("a loop without effect on the function's state", s)
        for n in carried:
            if env[n][0] == "opt":
                raise Unsupported("loop-carried optional %s" % n, s)
        reads = read_names(list(s.body) + ([s.test] if isinstance(s, ast.While) else []), set(env))
        free = [n for n in env if n in reads and n not in carried and n not in local]
        self.nloops += 1
        lname = "%s_loop%d" % (self.name, self.nloops)
        self.m.internal.add(lname)
        return carried, free, lname

    def loop_again(self, lname, free, mid, carried, env, s):
        def again(envb):
            for n in carried:
                if envb.get(n) != env[n]:
                    raise Unsupported("the loop changes the type of %s from %s to %s" % (
                        n, show_type(env[n]), show_type(envb.get(n, UNIT))), s)
            return ["%s %s" % (lname, " ".join([ident(n) for n in free] + [mid] + [ident(n) for n in carried]))]
        return again

    def for_loop(self, s, rest, env, cont):
        binds = []
        items, pat, tenv = self.iterable(s.iter, s.target, env, binds, s)
        pre_lines = self.bind_lines(binds)          # the iterable is evaluated once, before the first iteration
        carried, free, lname = self.loop_common(s, rest, env, list(tenv))
        env2 = dict(env)
        env2.update(tenv)
        saved_owned = set(self.owned)
        body_lines = self.stmts(list(s.body), env2, self.loop_again(lname, free, "rest__", carried, env, s))
        self.owned = saved_owned & self.owned
        cty = [env[n] for n in carried]
        cret = lean_type(cty[0]) if len(cty) == 1 else lean_type(TUP(cty))
        ctuple = ident(carried[0]) if len(carried) == 1 else "(%s)" % ", ".join(ident(n) for n in carried)
        head = "def %s %s: List %s → %s → Py %s" % (
            lname, "".join("(%s : %s) " % (ident(n), lean_type(env[n])) for n in free), items[1],
            " → ".join(lean_type(t) for t in cty), cret)
        lines = ["/-- the `for` loop of `hierarchy.%s` at source line %d: remaining items, loop state %s -/" % (
            self.fn.name, s.lineno, ", ".join(carried)), head,
            "  | [], %s => pure %s" % (", ".join(ident(n) for n in carried), ctuple),
            "  | %s :: rest__, %s => do" % (pat, ", ".join(ident(n) for n in carried))]
        lines += indent(body_lines, 6)
        self.aux.append((Sig(lname, [], TUP(cty) if len(cty) > 1 else cty[0]), lines))
        call = "let %s : %s ← %s %s" % (ctuple, cret, lname, " ".join([ident(n) for n in free] + [items[0]] + [ident(n) for n in carried]))
        return pre_lines + [call] + cont(dict(env))

    def iterable(self, it, target, env, binds, node):
        """-> ((items term, Lean item type), Lean pattern, {target name: type})"""
        def names_of(t, n):
            if isinstance(t, ast.Tuple) and len(t.elts) == n and all(isinstance(e, ast.Name) for e in t.elts):
                ns = [e.id for e in t.elts]
                if len(set(ns)) == n:
                    return ns
            raise Unsupported("loop target that is not %d distinct names" % n, node)

        def builtin(nd, name):
            return (isinstance(nd, ast.Call) and isinstance(nd.func, ast.Name) and nd.func.id == name and self.is_builtin(name)
                    and not nd.keywords)
        if builtin(it, "range") and len(it.args) == 1:
            n = self.expr(it.args[0], env, binds)
            if n.ty != NAT or not isinstance(target, ast.Name):
                raise Unsupported("range(<%s>)" % show_type(n.ty), node)
            return ("(List.range %s)" % n.term, "Nat"), ident(target.id), {target.id: NAT}
        if builtin(it, "zip") and len(it.args) == 1 and isinstance(it.args[0], ast.Starred):
            w = it.args[0].value
            if isinstance(w, ast.Call) and dotted(w.func) == "np.where" and len(w.args) == 1 and not w.keywords:
                x = self.expr(w.args[0], env, binds)
                if x.ty == TRIU:
                    ns = names_of(target, 2)
                    return (("(%striuAgree %s)" % (P, x.term), "(Nat × Nat)"), "(%s, %s)" % (ident(ns[0]), ident(ns[1])),
                            {ns[0]: NAT, ns[1]: NAT})
            raise Unsupported("zip(*...) other than zip(*np.where(np.triu(np.equal.outer(e, e))))", node)
        if builtin(it, "zip") and len(it.args) in (2, 4):
            es = [self.expr(a, env, binds) for a in it.args]
            if any(e.ty[0] != "vec" for e in es):
                raise Unsupported("zip of %s" % ", ".join(show_type(e.ty) for e in es), node)
            ns = names_of(target, len(es))
            tys = [e.ty[1] for e in es]
            fn = "List.zip" if len(es) == 2 else P + "zip4"
            return (("(%s %s)" % (fn, " ".join(e.term for e in es)), lean_type(TUP(tys))),
                    "(%s)" % ", ".join(ident(n) for n in ns), dict(zip(ns, tys)))
        if builtin(it, "enumerate") and len(it.args) == 2:
            st = const_expr(it.args[1])
            if builtin(it.args[0], "zip") and len(it.args[0].args) == 2:
                za, zb = [self.expr(a, env, binds) for a in it.args[0].args]
                xs = E("(List.zip %s %s)" % (za.term, zb.term), VEC(TUP([self.elem_type(za.ty), self.elem_type(zb.ty)])))
            else:
                xs = self.expr(it.args[0], env, binds)
            if xs.ty[0] != "vec" and xs.ty not in (HIER,) or st.ty != NAT:
                raise Unsupported("enumerate(<%s>, <%s>)" % (show_type(xs.ty), show_type(st.ty)), node)
            ety = self.elem_type(xs.ty)
            if not (isinstance(target, ast.Tuple) and len(target.elts) == 2 and isinstance(target.elts[0], ast.Name)):
                raise Unsupported("enumerate(...) without an `i, x` target", node)
            i = target.elts[0].id
            if isinstance(target.elts[1], ast.Name):
                pat, tenv = ident(target.elts[1].id), {target.elts[1].id: ety}
            elif ety[0] == "tup":
                ns = names_of(target.elts[1], len(ety[1]))
                pat, tenv = "(%s)" % ", ".join(ident(n) for n in ns), dict(zip(ns, ety[1]))
            else:
                raise Unsupported("structured loop target over %s" % show_type(ety), node)
            if i in tenv:
                raise Unsupported("repeated loop target", node)
            tenv[i] = NAT
            return (("(List.zipIdx %s %s)" % (xs.term, st.term), "(%s × Nat)" % lean_type(ety)), "(%s, %s)" % (pat, ident(i)), tenv)
        xs = self.expr(it, env, binds)
        ety = self.elem_type(xs.ty)
        if isinstance(target, ast.Name):
            return (xs.term, lean_type(ety)), ident(target.id), {target.id: ety}
        if ety[0] == "tup":
            ns = names_of(target, len(ety[1]))
            return (xs.term, lean_type(ety)), "(%s)" % ", ".join(ident(n) for n in ns), dict(zip(ns, ety[1]))
        raise Unsupported("structured loop target over %s" % show_type(ety), node)

    def elem_type(self, t):
        if t[0] == "vec":
            return t[1]
        if t == HIER:
            return IVALS
        if t == LABHIER:
            return STRS
        if t == IFRAMES:
            return TUP([INT, INT])
        raise Unsupported("iteration over a %s" % show_type(t))

    def while_loop(self, s, rest, env, cont):
        # fuel from the loop condition: a conjunction of `<name> < len(<array>)`
        conj = s.test.values if isinstance(s.test, ast.BoolOp) and isinstance(s.test.op, ast.And) else [s.test]
        written = set(stored_names(list(s.body)))
        fuel = []
        for c in conj:
            ok = (isinstance(c, ast.Compare) and len(c.ops) == 1 and isinstance(c.ops[0], ast.Lt) and isinstance(c.left, ast.Name)
                  and isinstance(c.comparators[0], ast.Call) and isinstance(c.comparators[0].func, ast.Name)
                  and c.comparators[0].func.id == "len" and self.is_builtin("len") and len(c.comparators[0].args) == 1
                  and isinstance(c.comparators[0].args[0], ast.Name) and not c.comparators[0].keywords)
            if not ok:
                raise Unsupported("a while loop whose condition is not a conjunction of `<name> < len(<array>)`", s)
            arr = c.comparators[0].args[0].id
            if arr in written or arr not in env or env[arr][0] != "vec":
                raise Unsupported("the bound %s of the while loop is assigned in its body / is not an array" % arr, s)
            fuel.append("%slen %s" % (P, ident(arr)))
        binds = []
        c = self.cond(s.test, env, binds)
        if binds:
            raise Unsupported("a while loop whose condition can raise", s)
        carried, free, lname = self.loop_common(s, rest, env, [])
        saved_owned = set(self.owned)
        body_lines = self.stmts(list(s.body), dict(env), self.loop_again(lname, free, "fuel__", carried, env, s))
        self.owned = saved_owned & self.owned
        cty = [env[n] for n in carried]
        cret = lean_type(cty[0]) if len(cty) == 1 else lean_type(TUP(cty))
        ctuple = ident(carried[0]) if len(carried) == 1 else "(%s)" % ", ".join(ident(n) for n in carried)
        head = "def %s %s: Nat → %s → Py %s" % (
            lname, "".join("(%s : %s) " % (ident(n), lean_type(env[n])) for n in free),
            " → ".join(lean_type(t) for t in cty), cret)
        lines = ["/-- the `while` loop of `hierarchy.%s` at source line %d: fuel (one unit per iteration; `other` = still looping "
                 "when it runs out), loop state %s -/" % (self.fn.name, s.lineno, ", ".join(carried)), head,
                 "  | 0, %s => throw PyErr.other" % ", ".join("_" for _ in carried),
                 "  | fuel__ + 1, %s => do" % ", ".join(ident(n) for n in carried),
                 "      if %s then do" % c]
        lines += indent(body_lines, 8)
        lines += ["      else pure %s" % ctuple]
        self.aux.append((Sig(lname, [], TUP(cty) if len(cty) > 1 else cty[0]), lines))
        call = "let %s : %s ← %s %s" % (ctuple, cret, lname, " ".join(
            [ident(n) for n in free] + ["(%s + 1)" % " + ".join(fuel)] + [ident(n) for n in carried]))
        return [call] + cont(dict(env))

    # -- conditions ---------------------------------------------------------------------------
    def cond(self, node, env, binds):
        if isinstance(node, ast.BoolOp):
            parts = []
            for v in node.values:
                b = []
                parts.append(self.cond(v, env, b))
                if b:
                    raise Unsupported("`and` / `or` whose operands can raise", node)
            return "(%s)" % (" && " if isinstance(node.op, ast.And) else " || ").join(parts)
        if isinstance(node, ast.UnaryOp) and isinstance(node.op, ast.Not):
            return "(!%s)" % self.cond(node.operand, env, binds)
        e = self.expr(node, env, binds)
        if e.ty == BOOL:
            return e.term
        if e.ty in NUMERIC:
            return "(decide (%s ≠ 0))" % e.term
        raise Unsupported("truth value of a %s" % show_type(e.ty), node)

    # -- expressions --------------------------------------------------------------------------
    def is_builtin(self, name):
        return name not in self.locals and name not in self.m.funcs and name not in self.m.assigned and name not in self.m.imports

    def number(self, e, node):
        if e.ty in NUMERIC:
            return e
        raise Unsupported("arithmetic on a value of type %s" % show_type(e.ty), node)

    def expr(self, node, env, binds):
        if isinstance(node, ast.Constant):
            return const_expr(node)
        if isinstance(node, ast.Name):
            if node.id in env:
                return E(ident(node.id), env[node.id])
            if node.id in self.locals:
                raise Unsupported("local %s may be unbound here" % node.id, node)
            raise Unsupported("unknown name %s" % node.id, node)
        if isinstance(node, ast.Tuple):
            elts = [self.expr(x, env, binds) for x in node.elts]
            if len(elts) < 2:
                raise Unsupported("tuple of length < 2", node)
            return E("(%s)" % ", ".join(x.term for x in elts), TUP([x.ty for x in elts]), elts=elts)
        if isinstance(node, ast.UnaryOp):
            if isinstance(node.op, ast.Not):
                return E(self.cond(node, env, binds), BOOL)
            if isinstance(node.op, ast.USub):
                if isinstance(node.operand, ast.Constant):
                    return const_expr(node)
                e = self.number(self.expr(node.operand, env, binds), node)
                t = INT if e.ty == NAT else e.ty
                return E("(-%s)" % coerce(e, t, node), t)
            raise Unsupported("unary operator %s" % type(node.op).__name__, node)
        if isinstance(node, ast.BinOp):
            return self.binop(node, env, binds)
        if isinstance(node, ast.BoolOp):
            return E(self.cond(node, env, binds), BOOL)
        if isinstance(node, ast.Compare):
            return self.compare(node, env, binds)
        if isinstance(node, ast.Attribute):
            return self.attribute(node, env, binds)
        if isinstance(node, ast.Subscript):
            return self.subscript(node, env, binds)
        if isinstance(node, ast.Call):
            return self.call(node, env, binds)
        if isinstance(node, ast.ListComp):
            return self.listcomp(node, env, binds)
        raise Unsupported("expression %s" % type(node).__name__, node)

    def binop(self, node, env, binds):
        op = node.op
        if not isinstance(op, (ast.Add, ast.Sub, ast.Mult, ast.Div)):
            raise Unsupported("operator %s" % type(op).__name__, node)
        a = self.expr(node.left, env, binds)
        b = self.expr(node.right, env, binds)
        if isinstance(op, ast.Div) and a.ty == IVALS and b.ty == RAT:
            if not (isinstance(node.right, ast.Name) and node.right.id in self.positive):
                raise Unsupported("division of an array by something that is not a declared-positive parameter", node)
            return E("(%smapIvals (fun _v => _v / %s) %s)" % (P, b.term, a.term), IVALS)
        if isinstance(op, ast.Sub) and a.ty == IVALS and b.ty == IVALS:
            return E("(%ssubIvals %s %s)" % (P, a.term, b.term), IVALS)
        a, b = self.number(a, node), self.number(b, node)
        sym = {ast.Add: "+", ast.Sub: "-", ast.Mult: "*", ast.Div: "/"}[type(op)]
        if isinstance(op, ast.Div):
            at, bt = coerce(a, RAT, node), coerce(b, RAT, node)
            if (b.lit is not None and b.lit != 0) or (isinstance(node.right, ast.Name) and node.right.id in self.positive):
                return E("(%s / %s)" % (at, bt), RAT)
            tmp = self.bind(binds, "%sdivF %s %s" % (P, at, bt), RAT)
            return E(tmp, RAT)
        t = join(a.ty, b.ty, node)
        if isinstance(op, ast.Sub) and t == NAT:
            t = INT
        return E("(%s %s %s)" % (coerce(a, t, node), sym, coerce(b, t, node)), t)

    def compare(self, node, env, binds):
        operands = [node.left] + list(node.comparators)
        es = []
        for x in operands:
            b = []
            es.append(self.expr(x, env, b))
            if b and len(operands) > 2:
                raise Unsupported("chained comparison whose operands can raise", node)
            binds += b
        terms = []
        for i, op in enumerate(node.ops):
            a, b = es[i], es[i + 1]
            sym = {ast.Eq: "=", ast.NotEq: "≠", ast.Lt: "<", ast.LtE: "≤", ast.Gt: ">", ast.GtE: "≥"}.get(type(op))
            if sym is None:
                raise Unsupported("comparison operator %s" % type(op).__name__, node)
            if a.ty[0] == "tup" and b.ty == a.ty and sym in ("=", "≠") and all(t in NUMERIC for t in a.ty[1]):
                terms.append("(decide (%s %s %s))" % (a.term, sym, b.term))
                continue
            a, b = self.number(a, node), self.number(b, node)
            t = join(a.ty, b.ty, node)
            terms.append("(decide (%s %s %s))" % (coerce(a, t, node), sym, coerce(b, t, node)))
        return E(terms[0] if len(terms) == 1 else "(%s)" % " && ".join(terms), BOOL)

    def attribute(self, node, env, binds):
        if isinstance(node.value, ast.Name) and node.value.id not in env:
            raise Unsupported("attribute %s of a non-local" % dotted(node), node)
        v = self.expr(node.value, env, binds)
        if node.attr == "shape" and v.ty == MAT:
            return E("(%sshape %s)" % (P, v.term), TUP([NAT, NAT]))
        raise Unsupported("attribute .%s of a %s" % (node.attr, show_type(v.ty)), node)

    def nat_bound(self, x, env, binds, node):
        e = self.expr(x, env, binds)
        if e.ty != NAT:
            raise Unsupported("slice bound of type %s" % show_type(e.ty), node)
        return e.term

    def subscript(self, node, env, binds):
        idx = node.slice
        v = node.value
        if isinstance(v, ast.Call) and dotted(v.func) == "util.index_labels":
            if not (isinstance(idx, ast.Constant) and idx.value == 0 and type(idx.value) is int and len(v.args) == 1 and not v.keywords):
                raise Unsupported("only util.index_labels(labels)[0] is modelled", node)
            labs = self.expr(v.args[0], env, binds)
            if labs.ty != STRS:
                raise Unsupported("util.index_labels of a %s" % show_type(labs.ty), node)
            return E("(%slabelKeys %s)" % (P, labs.term), LABKEYS)
        a = self.expr(node.value, env, binds)
        # ---- x[lo:hi] -------------------------------------------------------------------------
        if isinstance(idx, ast.Slice):
            if idx.step is not None or a.ty[0] != "vec":
                raise Unsupported("slicing of a %s / with a step" % show_type(a.ty), node)
            lo, hi = idx.lower, idx.upper
            if lo is None and isinstance(hi, ast.UnaryOp) and isinstance(hi.op, ast.USub) and isinstance(hi.operand, ast.Constant) \
                    and hi.operand.value == 1 and type(hi.operand.value) is int:
                return E("(%sdropLast1 %s)" % (P, a.term), a.ty)
            if lo is not None and hi is None:
                return E("(%ssliceFrom %s %s)" % (P, a.term, self.nat_bound(lo, env, binds, node)), a.ty)
            if lo is None and hi is not None:
                return E("(%ssliceTo %s %s)" % (P, a.term, self.nat_bound(hi, env, binds, node)), a.ty)
            raise Unsupported("slice other than x[i:], x[:i], x[:-1]", node)
        # ---- m[q, s] ----------------------------------------------------------------------------
        if isinstance(idx, ast.Tuple):
            if a.ty == MAT and len(idx.elts) == 2:
                q, sl = self.expr(idx.elts[0], env, binds), self.expr(idx.elts[1], env, binds)
                if q.ty == NAT and sl.ty == SLICE:
                    tmp = self.bind(binds, "%srowSlice %s %s %s" % (P, a.term, q.term, sl.term), ROW)
                    return E(tmp, ROW)
            raise Unsupported("tuple subscript of a %s" % show_type(a.ty), node)
        i = self.expr(idx, env, binds)
        if a.ty[0] == "ddict":
            if i.ty != NAT:
                raise Unsupported("defaultdict key of type %s" % show_type(i.ty), node)
            return E("(%sdictGetD %s %s %s)" % (P, a.term, i.term, a.ty[2]), a.ty[1])
        if a.ty[0] == "tup" and i.lit is not None and type(i.lit) is int:
            n = len(a.ty[1])
            k = i.lit
            if not -n <= k < n:
                raise Unsupported("tuple index out of range", node)
            k %= n
            if a.elts is not None:
                return a.elts[k]
            proj = a.term + "".join(".2" for _ in range(k)) + (".1" if k < n - 1 else "")
            return E("(%s)" % proj, a.ty[1][k])
        if a.ty == IFRAMES and i.ty == NAT:
            tmp = self.bind(binds, "%sgetItem %s %s" % (P, a.term, i.term), TUP([INT, INT]))
            return E(tmp, TUP([INT, INT]))
        if a.ty[0] == "vec":
            if i.ty == NAT:
                tmp = self.bind(binds, "%sgetItem %s %s" % (P, a.term, i.term), a.ty[1])
                return E(tmp, a.ty[1])
            if i.ty == LEVELS and a.ty == LEVELS:
                tmp = self.bind(binds, "%stake %s %s" % (P, a.term, i.term), LEVELS)
                return E(tmp, LEVELS)
            if i.ty == SLICE:
                return E("(%sgetSlice %s %s)" % (P, a.term, i.term), a.ty)
        raise Unsupported("%s indexed by a %s" % (show_type(a.ty), show_type(i.ty)), node)

    def listcomp(self, node, env, binds):
        if len(node.generators) != 1:
            raise Unsupported("nested comprehension", node)
        c = node.generators[0]
        if c.ifs or c.is_async:
            raise Unsupported("comprehension with a filter", node)
        (items, _), pat, tenv = self.iterable(c.iter, c.target, env, binds, node)
        for v in tenv:
            if v in env:
                raise Unsupported("comprehension variable %s shadows a local" % v, node)
        env2 = dict(env)
        env2.update(tenv)
        b = []
        body = self.expr(node.elt, env2, b)
        if b:
            raise Unsupported("comprehension whose element can raise", node)
        if body.ty[0] in ("opt", "ddict"):
            raise Unsupported("comprehension of %s" % show_type(body.ty), node)
        return E("(List.map (fun %s => %s) %s)" % (pat, body.term, items), VEC(body.ty))

    def kwargs(self, node, allowed):
        out = {}
        for k in node.keywords:
            if k.arg is None or k.arg not in allowed or k.arg in out:
                raise Unsupported("keyword argument %s" % k.arg, node)
            out[k.arg] = k.value
        return out

    @staticmethod
    def true_kw(node, names):
        """the call's keywords are exactly `<name>=True` for the given names"""
        got = [(k.arg, k.value) for k in node.keywords]
        return sorted(k for k, _ in got) == sorted(names) and all(isinstance(v, ast.Constant) and v.value is True for _, v in got)

    def call(self, node, env, binds):
        f = node.func
        name = dotted(f)
        if name == "list" and self.is_builtin("list") and len(node.args) == 1 and not node.keywords:
            h = self.chain_chain(node.args[0])
            if h is not None:
                x = self.expr(h, env, binds)
                if x.ty != HIER:
                    raise Unsupported("itertools.chain(*list(itertools.chain(*<%s>)))" % show_type(x.ty), node)
                return E("(%schain2 %s)" % (P, x.term), VEC(RAT))
        if name == "slice" and self.is_builtin("slice") and len(node.args) == 1 and isinstance(node.args[0], ast.Starred) \
                and not node.keywords:
            x = node.args[0].value
            if isinstance(x, ast.Call) and isinstance(x.func, ast.Name) and x.func.id == "list" and self.is_builtin("list") \
                    and len(x.args) == 1 and not x.keywords:
                x = x.args[0]
            pr = self.expr(x, env, binds)
            if pr.ty != TUP([INT, INT]):
                raise Unsupported("slice(*<%s>)" % show_type(pr.ty), node)
            return E("(%s : %s)" % (pr.term, lean_type(ISLICE)), ISLICE)
        if any(isinstance(a, ast.Starred) for a in node.args) or any(k.arg is None for k in node.keywords):
            raise Unsupported("starred argument", node)
        args = node.args
        nokw = not node.keywords
        # ---- builtins -------------------------------------------------------------------------
        if isinstance(f, ast.Name):
            if f.id in self.locals:
                raise Unsupported("call of a local", node)
            if self.is_builtin(f.id):
                return self.builtin(f.id, node, env, binds)
            if f.id == "validate_hier_intervals" and len(node.args) == 1 and not node.keywords:
                # EXTERN: bound to the hand model's `validateHier` (its warnings are not modelled)
                defs = self.m.funcs.get(f.id)
                if not defs or len(defs) != 1 or f.id in self.m.assigned or len(defs[0].args.args) != 1:
                    raise Unsupported("validate_hier_intervals is not a single one-parameter top-level function", node)
                hx = self.expr(node.args[0], env, binds)
                if hx.ty != HIER:
                    raise Unsupported("validate_hier_intervals of a %s" % show_type(hx.ty), node)
                tmp = self.bind(binds, "%svalidate_hier_intervals %s" % (P, hx.term), UNIT)
                return E(tmp, UNIT)
            return self.call_translated(f.id, node, env, binds)
        # ---- methods of local values ----------------------------------------------------------
        if isinstance(f, ast.Attribute) and not (name and name.split(".")[0] not in env):
            recv = self.expr(f.value, env, binds)
            if recv.ty == ROW and f.attr in ("toarray", "ravel") and not args and nokw:
                return E(recv.term, ROW if f.attr == "toarray" else LEVELS)
            if recv.ty == MAT and f.attr == "tocsr" and not args and nokw:
                return E(recv.term, MAT)
            if recv.ty == IVALS and f.attr == "astype" and len(args) == 1 and nokw and isinstance(args[0], ast.Name) \
                    and args[0].id == "int" and self.is_builtin("int"):
                return E("(%smapIvals %spyInt %s)" % (P, P, recv.term), IFRAMES)
            raise Unsupported("method .%s on a %s" % (f.attr, show_type(recv.ty)), node)
        # ---- numpy / itertools / collections --------------------------------------------------
        if name == "np.unique" and len(args) == 1:
            x = self.expr(args[0], env, binds)
            if x.ty != LEVELS:
                raise Unsupported("np.unique of a %s" % show_type(x.ty), node)
            if self.true_kw(node, ["return_counts"]):
                return E("(%suniqueCounts %s)" % (P, x.term), TUP([LEVELS, LEVELS]))
            if self.true_kw(node, ["return_index", "return_counts"]):
                return E("(%suniqueIndexCounts %s)" % (P, x.term), TUP([LEVELS, LEVELS, LEVELS]))
            raise Unsupported("np.unique with other keywords", node)
        if name == "np.mod" and len(args) == 2 and nokw:
            t = self.expr(args[0], env, binds)
            m = args[1]
            if isinstance(m, ast.Call) and isinstance(m.func, ast.Name) and m.func.id == "float" and self.is_builtin("float") \
                    and len(m.args) == 1 and not m.keywords:
                m = m.args[0]
            if not (isinstance(m, ast.Name) and m.id in self.positive and env.get(m.id) == RAT):
                raise Unsupported("np.mod by something that is not a declared-positive parameter", node)
            if t.ty in NUMERIC:
                return E("(%snpMod %s %s)" % (P, coerce(t, RAT, node), ident(m.id)), RAT)
            if t.ty == IVALS:
                return E("(%smapIvals (fun _v => %snpMod _v %s) %s)" % (P, P, ident(m.id), t.term), IVALS)
            raise Unsupported("np.mod of a %s" % show_type(t.ty), node)
        if name == "util.f_measure" and len(args) == 2 and [k.arg for k in node.keywords] == ["beta"]:
            # the already regenerated `Mir.Gen.util.f_measure` (MirGen/Scalars.lean, part `scalars`)
            a, b = self.expr(args[0], env, binds), self.expr(args[1], env, binds)
            c = self.expr(node.keywords[0].value, env, binds)
            if a.ty != RAT or b.ty != RAT or c.ty != RAT:
                raise Unsupported("util.f_measure on (%s, %s, beta=%s)" % (show_type(a.ty), show_type(b.ty), show_type(c.ty)), node)
            tmp = self.bind(binds, "Mir.Gen.util.f_measure %s %s %s" % (a.term, b.term, c.term), RAT)
            return E(tmp, RAT)
        if name == "np.equal.outer" and len(args) == 2 and nokw:
            if not (isinstance(args[0], ast.Name) and isinstance(args[1], ast.Name) and args[0].id == args[1].id):
                raise Unsupported("np.equal.outer of two different arrays", node)
            x = self.expr(args[0], env, binds)
            if x.ty != LABKEYS:
                raise Unsupported("np.equal.outer of a %s" % show_type(x.ty), node)
            return E(x.term, AGREE)
        if name == "np.triu" and len(args) == 1 and nokw:
            x = self.expr(args[0], env, binds)
            if x.ty != AGREE:
                raise Unsupported("np.triu of a %s" % show_type(x.ty), node)
            return E(x.term, TRIU)
        if name == "scipy.sparse.csr_matrix" and len(args) == 1 and nokw:
            x = self.expr(args[0], env, binds)
            if x.ty != MAT:
                raise Unsupported("csr_matrix of a %s" % show_type(x.ty), node)
            return x
        if name == "np.asarray" and len(args) == 1 and nokw:
            x = self.expr(args[0], env, binds)
            if x.ty != IVALS:
                raise Unsupported("np.asarray of a %s" % show_type(x.ty), node)
            return x
        if name == "scipy.sparse.lil_matrix" and len(args) == 1 and isinstance(args[0], ast.Tuple) and len(args[0].elts) == 2 \
                and [k.arg for k in node.keywords] == ["dtype"] and dotted(node.keywords[0].value) == "np.uint8":
            a, b = args[0].elts
            if not (isinstance(a, ast.Name) and isinstance(b, ast.Name) and a.id == b.id):
                raise Unsupported("lil_matrix of a shape that is not (n, n)", node)
            n = self.expr(a, env, binds)
            if n.ty not in (NAT, INT):
                raise Unsupported("lil_matrix((<%s>, ...))" % show_type(n.ty), node)
            tmp = self.bind(binds, "%slilZeros %s" % (P, coerce(n, INT, node)), MAT)
            return E(tmp, MAT)
        if name == "np.sum" and len(args) == 1 and nokw:
            x = self.expr(args[0], env, binds)
            if x.ty != LEVELS:
                raise Unsupported("np.sum of a %s" % show_type(x.ty), node)
            return E("(%snpSum %s)" % (P, x.term), NAT)
        if name == "np.argsort" and len(args) == 1 and nokw:
            x = self.expr(args[0], env, binds)
            if x.ty != LEVELS:
                raise Unsupported("np.argsort of a %s" % show_type(x.ty), node)
            return E("(%sargsort %s)" % (P, x.term), LEVELS)
        if name == "np.concatenate" and len(args) == 1 and nokw and isinstance(args[0], ast.Tuple) and len(args[0].elts) == 2:
            a, b = self.expr(args[0].elts[0], env, binds), self.expr(args[0].elts[1], env, binds)
            if a.ty != LEVELS or b.ty != LEVELS:
                raise Unsupported("np.concatenate of (%s, %s)" % (show_type(a.ty), show_type(b.ty)), node)
            return E("(%sconcat %s %s)" % (P, a.term, b.term), LEVELS)
        if name == "itertools.combinations" and len(args) == 2 and nokw:
            x, k = self.expr(args[0], env, binds), const_expr(args[1])
            if x.ty != LEVELS or k.lit != 2:
                raise Unsupported("itertools.combinations other than (levels, 2)", node)
            return E("(%scombinations2 %s)" % (P, x.term), VEC(TUP([NAT, NAT])))
        if name == "itertools.tee" and len(args) == 1 and nokw:
            x = self.expr(args[0], env, binds)
            if x.ty[0] != "vec":
                raise Unsupported("itertools.tee of a %s" % show_type(x.ty), node)
            return E("(%stee %s)" % (P, x.term), TUP([x.ty, x.ty]))
        if name == "collections.defaultdict" and len(args) == 1 and nokw and isinstance(args[0], ast.Lambda):
            lam = args[0]
            la = lam.args
            if la.args or la.vararg or la.kwarg or la.kwonlyargs or la.posonlyargs:
                raise Unsupported("defaultdict factory with parameters", node)
            b = []
            d = self.expr(lam.body, {}, b)
            if b or d.ty not in (NAT, SLICE):
                raise Unsupported("defaultdict factory returning %s" % show_type(d.ty), node)
            return E("([] : %s)" % lean_type(DDICT(d.ty, d.term)), DDICT(d.ty, d.term))
        raise Unsupported("call of %s" % (name or type(f).__name__), node)

    @staticmethod
    def chain_chain(x):
        """`itertools.chain(*list(itertools.chain(*H)))` -> H"""
        def star(c):
            if isinstance(c, ast.Call) and dotted(c.func) == "itertools.chain" and len(c.args) == 1 and not c.keywords \
                    and isinstance(c.args[0], ast.Starred):
                return c.args[0].value
            return None
        inner = star(x)
        if inner is None:
            return None
        if isinstance(inner, ast.Call) and isinstance(inner.func, ast.Name) and inner.func.id == "list" and len(inner.args) == 1 \
                and not inner.keywords:
            inner = inner.args[0]
        return star(inner)

    def builtin(self, fid, node, env, binds):
        args, nokw = node.args, not node.keywords
        if fid == "len" and len(args) == 1 and nokw:
            a = self.expr(args[0], env, binds)
            if a.ty[0] == "vec" or a.ty in (HIER, IVALS, STRS, LABHIER):
                return E("(%slen %s)" % (P, a.term), NAT)
            raise Unsupported("len of a %s" % show_type(a.ty), node)
        if fid == "float" and len(args) == 1 and nokw:
            a = self.number(self.expr(args[0], env, binds), node)
            return E(coerce(a, RAT, node), RAT, lit=a.lit)
        if fid == "int" and len(args) == 1 and nokw:
            a = self.number(self.expr(args[0], env, binds), node)
            if a.ty == RAT:
                return E("(%spyInt %s)" % (P, a.term), INT)
            return a
        if fid == "sum" and len(args) == 1 and nokw:
            a = self.expr(args[0], env, binds)
            if a.ty != LEVELS:
                raise Unsupported("sum of a %s" % show_type(a.ty), node)
            return E("(%snpSum %s)" % (P, a.term), NAT)
        if fid == "list" and len(args) == 1 and nokw:
            a = self.expr(args[0], env, binds)
            if a.ty[0] != "vec":
                raise Unsupported("list of a %s" % show_type(a.ty), node)
            return a
        if fid in ("min", "max") and len(args) == 1 and nokw:
            a = self.expr(args[0], env, binds)
            if a.ty != VEC(RAT):
                raise Unsupported("%s of a %s" % (fid, show_type(a.ty)), node)
            tmp = self.bind(binds, "%s%s %s" % (P, "pyMin" if fid == "min" else "pyMax", a.term), RAT)
            return E(tmp, RAT)
        if fid in ("min", "max") and len(args) == 2 and nokw:
            a, b = self.expr(args[0], env, binds), self.expr(args[1], env, binds)
            if fid == "max" and a.lit == 0 and type(a.lit) is int and b.ty in (NAT, INT):
                return E("(Int.toNat %s)" % coerce(b, INT, node), NAT)        # max(0, k) is a natural
            if a.ty == NAT and b.ty == NAT:
                return E("(%s %s %s)" % ("Nat.min" if fid == "min" else "Nat.max", a.term, b.term), NAT)
            raise Unsupported("%s of (%s, %s)" % (fid, show_type(a.ty), show_type(b.ty)), node)
        if fid == "slice" and len(args) in (1, 2) and nokw:
            es = [self.expr(a, env, binds) for a in args]
            if all(e.ty == NAT for e in es):
                return E("(%sslice%d %s)" % (P, len(es), " ".join(e.term for e in es)), SLICE)
            if len(es) == 2 and all(e.ty in (NAT, INT) for e in es):
                return E("((%s, %s) : %s)" % (coerce(es[0], INT, node), coerce(es[1], INT, node), lean_type(ISLICE)), ISLICE)
            raise Unsupported("slice of (%s)" % ", ".join(show_type(e.ty) for e in es), node)
        raise Unsupported("call of %s" % fid, node)

    def call_translated(self, fid, node, env, binds):
        args = node.args
        variant = 0
        if any(d[1] == POLY for d in DECL.get(fid, [])):
            if not args:
                raise Unsupported("call of %s without its array-or-number argument" % fid, node)
            a0 = self.expr(args[0], env, [])
            kinds = [k for k, _ in POLY_KINDS]
            t0 = RAT if a0.ty in NUMERIC else a0.ty
            if t0 not in kinds:
                raise Unsupported("%s of a %s" % (fid, show_type(a0.ty)), node)
            variant = kinds.index(t0)
        sig = self.m.translate(fid, node, variant)
        kw = self.kwargs(node, [p[0] for p in sig.params[len(args):]])
        if len(args) > len(sig.params):
            raise Unsupported("call of %s with %d arguments" % (fid, len(args)), node)
        terms = []
        for i, (pn, pt, pd) in enumerate(sig.params):
            if i < len(args) or pn in kw:
                src = args[i] if i < len(args) else kw[pn]
                if pn in sig.positive and not (isinstance(src, ast.Name) and src.id in self.positive):
                    raise Unsupported("the precondition %s > 0 of %s is not established at this call" % (pn, fid), node)
                e = self.expr(src, env, binds)
                if pt == OPT(NAT) and e.ty == OPT(INT):
                    # a frame count computed with int(...): checked cast (error `other` when negative: outside the kernel's
                    # modelled domain; `Gen = model` proves it unreachable)
                    tmp = self.bind(binds, "%snatOfIntOpt %s" % (P, e.term), OPT(NAT))
                    terms.append(tmp)
                    continue
                terms.append(coerce(e, pt, node))
            elif pd is not None:
                terms.append(self.default_term(pd, pt))
            else:
                raise Unsupported("missing argument %s of %s" % (pn, fid), node)
        tmp = self.bind(binds, "%s %s" % (ident(sig.name), " ".join(terms)), sig.ret)
        return E(tmp, sig.ret)


# ----------------------------------------------------------------------------------------
# a whole function

def doc_lines(fn):
    """{parameter name: documented type text} — also for the numpydoc form `a, b : <type>`"""
    doc = ast.get_docstring(fn) or ""
    out = {}
    for ln in doc.split("\n"):
        m = re.match(r"^([\w, ]+?)\s*:\s*(.+)$", ln)
        if m and not ln.startswith(" "):
            for nm in m.group(1).split(","):
                out.setdefault(nm.strip(), m.group(2).strip())
        elif re.match(r"^\w+$", ln.strip()) and not ln.startswith(" "):
            out.setdefault(ln.strip(), "")
    return out


def translate_def(module, fn, variant=0):
    """-> [(Sig, lines)] in emission order (loops first)"""
    if fn.decorator_list:
        raise Unsupported("decorated function", fn)
    a = fn.args
    if a.vararg or a.kwarg or a.kwonlyargs or a.posonlyargs:
        raise Unsupported("*args / **kwargs / keyword-only parameters", fn)
    decl = DECL.get(fn.name)
    if decl is None:
        raise Unsupported("no declared parameter kinds for %s" % fn.name, fn)
    if [p.arg for p in a.args] != [d[0] for d in decl]:
        raise Unsupported("the parameters of %s are (%s), declared: (%s)" % (
            fn.name, ", ".join(p.arg for p in a.args), ", ".join(d[0] for d in decl)), fn)
    doc = doc_lines(fn)
    params = []
    ndef = len(a.defaults)
    for i, (p, (pn, ty, rx)) in enumerate(zip(a.args, decl)):
        if pn not in doc or not re.search(rx, doc[pn]):
            raise Unsupported("parameter %s is documented as %r, declared kind %s" % (pn, doc.get(pn), show_type(ty)), fn)
        d = None
        k = i - (len(a.args) - ndef)
        if k >= 0:
            d = const_expr(a.defaults[k])
            if d.ty == UNIT and ty[0] != "opt":
                raise Unsupported("default None of a non-optional parameter", fn)
            if d.ty != UNIT:
                coerce(d, ty[1] if ty[0] == "opt" else ty, fn)
                if ty[0] == "opt":
                    d = E("(some %s)" % coerce(d, ty[1], fn), ty)
        if ty == POLY:
            ty = POLY_KINDS[variant][0]
        params.append((pn, ty, d))
    suffix = POLY_KINDS[variant][1] if variant else ""
    what = "`hierarchy.%s` (mir_eval/hierarchy.py)" % fn.name
    if suffix:
        what += ", the instance for an (n, 2) array argument"
    b = Body(module, fn, params, POSITIVE.get(fn.name, ()), what, name=fn.name + suffix)
    return b.translate()


# ----------------------------------------------------------------------------------------
# driver handler

def val_decoder(ty, v, default=None):
    dec = {RAT: "Val.asRat?", NAT: "Val.asNat?", INT: "Val.asInt?", BOOL: "Val.asBool?", LEVELS: "Val.asNats?",
           MAT: P + "asMat?", OPT(NAT): P + "asOptNat?", HIER: P + "asHier?", LABHIER: P + "asLabels?",
           OPT(RAT): "Val.asOptRat?", IVALS: "Val.asRatPairs?"}.get(ty)
    if dec is None:
        raise Unsupported("no protocol decoder for %s" % show_type(ty))
    if default is not None and ty[0] != "opt":
        return "let %s ← (match %s with | Val.none => some %s | _v => %s _v)" % (v, v, default, dec)
    return "let %s ← %s %s" % (v, dec, v)


def val_encoder(ty):
    if ty == NAT:
        return "Val.ofNat"
    if ty == INT:
        return "Val.ofInt"
    if ty == RAT:
        return "Val.rat"
    if ty == UNIT:
        return "(fun _ => Val.none)"
    if ty == LEVELS:
        return "Val.ofNats"
    if ty == MAT:
        return P + "ofMat"
    if ty[0] == "tup":
        vs = ["x%d" % i for i in range(len(ty[1]))]
        return "(fun ((%s) : %s) => Val.list [%s])" % (
            ", ".join(vs), lean_type(ty), ", ".join("%s %s" % (val_encoder(t), v) for t, v in zip(ty[1], vs)))
    raise Unsupported("no protocol encoder for %s" % show_type(ty))


HEADER = """import MirModel.PyHier
import MirGen.Scalars
/-!
  GENERATED by harness/translate/hierarchy.py from mir_eval/hierarchy.py — do not edit.
  One shallow definition per translated function (`Mir.Gen.hierarchy.<function>`; a `for` / `while` loop is the auxiliary
  `<function>_loop<k>`), over `Mir.PyH`.  Regenerated from the working tree on every run of ./check C17;
  `MirProofs/Props/C17_Gen.lean` proves each of them equal to the hand-written model (`MirModel/Hierarchy.lean`).
-/
set_option linter.unusedVariables false
"""


def translate_all(repo, wanted=None):
    """-> (lean text, {name: Sig}, problems [(function, detail)])"""
    wanted = WANTED if wanted is None else wanted
    path = os.path.join(repo, "mir_eval", "hierarchy.py")
    problems = []
    try:
        m = Module(open(path, encoding="utf-8").read())
    except (OSError, SyntaxError) as e:
        m = None
        problems = [(f, "cannot read/parse %s: %s" % (path, e)) for f in wanted]
    if m is not None:
        for fname in wanted:
            try:
                m.translate(fname)
            except Unsupported as e:
                problems.append((fname, e.detail))
    L = [HEADER, "namespace Mir.Gen.hierarchy", "open Mir", ""]
    rows = []
    emitted = [] if m is None else m.emitted
    for name, lines in emitted:
        L += lines + [""]
    L += ["end Mir.Gen.hierarchy", ""]
    public = [n for n, _ in emitted if n not in m.internal] if m is not None else []
    for name in public:
        sig = m.sigs[name]
        try:
            vs = ["a%d" % i for i in range(len(sig.params))]
            decs = []
            for (pn, pt, pd), v in zip(sig.params, vs):
                dflt = None
                if pd is not None and pt[0] != "opt":
                    dflt = coerce(pd, pt)
                decs.append(val_decoder(pt, v, dflt))
            guards = ["%sisSquare %s" % (P, v) for (pn, pt, pd), v in zip(sig.params, vs) if pt == MAT]
            guards += ["decide (%s > 0)" % v for (pn, pt, pd), v in zip(sig.params, vs) if pn in sig.positive]
            enc = val_encoder(sig.ret)
        except Unsupported:
            continue
        call = "some (Except.map %s (Mir.Gen.hierarchy.%s %s))" % (enc, ident(name), " ".join(vs))
        if guards:
            call = "if %s then %s else none" % (" && ".join(guards), call)
        rows.append("  | \"gen.hierarchy\", Val.str \"%s\" :: [%s] => do\n%s      %s" % (
            name, ", ".join(vs), "".join("      %s\n" % d for d in decs), call))
    L.append("namespace Mir.Gen.Hierarchy")
    L.append("")
    L.append("/-- names of the translated functions (in emission order) -/")
    L.append("def names : List String := [%s]" % ", ".join('"%s"' % n for n in public))
    L.append("")
    L.append("/-- protocol op `gen.hierarchy <\"function\"> <args...>` (a defaulted parameter may be sent as `none`); sparse matrices "
             "must be square and declared-positive parameters positive (else: not an operation) -/")
    L.append("def handler : Handler := fun fn args =>")
    L.append("  match fn, args with")
    L += rows
    L.append("  | _, _ => none")
    L.append("")
    L.append("end Mir.Gen.Hierarchy")
    sigs = {} if m is None else {n: m.sigs[n] for n in public}
    return "\n".join(L) + "\n", sigs, problems


def generate(repo, outdir):
    text, done, problems = translate_all(repo)
    os.makedirs(outdir, exist_ok=True)
    write_if_changed(os.path.join(outdir, "Hierarchy.lean"), text)
    obligations = ["Mir.Gen.hierarchy.%s" % n for n in done]
    probs = [{"name": "hierarchy: hierarchy.%s" % f, "detail": "outside the translated subset: " + d} for f, d in problems]
    return obligations, probs


if __name__ == "__main__":
    repo = sys.argv[1] if len(sys.argv) > 1 else "/repo"
    text, done, problems = translate_all(repo)
    sys.stdout.write(text)
    for p in problems:
        sys.stderr.write("PROBLEM hierarchy.%s: %s\n" % p)
