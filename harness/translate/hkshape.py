"""Source obligation for the hand-written transliteration of `util._bipartite_match` (part `hkshape`, property C05).

`lean/MirModel/HopcroftKarp*.lean` (`hkMatch`, about which `MirProofs/Props/C05_HK.lean` proves validity and maximality for
every adjacency dict) was written by hand against ONE exact shape of the Python routine.  This part re-reads the routine
from the current source on every run, normalises its AST (docstrings dropped; comments, blank lines and layout are not
part of an AST; nothing is renamed, nothing is reordered) and compares the result, line for line, with the shape that was
pinned when the transliteration was written (`hkshape_pinned.txt`, produced once from the unchanged source by
`python harness/translate/hkshape.py --pin`).

A difference is a translator *problem*: "the proved transliteration is no longer known to follow the source".  It breaks
the build/audit step of C05, so that ANY edit of the routine at least yields `VIOLATION ... no-failing-input-found` and the
8x boosted search for a failing input.

This is a SYNTACTIC tie and deliberately weaker than a translation: it says nothing about what an edited routine
computes, and it fails closed on behaviour-preserving rewrites of the routine.  Whether an edit changes behaviour is
decided by the inputs: the pair-for-pair correspondence of `hkMatch` with the real routine (suites `hk.*`) and the
real pairings run through the proved checker (valid, maximum size) — that is where a failing input comes from.
No Lean file is generated.
"""
import ast
import difflib
import hashlib
import os

FUNCTION = ("util", "_bipartite_match")
PINNED = os.path.join(os.path.dirname(os.path.abspath(__file__)), "hkshape_pinned.txt")
SKIP_FIELDS = {"type_comment", "type_params", "kind", "ctx"}


def strip_docstrings(fn):
    for node in ast.walk(fn):
        if isinstance(node, (ast.FunctionDef, ast.AsyncFunctionDef, ast.ClassDef)):
            b = node.body
            if b and isinstance(b[0], ast.Expr) and isinstance(b[0].value, ast.Constant) and \
                    isinstance(b[0].value.value, str):
                node.body = b[1:] or [ast.Pass()]
    return fn


def shape(node, depth=0):
    """a line-per-node rendering of the AST that does not depend on the Python version's `ast.dump` defaults: class
    name, then the non-empty fields in `_fields` order; empty lists / None / load-store contexts are omitted"""
    pad = "  " * depth
    if isinstance(node, ast.AST):
        lines = [pad + type(node).__name__]
        for f in node._fields:
            if f in SKIP_FIELDS:
                continue
            v = getattr(node, f, None)
            if v is None or v == []:
                continue
            if isinstance(v, (ast.AST, list)):
                lines.append("%s .%s" % (pad, f))
                lines += shape(v, depth + 1)
            else:
                lines.append("%s .%s = %r" % (pad, f, v))
        return lines
    if isinstance(node, list):
        out = []
        for x in node:
            out += shape(x, depth)
        return out
    return [pad + repr(node)]


def current_shape(repo):
    path = os.path.join(repo, "mir_eval", FUNCTION[0] + ".py")
    tree = ast.parse(open(path).read(), filename=path)
    found = [n for n in tree.body if isinstance(n, ast.FunctionDef) and n.name == FUNCTION[1]]
    if len(found) != 1:
        raise LookupError("%d top-level definitions of %s.%s" % (len(found), FUNCTION[0], FUNCTION[1]))
    return "\n".join(shape(strip_docstrings(found[0]))) + "\n"


def generate(repo, outdir):
    name = "hkshape: %s.%s follows the shape the proved transliteration hkMatch was written against" % FUNCTION
    try:
        cur = current_shape(repo)
    except (OSError, SyntaxError, LookupError) as e:
        return [], [{"name": name, "detail": "cannot read the routine: %s: %s" % (type(e).__name__, e)}]
    try:
        pinned = open(PINNED).read()
    except OSError as e:
        return [], [{"name": name, "detail": "pinned shape missing: %s" % e}]
    if cur == pinned:
        return ["%s (sha256 %s)" % (name, hashlib.sha256(cur.encode()).hexdigest()[:16])], []
    diff = [ln for ln in difflib.unified_diff(pinned.split("\n"), cur.split("\n"), "pinned", "current", lineterm="", n=1)]
    return [], [{"name": name,
                 "detail": "the proved transliteration is no longer known to follow the source (normalised AST of %s.%s "
                           "differs from harness/translate/hkshape_pinned.txt): %s" % (FUNCTION + (" | ".join(
                               x.strip() for x in diff[2:14]),))}]


if __name__ == "__main__":
    import sys
    repo = os.environ.get("MIR_EVAL_REPO", "/repo")
    if "--pin" in sys.argv:
        with open(PINNED, "w") as fh:
            fh.write(current_shape(repo))
        print("pinned %s (%d lines)" % (PINNED, len(open(PINNED).read().split("\n")) - 1))
    else:
        print(generate(repo, None))
