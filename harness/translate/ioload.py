"""mir_eval/io.py annotation-file loaders -> lean/MirGen/IOLoad.lean   (AST based; mir_eval is never imported).

One SHALLOW Lean definition per translated loader, `Mir.Gen.io.<function>`, over the run-time library
`lean/MirModel/PyIO.lean` (`Mir.PyIO`), which is built on the primitives of the hand-written loader model
(`MirModel/IO.lean`: `splitLines`, `stripPy`, `reSplit`, the anchored literal comment marker, the abstract token
converters `Conv`, `Cell`), plus a driver handler (`Mir.Gen.IOLoad.handler`, protocol op `gen.io <function> <args>`).
`MirProofs/Props/C20_GenIO.lean` proves `Mir.Gen.io.<f> args = obs (<hand model> args)` for all arguments, so the C20
theorems are re-checked against what the source says *now* on every run.

The translator fails closed.  THE SUBSET (anything else => `Unsupported` => the function is not emitted):

  def f(filename, [converters | dtype=float], delimiter=<lit>, [header=<bool>], comment=<lit>)
        parameter kinds are fixed by NAME + documented type (numpydoc): filename `str` = the TEXT of the file,
        converters `list of functions`, delimiter `str` = an abstract delimiter pattern (`Mir.IO.Delim`),
        comment `str or None` = an optional literal marker, dtype `function` = a converter, header `bool`
  statements  docstring; `x = e`; `a, b = e` (tuple; list with count check; the result of load_delimited);
        `x.append(e)` on a local list (value semantics; an appended list may not be mutated before it is rebound);
        `xs[i].append(e)`; `if/elif/else` (branches that only assign are joined, `x is None` tests narrow `x`);
        `with _open(filename, mode="r") as f:` = "f iterates the lines of the text" (`_open` itself must be the known
        context manager); `for [row,] line in [enumerate(]f[, start)]` / `f.readlines()`; `next(f, None)`;
        `for a, b, c in zip(xs, ys, zs)` / `for x in xs` / `enumerate(...)` of those, where an element that is a list
        may be appended to in place (`column.append(v)` updates that element of `columns`); `continue`;
        `try: x = <converter call> except [...]: raise E(msg)` (converter = element of converters / dtype / float / int,
        or `np.array(strs, dtype=dtype)`); `try: <module>.validate*(...) except ValueError as e: warnings.warn(...)`
        is SKIPPED (warnings are outside the model; validators are assumed to raise nothing but ValueError and to leave
        their arguments alone); `raise E(msg)`: the class, and the row the message names (`"...{}:{:d}:..."
        .format(..., filename, row, ...)`, the locator the harness reads); `return e`.  Loops become structurally
        recursive auxiliary definitions over the remaining elements, carrying the loop state.
  expressions int / str / bool / None literals; locals; `len`; `+ -` on ints; comparisons of ints; `is [not] None`;
        `xs != []`; `"lit" in s`; `lo <= x <= hi` (int literals, x a converted number: abstract test `between_`);
        and / or / not; `re.compile(delimiter)`; `re.compile("^{}".format(comment))` (also `"^" + m`, `"^%s" % m`);
        `m.match(line)`; `splitter.split(s[, k])`; `s.strip() / lstrip() / rstrip()`; `s.split("<lit>")`;
        `tuple(list() for _ in range(n))` / `[[] for _ in range(n)]`; `[]`; `list()`; `xs[i]`; `xs[k:]`; tuples;
        `[float, str, ...]` (a converter list: cells); `float(s)`; `np.array(col)`; `np.array([a, b]).T`;
        `np.concatenate([a, b])`; `"...{}...".format(...)` of strings; calls of translated functions of the module.

`python harness/translate/ioload.py [repo]` prints the Lean text and the problems.
"""
import ast
import os
import string
import sys

try:
    from translate import write_if_changed
except ImportError:  # run as a script
    sys.path.insert(0, os.path.dirname(os.path.dirname(os.path.abspath(__file__))))
    from translate import write_if_changed
from translate.scalars import (Unsupported, EXC, ident, lean_str, lean_int, indent, doc_param_types)

# functions in emission order; REQUIRED: a function that leaves the subset is a translator problem
WANTED = ["load_delimited", "load_events", "load_labeled_events", "load_intervals", "load_labeled_intervals",
          "load_time_series", "load_valued_intervals", "load_key", "load_tempo", "load_ragged_time_series",
          "load_patterns"]

# `_open` as the translator reads it ("iterate the lines of the text"): its body must be exactly this
OPEN_BODY = """if hasattr(file_or_str, 'read'):
    yield file_or_str
elif isinstance(file_or_str, str):
    with open(file_or_str, **kwargs) as file_desc:
        yield file_desc
else:
    raise IOError('Invalid file-or-str object: {}'.format(file_or_str))"""

REGEX_META = set("\\.^$*+?{}[]|()")

INT, BOOL, STR, NONE = ("int",), ("bool",), ("str",), ("none",)
FILE, LINES, DELIMSRC, SPLITTER, MARKER, MATCHER = ("file",), ("lines",), ("delimsrc",), ("splitter",), ("marker",), ("matcher",)
GAMMA, CELL, NUM = ("gamma",), ("cell",), ("num",)


def OPT(t):
    return ("opt", t)


def LST(t):
    return ("list", t)


def TUP(ts):
    return ("tup", tuple(ts))


def CONV(t):
    return ("conv", t)


def COLS(t):
    return ("cols", t)


def BOT(site):
    return ("bot", site)


PAIR = TUP([NUM, NUM])


def show_type(t):
    k = t[0]
    if k in ("opt", "list", "conv", "cols"):
        return "%s[%s]" % (k, show_type(t[1]))
    if k == "tup":
        return "(%s)" % ", ".join(show_type(x) for x in t[1])
    if k == "bot":
        return "?"
    return k


def mentions(t, kind):
    if t[0] == kind:
        return True
    if t[0] in ("opt", "list", "conv", "cols"):
        return mentions(t[1], kind)
    if t[0] == "tup":
        return any(mentions(x, kind) for x in t[1])
    return False


def subst_gamma(t, inst):
    if t == GAMMA:
        return inst
    if t[0] in ("opt", "list", "conv", "cols"):
        return (t[0], subst_gamma(t[1], inst))
    if t[0] == "tup":
        return TUP([subst_gamma(x, inst) for x in t[1]])
    return t


def lstr(s):
    return lean_str(s) if s else "([] : List Char)"


class E:
    """A translated PURE expression: Lean term and static type (`lit`: the Python literal, if it is one)."""
    __slots__ = ("term", "ty", "lit")

    def __init__(self, term, ty, lit=None):
        self.term, self.ty, self.lit = term, ty, lit


class Sig:
    def __init__(self, name, abstract, params, ret, alpha, gamma):
        # abstract: names of the abstract parameters (float_, int_, between_) in order; params: [(name, type, default term)]
        self.name, self.abstract, self.params, self.ret, self.alpha, self.gamma = name, abstract, params, ret, alpha, gamma


ABSTRACT_ORDER = ["float_", "int_", "between_"]
ABSTRACT_TYPES = {"float_": "Mir.IO.Conv α", "int_": "Mir.IO.Conv α", "between_": "Int → Int → α → Bool"}


# ----------------------------------------------------------------------------------------
# module context

class Module:
    def __init__(self, source):
        self.tree = ast.parse(source)
        self.funcs, self.assigned, self.imports = {}, set(), {}
        for st in self.tree.body:
            if isinstance(st, ast.FunctionDef):
                self.funcs.setdefault(st.name, []).append(st)
            elif isinstance(st, ast.Import):
                for a in st.names:
                    self.imports[a.asname or a.name.split(".")[0]] = a.name
            elif isinstance(st, ast.ImportFrom):
                for a in st.names:
                    self.imports[a.asname or a.name] = "%s.%s" % ("." * st.level + (st.module or ""), a.name)
            else:
                for nd in ast.walk(st):
                    if isinstance(nd, ast.Name) and isinstance(nd.ctx, (ast.Store, ast.Del)):
                        self.assigned.add(nd.id)
        self.sigs, self.failed, self.emitted, self.in_progress = {}, {}, [], set()
        self.open_problem = self.check_open()

    def check_open(self):
        defs = self.funcs.get("_open")
        if not defs or len(defs) != 1:
            return "io._open is not defined exactly once"
        fn = defs[0]
        body = fn.body[1:] if (fn.body and isinstance(fn.body[0], ast.Expr) and isinstance(fn.body[0].value, ast.Constant)
                               and isinstance(fn.body[0].value.value, str)) else fn.body
        text = "\n".join(ast.unparse(s) for s in body)
        decos = [ast.unparse(d) for d in fn.decorator_list]
        args = ast.unparse(fn.args)
        if text != OPEN_BODY or decos != ["contextlib.contextmanager"] or args != "file_or_str, **kwargs":
            return "io._open is not the context manager the translator reads as 'the lines of the text'"
        if self.imports.get("contextlib") != "contextlib":
            return "contextlib is not the standard module"
        return None

    def module_is(self, name, what):
        """is the module-level name `name` the import `what` (and never rebound)?"""
        return self.imports.get(name) == what and name not in self.assigned and name not in self.funcs

    def translate(self, fname, node=None):
        if fname in self.sigs:
            return self.sigs[fname]
        if fname in self.failed:
            raise Unsupported("callee %s is outside the subset (%s)" % (fname, self.failed[fname]), node)
        defs = self.funcs.get(fname)
        if not defs:
            raise Unsupported("no top-level function %s in io.py" % fname, node)
        if len(defs) != 1 or fname in self.assigned:
            raise Unsupported("%s is defined more than once" % fname, node)
        if fname in self.in_progress:
            raise Unsupported("recursive call of %s" % fname, node)
        self.in_progress.add(fname)
        try:
            sig, lines = Fn(self, defs[0]).translate()
        except Unsupported as e:
            self.failed[fname] = e.detail
            raise
        except RecursionError:
            self.failed[fname] = "expression too deep"
            raise Unsupported(self.failed[fname], node)
        finally:
            self.in_progress.discard(fname)
        self.sigs[fname] = sig
        self.emitted.append((fname, lines))
        return sig


def is_docstring(s):
    return isinstance(s, ast.Expr) and isinstance(s.value, ast.Constant) and isinstance(s.value.value, str)


def append_stmt(s):
    """`X.append(e)` / `X[i].append(e)` as a statement -> (receiver node, argument node) | None"""
    if isinstance(s, ast.Expr) and isinstance(s.value, ast.Call) and isinstance(s.value.func, ast.Attribute) \
            and s.value.func.attr == "append" and len(s.value.args) == 1 and not s.value.keywords:
        return s.value.func.value, s.value.args[0]
    return None


def mutated_names(stmts):
    """names assigned, or appended to (directly or through a subscript), anywhere in `stmts` (in order)"""
    out = []

    def add(n):
        if n not in out:
            out.append(n)
    for st in stmts:
        for nd in ast.walk(st):
            if isinstance(nd, ast.Name) and isinstance(nd.ctx, (ast.Store, ast.Del)):
                add(nd.id)
            if isinstance(nd, ast.For):
                # `for ..., column, ... in zip(..., columns, ...)` with `column.append(...)` in the body updates `columns`
                it, tg = nd.iter, nd.target
                if isinstance(it, ast.Call) and isinstance(it.func, ast.Name) and it.func.id == "enumerate" and it.args \
                        and isinstance(tg, ast.Tuple) and len(tg.elts) == 2:
                    it, tg = it.args[0], tg.elts[1]
                if isinstance(it, ast.Call) and isinstance(it.func, ast.Name) and it.func.id == "zip" \
                        and isinstance(tg, ast.Tuple) and len(tg.elts) == len(it.args):
                    pairs = list(zip(tg.elts, it.args))
                else:
                    pairs = [(tg, it)]
                inner = mutated_names(nd.body)
                for t, x in pairs:
                    if isinstance(t, ast.Name) and t.id in inner and isinstance(x, ast.Name):
                        add(x.id)
            if isinstance(nd, ast.Expr):
                ap = append_stmt(nd)
                if ap is not None:
                    r = ap[0]
                    if isinstance(r, ast.Subscript):
                        r = r.value
                    if isinstance(r, ast.Name):
                        add(r.id)
                if isinstance(nd.value, ast.Call) and isinstance(nd.value.func, ast.Name) and nd.value.func.id == "next" \
                        and nd.value.args and isinstance(nd.value.args[0], ast.Name):
                    add(nd.value.args[0].id)
    return out


def raise_row_name(node):
    """the Name node of the row in the locator `{}:{:d}:` of `raise E("...".format(...))`, if any"""
    x = node.exc
    if not (isinstance(x, ast.Call) and len(x.args) == 1 and not x.keywords):
        return None
    m = x.args[0]
    if not (isinstance(m, ast.Call) and isinstance(m.func, ast.Attribute) and m.func.attr == "format"
            and isinstance(m.func.value, ast.Constant) and isinstance(m.func.value.value, str) and not m.keywords):
        return None
    try:
        parts = list(string.Formatter().parse(m.func.value.value))
    except ValueError:
        return None
    # parts: (literal, field_name, spec, conv); auto-numbered fields only
    fields = [(lit, fn, spec) for lit, fn, spec, _ in parts]
    idx = 0
    pos = []          # (literal before, arg index) per placeholder
    for lit, fn, spec in fields:
        if fn is None:
            pos.append((lit, None, None))
            continue
        if fn != "":
            return None
        pos.append((lit, idx, spec))
        idx += 1
    if idx != len(m.args):
        return None
    for k in range(1, len(pos)):
        lit, ai, spec = pos[k]
        if ai is None or pos[k - 1][1] is None:
            continue
        after = pos[k + 1][0] if k + 1 < len(pos) else ""
        if lit == ":" and spec in ("d", "") and after.startswith(":"):
            a = m.args[ai]
            if isinstance(a, ast.Name):
                return a
    return None


def loaded_names(stmts):
    """names read in `stmts`; of a `raise` only the row its message names counts (messages are not evaluated)"""
    out = []

    def walk(nd):
        if isinstance(nd, ast.Raise):
            r = raise_row_name(nd)
            if r is not None and r.id not in out:
                out.append(r.id)
            return
        if isinstance(nd, ast.Name) and isinstance(nd.ctx, ast.Load) and nd.id not in out:
            out.append(nd.id)
        for ch in ast.iter_child_nodes(nd):
            walk(ch)
    for st in stmts:
        walk(st)
    return out


# ----------------------------------------------------------------------------------------
# one function

PARAM_KINDS = {
    "filename": ("str", FILE),
    "converters": ("list of functions", LST(CONV(GAMMA))),
    "delimiter": ("str", DELIMSRC),
    "comment": ("str or None", OPT(MARKER)),
    "dtype": ("function", CONV(NUM)),
    "header": ("bool", BOOL),
}


class Fn:
    def __init__(self, module, fn):
        self.m, self.fn = module, fn
        self.sites = {}           # site of an empty-list creation -> element type (solved over the passes)
        self.changed = False
        self.final = False
        self.ret_ty, self.ret_types = None, []
        self.abstract = set()
        self.alpha = "α"
        self.reset()

    def reset(self):
        self.tmp, self.loops, self.aux = 0, 0, []
        self.loop_k = []          # stack of continuations for `continue` / end of a loop body
        self.seen_loops = set()
        self.aliased = set()      # list locals stored inside another list and not rebound since

    def fresh(self):
        self.tmp += 1
        return "_t%d" % self.tmp

    # -- types --------------------------------------------------------------------------
    def res(self, t):
        k = t[0]
        if k == "bot":
            s = self.sites.get(t[1])
            return self.res(s) if s is not None else t
        if k in ("opt", "list", "conv", "cols"):
            return (k, self.res(t[1]))
        if k == "tup":
            return TUP([self.res(x) for x in t[1]])
        return t

    def unify(self, a, b, node=None):
        a, b = self.res(a), self.res(b)
        if a == b:
            return a
        if a[0] == "bot":
            self.sites[a[1]] = b
            self.changed = True
            return b
        if b[0] == "bot":
            self.sites[b[1]] = a
            self.changed = True
            return a
        if a[0] == b[0] and a[0] in ("list", "opt", "conv", "cols"):
            return (a[0], self.unify(a[1], b[1], node))
        if a[0] == "tup" and b[0] == "tup" and len(a[1]) == len(b[1]):
            return TUP([self.unify(x, y, node) for x, y in zip(a[1], b[1])])
        if a == NONE:
            a, b = b, a
        if b == NONE:
            return a if a[0] == "opt" else OPT(a)
        if a[0] == "opt" and b[0] != "opt":
            return OPT(self.unify(a[1], b, node))
        if b[0] == "opt" and a[0] != "opt":
            return OPT(self.unify(a, b[1], node))
        raise Unsupported("values of type %s and %s meet on one variable" % (show_type(a), show_type(b)), node)

    def join_ret(self, a, b, node):
        a, b = self.res(a), self.res(b)
        for x, y in ((a, b), (b, a)):
            if x[0] == "list" and y == LST(x):
                return COLS(x[1])          # `columns[0]` or `columns`
            if x[0] == "cols" and (y == LST(x[1]) or y == LST(LST(x[1]))):
                return x
        return self.unify(a, b, node)

    def lean_type(self, t):
        t = self.res(t)
        k = t[0]
        simple = {"int": "Int", "bool": "Bool", "str": "(List Char)", "none": "Unit", "file": "(List Char)",
                  "lines": "(List (List Char))", "delimsrc": "Mir.IO.Delim", "splitter": "Mir.IO.Delim",
                  "marker": "(List Char)", "matcher": "Mir.PyIO.Matcher", "gamma": "γ"}
        if k in simple:
            return simple[k]
        if k == "cell":
            return "(Mir.IO.Cell %s)" % self.alpha
        if k == "num":
            return self.alpha
        if k == "opt":
            return "(Option %s)" % self.lean_type(t[1])
        if k == "list":
            return "(List %s)" % self.lean_type(t[1])
        if k == "conv":
            return "(Mir.IO.Conv %s)" % self.lean_type(t[1])
        if k == "cols":
            return "(Mir.PyIO.Cols %s)" % self.lean_type(t[1])
        if k == "tup":
            return "(%s)" % " × ".join(self.lean_type(x) for x in t[1])
        if k == "bot":
            if self.final:
                raise Unsupported("the element type of an empty list is never determined")
            return "?"
        raise Unsupported("no Lean type for %s" % show_type(t))

    def coerce(self, e, to, node=None):
        a, to = self.res(e.ty), self.res(to)
        if a == to or a[0] == "bot" or to[0] == "bot" or mentions(a, "bot") or mentions(to, "bot"):
            if a != to:
                self.unify(a, to, node)
            return e.term
        if to[0] == "opt":
            if a == NONE:
                return "(none : %s)" % self.lean_type(to)
            if a[0] != "opt":
                return "(some %s)" % self.coerce(e, to[1], node)
        if to[0] == "cols":
            if a == LST(to[1]):
                return "(Mir.PyIO.Cols.one %s)" % e.term
            if a == LST(LST(to[1])):
                return "(Mir.PyIO.Cols.many %s)" % e.term
        raise Unsupported("cannot convert %s to %s" % (show_type(a), show_type(to)), node)

    # -- entry --------------------------------------------------------------------------
    def translate(self):
        fn = self.fn
        if fn.decorator_list:
            raise Unsupported("decorated function", fn)
        a = fn.args
        if a.vararg or a.kwarg or a.kwonlyargs or a.posonlyargs:
            raise Unsupported("*args / **kwargs / keyword-only parameters", fn)
        doc = doc_param_types(fn)
        params, env = [], {}
        ndef = len(a.defaults)
        for i, p in enumerate(a.args):
            if p.arg not in PARAM_KINDS:
                raise Unsupported("parameter %s is not one of %s" % (p.arg, sorted(PARAM_KINDS)), fn)
            want_doc, ty = PARAM_KINDS[p.arg]
            if doc.get(p.arg, "").strip() != want_doc:
                raise Unsupported("parameter %s is documented as %r, not %r" % (p.arg, doc.get(p.arg), want_doc), fn)
            k = i - (len(a.args) - ndef)
            d = self.default_term(p.arg, ty, a.defaults[k]) if k >= 0 else None
            params.append((p.arg, ty, d))
            env[p.arg] = ty
        self.locals = set(mutated_names(fn.body)) | set(env)
        for nd in ast.walk(fn):
            if isinstance(nd, (ast.Global, ast.Nonlocal, ast.Lambda, ast.FunctionDef, ast.ClassDef, ast.Yield,
                               ast.YieldFrom, ast.Await, ast.NamedExpr, ast.While, ast.Delete)) and nd is not fn:
                raise Unsupported("construct %s" % type(nd).__name__, nd)
        lines = None
        for _ in range(8):
            self.changed = False
            self.reset()
            prev_ret = self.ret_ty
            self.ret_types = []
            lines = self.stmts(fn.body, dict(env), self.fallthrough_return)
            if not self.ret_types:
                raise Unsupported("no path returns", fn)
            rt = self.ret_types[0]
            for t in self.ret_types[1:]:
                rt = self.join_ret(rt, t, fn)
            self.ret_ty = self.res(rt)
            if not self.changed and prev_ret == self.ret_ty:
                break
        else:
            raise Unsupported("types do not stabilise", fn)
        uses_alpha = bool(self.abstract) or any(mentions(p[1], "num") or mentions(p[1], "cell") for p in params) \
            or mentions(self.ret_ty, "num") or mentions(self.ret_ty, "cell")
        self.alpha = "α" if uses_alpha else "Unit"
        self.final = True
        self.reset()
        self.ret_types = []
        lines = self.stmts(fn.body, dict(env), self.fallthrough_return)
        uses_gamma = any(mentions(p[1], "gamma") for p in params)
        abstract = [n for n in ABSTRACT_ORDER if n in self.abstract]
        sig = Sig(fn.name, abstract, params, self.ret_ty, uses_alpha, uses_gamma)
        self.sig = sig
        abs_args = "".join(n + " " for n in abstract)
        out = []
        for ax in self.aux:
            txt = "\n".join(ax).replace("@@ABS@@", abs_args)
            binders = ""
            if abstract or "α" in txt:
                binders += "{α : Type} "
            if "γ" in txt:
                binders += "{γ : Type} "
            binders += "".join("(%s : %s) " % (n, ABSTRACT_TYPES[n]) for n in abstract)
            out += txt.replace("@@BINDERS@@", binders).split("\n") + [""]
        out.append("/-- `io.%s` (mir_eval/io.py) -/" % fn.name)
        out.append("def %s %s: Mir.PyIO.R %s := do" % (ident(fn.name), self.binder_text(
            [(n, self.lean_type(t), d) for n, t, d in params]), self.lean_type(self.ret_ty)))
        out += [ln.replace("@@ABS@@", abs_args) for ln in indent(lines)]
        return sig, out

    def binder_text(self, params):
        """implicit type variables, abstract parameters, then `params` [(name, lean type, default | None)]"""
        txt = ""
        tys = " ".join(p[1] for p in params) + " " + " ".join(ABSTRACT_TYPES[n] for n in self.abstract)
        if self.alpha == "α" and ("α" in tys or self.abstract):
            txt += "{α : Type} "
        if "γ" in tys:
            txt += "{γ : Type} "
        for n in ABSTRACT_ORDER:
            if n in self.abstract:
                txt += "(%s : %s) " % (n, ABSTRACT_TYPES[n])
        for n, t, d in params:
            txt += "(%s : %s%s) " % (ident(n), t, "" if d is None else " := %s" % d)
        return txt

    def default_term(self, name, ty, node):
        if name == "delimiter":
            if isinstance(node, ast.Constant) and type(node.value) is str:
                return self.delim_literal(node.value, node)
        elif name == "comment":
            if isinstance(node, ast.Constant) and node.value is None:
                return "none"
            if isinstance(node, ast.Constant) and type(node.value) is str and not (set(node.value) & REGEX_META):
                return "(some %s)" % lstr(node.value)
        elif name == "dtype":
            if isinstance(node, ast.Name) and node.id in ("float", "int") and node.id not in self.m.funcs \
                    and node.id not in self.m.assigned:
                self.abstract.add(node.id + "_")
                return node.id + "_"
        elif name == "header":
            if isinstance(node, ast.Constant) and type(node.value) is bool:
                return "true" if node.value else "false"
        raise Unsupported("default of %s outside the accepted literals" % name, node)

    def delim_literal(self, v, node):
        if v == "\\s+":
            return "Mir.IO.Delim.ws"
        if v and not (set(v) & REGEX_META):
            return "(Mir.IO.Delim.lit %s)" % lstr(v)
        raise Unsupported("delimiter literal %r is neither \\s+ nor a literal string" % v, node)

    def fallthrough_return(self, env):
        return self.emit_return(E("()", NONE), self.fn)

    def emit_return(self, e, node):
        self.ret_types.append(self.res(e.ty))
        if self.ret_ty is None:
            return ["pure ?"]
        return ["pure %s" % self.coerce(e, self.ret_ty, node)]

    # -- statements ---------------------------------------------------------------------
    def bind_lines(self, binds):
        return ["let %s : %s ← %s" % (n, self.lean_type(t), term) for n, term, t in binds]

    def stmts(self, sts, env, k):
        """Lines of a `do` block (in `Mir.PyIO.R`) running `sts` in `env`, then `k(env')` on fall-through."""
        if not sts:
            return k(env)
        s, rest = sts[0], sts[1:]

        def cont(env2):
            return self.stmts(rest, env2, k)

        if is_docstring(s) or isinstance(s, ast.Pass):
            return cont(env)
        if isinstance(s, ast.Return):
            if self.loop_k:
                raise Unsupported("return inside a loop", s)
            binds = []
            e = E("()", NONE) if s.value is None else self.expr(s.value, env, binds)
            return self.bind_lines(binds) + self.emit_return(e, s)
        if isinstance(s, ast.Raise):
            return [self.raise_term(s, env)]
        if isinstance(s, ast.Continue):
            if not self.loop_k:
                raise Unsupported("continue outside a loop", s)
            return self.loop_k[-1](env)
        if isinstance(s, ast.Expr):
            return self.expr_stmt(s, env, cont)
        if isinstance(s, ast.AugAssign):
            if not isinstance(s.target, ast.Name):
                raise Unsupported("augmented assignment to a non-name", s)
            val = ast.BinOp(left=ast.Name(id=s.target.id, ctx=ast.Load()), op=s.op, right=s.value)
            ast.copy_location(val, s)
            ast.copy_location(val.left, s)
            return self.assign(s.target, val, env, cont, s)
        if isinstance(s, ast.Assign):
            if len(s.targets) != 1:
                raise Unsupported("chained assignment", s)
            return self.assign(s.targets[0], s.value, env, cont, s)
        if isinstance(s, ast.If):
            return self.if_stmt(s, env, cont)
        if isinstance(s, ast.For):
            return self.for_stmt(s, env, cont)
        if isinstance(s, ast.With):
            return self.with_stmt(s, rest, env, k)
        if isinstance(s, ast.Try):
            return self.try_stmt(s, env, cont)
        raise Unsupported("statement %s" % type(s).__name__, s)

    def local_list(self, node, env):
        """`node` is the name of a local (non-parameter) list -> its name"""
        if isinstance(node, ast.Name) and node.id in env and self.res(env[node.id])[0] == "list" \
                and node.id not in [p.arg for p in self.fn.args.args]:
            return node.id
        return None

    def expr_stmt(self, s, env, cont):
        ap = append_stmt(s)
        if ap is not None:
            recv, arg = ap
            name = self.local_list(recv, env)
            if name is not None:
                if name in self.aliased:
                    raise Unsupported("%s is appended to after it was stored in another list" % name, s)
                binds = []
                e = self.expr(arg, env, binds)
                if isinstance(arg, ast.Name) and self.res(e.ty)[0] == "list":
                    self.aliased.add(arg.id)
                t = self.unify(env[name], LST(e.ty), s)
                env2 = dict(env)
                env2[name] = t
                return self.bind_lines(binds) + ["let %s : %s := (%s ++ [%s])" % (
                    ident(name), self.lean_type(t), ident(name), self.coerce(e, self.res(t)[1], s))] + cont(env2)
            if isinstance(recv, ast.Subscript) and self.local_list(recv.value, env) is not None:
                name = recv.value.id
                t = self.res(env[name])
                if t[1][0] not in ("list", "bot"):
                    raise Unsupported("append to an element of a %s" % show_type(t), s)
                binds = []
                i = self.expr(recv.slice, env, binds)
                if self.res(i.ty) != INT:
                    raise Unsupported("index of type %s" % show_type(i.ty), s)
                e = self.expr(arg, env, binds)
                if self.res(e.ty)[0] == "list":
                    raise Unsupported("a list appended to an element of a list of lists", s)
                t = self.unify(t, LST(LST(e.ty)), s)
                env2 = dict(env)
                env2[name] = t
                return self.bind_lines(binds) + ["let %s : %s ← Mir.PyIO.appendAt %s %s %s" % (
                    ident(name), self.lean_type(t), ident(name), i.term, e.term)] + cont(env2)
            raise Unsupported("append to something that is not a local list", s)
        v = s.value
        if isinstance(v, ast.Call) and isinstance(v.func, ast.Name) and v.func.id == "next" and "next" not in self.locals \
                and len(v.args) == 2 and not v.keywords and isinstance(v.args[0], ast.Name) \
                and isinstance(v.args[1], ast.Constant) and v.args[1].value is None \
                and env.get(v.args[0].id) == LINES:
            n = ident(v.args[0].id)
            return ["let %s : (List (List Char)) := (Mir.PyIO.skipLine %s)" % (n, n)] + cont(env)
        raise Unsupported("expression statement %s" % ast.unparse(v)[:60], s)

    def assign(self, target, value, env, cont, node):
        binds = []
        if isinstance(target, ast.Name):
            e = self.expr(value, env, binds)
            if self.res(e.ty)[0] in ("file", "lines"):
                raise Unsupported("aliasing a file", node)
            if isinstance(value, ast.Name) and self.res(e.ty)[0] == "list":
                raise Unsupported("aliasing a list", node)
            env2 = dict(env)
            env2[target.id] = e.ty
            self.aliased.discard(target.id)
            return self.bind_lines(binds) + ["let %s : %s := %s" % (ident(target.id), self.lean_type(e.ty), e.term)] + cont(env2)
        if isinstance(target, (ast.Tuple, ast.List)) and all(isinstance(t, ast.Name) for t in target.elts):
            names = [t.id for t in target.elts]
            if len(set(names)) != len(names):
                raise Unsupported("repeated unpacking target", node)
            for n in names:
                self.aliased.discard(n)
            env2 = dict(env)
            if isinstance(value, ast.Tuple) and len(value.elts) == len(names):
                es = [self.expr(x, env, binds) for x in value.elts]      # all evaluated before any is bound
                tmps = [self.fresh() for _ in es]
                lines = self.bind_lines(binds)
                lines += ["let %s : %s := %s" % (t, self.lean_type(x.ty), x.term) for t, x in zip(tmps, es)]
                for n, t, x in zip(names, tmps, es):
                    lines.append("let %s : %s := %s" % (ident(n), self.lean_type(x.ty), t))
                    env2[n] = x.ty
                return lines + cont(env2)
            e = self.expr(value, env, binds)
            ty = self.res(e.ty)
            if ty[0] == "tup":
                if len(ty[1]) != len(names):
                    raise Unsupported("unpacking %d values into %d names" % (len(ty[1]), len(names)), node)
                for n, t in zip(names, ty[1]):
                    env2[n] = t
                return self.bind_lines(binds) + ["let (%s) : %s := %s" % (
                    ", ".join(ident(n) for n in names), self.lean_type(ty), e.term)] + cont(env2)
            pat = "[%s]" % ", ".join(ident(n) for n in names)
            if ty[0] == "cols":
                # the tuple of columns unpacks into columns; a wrong count is a ValueError; unpacking the ROWS of a
                # single column is outside the typed subset
                for n in names:
                    env2[n] = LST(ty[1])
                return self.bind_lines(binds) + [
                    "match %s with" % e.term,
                    "| Mir.PyIO.Cols.many %s => do" % pat] + indent(cont(env2), 4) + [
                    "| Mir.PyIO.Cols.many _ => Mir.PyIO.raised PyErr.valueError none",
                    "| Mir.PyIO.Cols.one _ => Mir.PyIO.raised PyErr.other none"]
            if ty[0] == "list":
                for n in names:
                    env2[n] = ty[1]
                return self.bind_lines(binds) + ["match %s with" % e.term, "| %s => do" % pat] + \
                    indent(cont(env2), 4) + ["| _ => Mir.PyIO.raised PyErr.valueError none"]
            raise Unsupported("unpacking a value of type %s" % show_type(ty), node)
        raise Unsupported("assignment target %s" % type(target).__name__, node)

    def with_stmt(self, s, rest, env, k):
        if len(s.items) != 1:
            raise Unsupported("with of several items", s)
        it = s.items[0]
        c = it.context_expr
        ok = (isinstance(c, ast.Call) and isinstance(c.func, ast.Name) and c.func.id == "_open"
              and "_open" not in self.locals and len(c.args) == 1 and isinstance(c.args[0], ast.Name)
              and env.get(c.args[0].id) == FILE and len(c.keywords) == 1 and c.keywords[0].arg == "mode"
              and isinstance(c.keywords[0].value, ast.Constant) and c.keywords[0].value.value == "r"
              and isinstance(it.optional_vars, ast.Name))
        if not ok:
            raise Unsupported("with statement other than `with _open(<filename>, mode=\"r\") as <name>`", s)
        if self.m.open_problem:
            raise Unsupported(self.m.open_problem, s)
        v = it.optional_vars.id
        if v in env:
            raise Unsupported("the file variable %s rebinds a local" % v, s)
        env2 = dict(env)
        env2[v] = LINES
        return ["let %s : (List (List Char)) := (Mir.PyIO.openLines %s)" % (ident(v), ident(c.args[0].id))] + \
            self.stmts(list(s.body) + list(rest), env2, k)

    # -- raise ----------------------------------------------------------------------------
    def raise_term(self, s, env):
        x = s.exc
        if x is None:
            raise Unsupported("bare raise", s)
        cls = x.func if isinstance(x, ast.Call) else x
        if not (isinstance(cls, ast.Name) and cls.id in EXC and cls.id not in self.locals
                and cls.id not in self.m.funcs and cls.id not in self.m.assigned):
            raise Unsupported("raise of an exception class outside %s" % sorted(EXC), s)
        if isinstance(x, ast.Call) and (x.keywords or len(x.args) > 1):
            raise Unsupported("exception constructed from several arguments", s)
        if s.cause is not None and not isinstance(s.cause, ast.Name):
            raise Unsupported("raise ... from <expression>", s)
        row = raise_row_name(s)
        term = "none"
        if row is not None:
            if row.id not in env or self.res(env[row.id]) != INT:
                raise Unsupported("the row named by the message is not an int local", s)
            term = "(some %s)" % ident(row.id)
        return "Mir.PyIO.raised PyErr.%s %s" % (EXC[cls.id], term)

    # -- if -------------------------------------------------------------------------------
    def simple_block(self, sts):
        """only assignments to names / appends / nested simple ifs: the branch can be joined instead of duplicated"""
        for s in sts:
            if is_docstring(s) or isinstance(s, ast.Pass):
                continue
            if isinstance(s, ast.Assign) and len(s.targets) == 1 and (
                    isinstance(s.targets[0], ast.Name) or (isinstance(s.targets[0], ast.Tuple)
                                                           and all(isinstance(t, ast.Name) for t in s.targets[0].elts))):
                continue
            if append_stmt(s) is not None:
                continue
            if isinstance(s, ast.Expr) and isinstance(s.value, ast.Call) and isinstance(s.value.func, ast.Name) \
                    and s.value.func.id == "next":
                continue
            if isinstance(s, ast.If) and self.simple_block(s.body) and self.simple_block(s.orelse):
                continue
            return False
        return True

    def narrowing(self, test, env):
        """`x is None` / `x is not None` on an Option-typed local -> (name, inner type, body_is_none_case)"""
        if isinstance(test, ast.Compare) and len(test.ops) == 1 and isinstance(test.ops[0], (ast.Is, ast.IsNot)) \
                and isinstance(test.left, ast.Name) and isinstance(test.comparators[0], ast.Constant) \
                and test.comparators[0].value is None and test.left.id in env:
            t = self.res(env[test.left.id])
            if t[0] == "opt":
                return test.left.id, t[1], isinstance(test.ops[0], ast.Is)
        return None

    def if_stmt(self, s, env, cont):
        nar = self.narrowing(s.test, env)
        binds = []
        c = None if nar else self.cond(s.test, env, binds)
        saved = set(self.aliased)
        if self.simple_block(s.body) and self.simple_block(s.orelse):
            # joined: both branches fall through; the variables they (re)bind are returned as a tuple
            ends = []

            def branch(sts, benv):
                self.aliased = set(saved)
                out = {}

                def k_end(e2):
                    out["env"] = e2
                    return []
                lines = self.stmts(sts, benv, k_end)
                ends.append(set(self.aliased))
                return lines, out["env"]
            env_t, env_f = dict(env), dict(env)
            if nar:
                (env_f if nar[2] else env_t)[nar[0]] = nar[1]
            l_t, e_t = branch(s.body, env_t)
            l_f, e_f = branch(s.orelse, env_f)
            self.aliased = ends[0] | ends[1]
            names = [n for n in mutated_names(list(s.body) + list(s.orelse))
                     if n in e_t and n in e_f and not (nar and n == nar[0])]
            if nar and nar[0] in mutated_names(list(s.body) + list(s.orelse)):
                raise Unsupported("the narrowed variable is rebound in a branch", s)
            if any(";" in ln or ln.startswith(("match", "|", " ")) for ln in l_t + l_f):
                raise Unsupported("branch too complex to be joined", s)
            env2 = dict(env)
            tys = []
            for n in names:
                t = self.unify(e_t[n], e_f[n], s)
                env2[n] = t
                tys.append(t)
            if not names:
                return self.bind_lines(binds) + cont(env2)

            def ret(e_b):
                vals = [self.coerce(E(ident(n), e_b[n]), t, s) for n, t in zip(names, tys)]
                return "pure %s" % (vals[0] if len(vals) == 1 else "(%s)" % ", ".join(vals))
            b_t = "(do %s)" % "; ".join(l_t + [ret(e_t)])
            b_f = "(do %s)" % "; ".join(l_f + [ret(e_f)])
            ty = tys[0] if len(tys) == 1 else TUP(tys)
            pat = ident(names[0]) if len(names) == 1 else "(%s)" % ", ".join(ident(n) for n in names)
            if nar:
                v = ident(nar[0])
                b_none, b_some = (b_t, b_f) if nar[2] else (b_f, b_t)
                rhs = "(match %s with | none => %s | some %s => %s)" % (v, b_none, v, b_some)
            else:
                rhs = "(if %s then %s else %s)" % (c, b_t, b_f)
            return self.bind_lines(binds) + ["let %s : %s ← %s" % (pat, self.lean_type(ty), rhs)] + cont(env2)
        # duplicated continuation
        env_t, env_f = dict(env), dict(env)
        if nar:
            (env_f if nar[2] else env_t)[nar[0]] = nar[1]
        self.aliased = set(saved)
        then_lines = self.stmts(s.body, env_t, cont)
        self.aliased = set(saved)
        else_lines = self.stmts(s.orelse, env_f, cont)
        if nar:
            v = ident(nar[0])
            l_none, l_some = (then_lines, else_lines) if nar[2] else (else_lines, then_lines)
            return ["match %s with" % v, "| none => do"] + indent(l_none, 4) + ["| some %s => do" % v] + indent(l_some, 4)
        return self.bind_lines(binds) + ["if %s then do" % c] + indent(then_lines) + ["else do"] + indent(else_lines)

    # -- try ------------------------------------------------------------------------------
    def try_stmt(self, s, env, cont):
        if s.orelse or s.finalbody or len(s.handlers) != 1:
            raise Unsupported("try with else / finally / several handlers", s)
        h = s.handlers[0]
        caught = self.caught_classes(h)
        # (a) validate-then-warn: skipped
        if self.is_validate_warn(s, h, caught, env):
            return cont(env)
        # (b) a conversion whose failure is re-raised with the row
        if not (len(s.body) == 1 and isinstance(s.body[0], ast.Assign) and len(s.body[0].targets) == 1
                and isinstance(s.body[0].targets[0], ast.Name) and isinstance(s.body[0].value, ast.Call)):
            raise Unsupported("try body other than `x = <converter call>` / a validator call", s)
        if not (len(h.body) == 1 and isinstance(h.body[0], ast.Raise)):
            raise Unsupported("handler other than a single raise", h)
        if caught is not None and "ValueError" not in caught and "Exception" not in caught:
            raise Unsupported("handler does not catch ValueError", h)
        target, call = s.body[0].targets[0].id, s.body[0].value
        binds = []
        opt_term, ty = self.converter_call(call, env, binds)
        if binds and (caught is None or not set(caught) <= {"TypeError", "ValueError"}):
            raise Unsupported("argument evaluation that can raise inside a try whose handler would catch it", s)
        henv = dict(env)
        if h.name:
            henv[h.name] = NONE
        err = self.raise_term(h.body[0], henv)
        env2 = dict(env)
        env2[target] = ty
        self.aliased.discard(target)
        return self.bind_lines(binds) + ["match %s with" % opt_term, "| some %s => do" % ident(target)] + \
            indent(cont(env2), 4) + ["| none => %s" % err]

    def caught_classes(self, h):
        """None = bare except; else the list of class names"""
        if h.type is None:
            return None
        ts = h.type.elts if isinstance(h.type, ast.Tuple) else [h.type]
        out = []
        for t in ts:
            if not (isinstance(t, ast.Name) and t.id not in self.locals and t.id not in self.m.funcs
                    and t.id not in self.m.assigned):
                raise Unsupported("except clause of a computed class", h)
            out.append(t.id)
        return out

    def is_validate_warn(self, s, h, caught, env):
        if not (len(s.body) == 1 and isinstance(s.body[0], ast.Expr) and isinstance(s.body[0].value, ast.Call)):
            return False
        c = s.body[0].value
        f = c.func
        if not (isinstance(f, ast.Attribute) and isinstance(f.value, ast.Name) and f.attr.startswith("validate")
                and f.value.id not in self.locals and self.m.module_is(f.value.id, "." + "." + f.value.id)):
            return False
        if c.keywords or not all(isinstance(a, ast.Name) and a.id in env for a in c.args):
            raise Unsupported("validator called on something other than locals", s)
        if caught != ["ValueError"] or not h.name:
            raise Unsupported("validate-then-warn handler must be `except ValueError as <name>`", h)
        if not (len(h.body) == 1 and isinstance(h.body[0], ast.Expr) and isinstance(h.body[0].value, ast.Call)):
            raise Unsupported("validate-then-warn handler must only warn", h)
        w = h.body[0].value
        wf = w.func
        if not (isinstance(wf, ast.Attribute) and wf.attr == "warn" and isinstance(wf.value, ast.Name)
                and self.m.module_is(wf.value.id, "warnings") and wf.value.id not in self.locals):
            raise Unsupported("validate-then-warn handler must only call warnings.warn", h)
        for nd in ast.walk(w):
            if isinstance(nd, ast.Name) and nd.id not in (wf.value.id, h.name):
                raise Unsupported("warnings.warn built from something other than the caught error", h)
        return True

    def converter_call(self, call, env, binds):
        """`conv(s)` / `float(s)` / `int(s)` / `np.array(strs, dtype=conv)` -> (Lean term : Option T, T)"""
        f = call.func
        if isinstance(f, ast.Name) and not call.keywords and len(call.args) == 1:
            a = self.expr(call.args[0], env, binds)
            if self.res(a.ty) != STR:
                raise Unsupported("converter applied to a %s" % show_type(a.ty), call)
            if f.id in env and self.res(env[f.id])[0] == "conv":
                return "(%s %s)" % (ident(f.id), a.term), self.res(env[f.id])[1]
            if f.id in ("float", "int") and f.id not in self.locals and f.id not in self.m.funcs \
                    and f.id not in self.m.assigned:
                self.abstract.add(f.id + "_")
                return "(%s_ %s)" % (f.id, a.term), NUM
        if self.is_np(f, "array") and len(call.args) == 1 and len(call.keywords) == 1 and call.keywords[0].arg == "dtype":
            a = self.expr(call.args[0], env, binds)
            d = self.expr(call.keywords[0].value, env, binds)
            if self.res(a.ty) == LST(STR) and self.res(d.ty) == CONV(NUM):
                return "(Mir.IO.mapConv %s %s)" % (d.term, a.term), LST(NUM)
        raise Unsupported("try body is not a converter call: %s" % ast.unparse(call)[:60], call)

    def is_np(self, f, attr):
        return isinstance(f, ast.Attribute) and f.attr == attr and isinstance(f.value, ast.Name) \
            and f.value.id not in self.locals and self.m.module_is(f.value.id, "numpy")

    # -- for ------------------------------------------------------------------------------
    def for_stmt(self, s, env, cont):
        if s.orelse:
            raise Unsupported("for ... else", s)
        for nd in ast.walk(s):
            if isinstance(nd, ast.Break):
                raise Unsupported("break", nd)
        if id(s) in self.seen_loops:
            raise Unsupported("a loop lies on two control-flow paths", s)
        self.seen_loops.add(id(s))
        # iteration spec: optional index (with start), element targets, iterables
        it, target, idx, start = s.iter, s.target, None, None
        binds = []
        if isinstance(it, ast.Call) and isinstance(it.func, ast.Name) and it.func.id == "enumerate" \
                and "enumerate" not in self.locals and len(it.args) in (1, 2) and not it.keywords:
            if not (isinstance(target, ast.Tuple) and len(target.elts) == 2 and isinstance(target.elts[0], ast.Name)):
                raise Unsupported("enumerate target is not `index, element`", s)
            idx = target.elts[0].id
            if len(it.args) == 2:
                st = self.expr(it.args[1], env, binds)
                if self.res(st.ty) != INT:
                    raise Unsupported("enumerate start of type %s" % show_type(st.ty), s)
                start = st.term
            else:
                start = lean_int(0)
            it, target = it.args[0], target.elts[1]
        if isinstance(it, ast.Call) and isinstance(it.func, ast.Name) and it.func.id == "zip" \
                and "zip" not in self.locals and it.args and not it.keywords:
            iters = list(it.args)
            if not (isinstance(target, ast.Tuple) and len(target.elts) == len(iters)):
                raise Unsupported("zip target does not have one name per iterable", s)
            targets = list(target.elts)
        else:
            iters, targets = [it], [target]
        if not all(isinstance(t, ast.Name) for t in targets):
            raise Unsupported("loop target that is not a name", s)
        tnames = [t.id for t in targets]
        if len(set(tnames + ([idx] if idx else []))) != len(tnames) + (1 if idx else 0):
            raise Unsupported("repeated loop target", s)
        # iterables: a file (all remaining lines), or a list
        iter_terms, elem_tys, file_var = [], [], None
        for x in iters:
            if isinstance(x, ast.Call) and isinstance(x.func, ast.Attribute) and x.func.attr == "readlines" \
                    and not x.args and not x.keywords:
                x = x.func.value
            e = self.expr(x, env, binds)
            ty = self.res(e.ty)
            if ty == LINES:
                if len(iters) != 1 or not isinstance(x, ast.Name):
                    raise Unsupported("a file zipped with something else", s)
                file_var = x.id
                elem_tys.append(STR)
            elif ty[0] == "list":
                elem_tys.append(ty[1])
            else:
                raise Unsupported("loop over a value of type %s" % show_type(ty), s)
            iter_terms.append((x, e))
        muts = mutated_names(s.body)
        for n in tnames + ([idx] if idx else []):
            if any(isinstance(nd, ast.Name) and isinstance(nd.ctx, ast.Store) and nd.id == n
                   for b in s.body for nd in ast.walk(b)):
                raise Unsupported("loop target %s is reassigned in the body" % n, s)
        # elements appended to in place: the iterable is rebuilt
        updated = []
        for j, n in enumerate(tnames):
            if n in muts:
                x = iter_terms[j][0]
                if not (self.local_list(x, env) and self.res(elem_tys[j])[0] == "list"):
                    raise Unsupported("loop target %s is mutated but does not alias an element of a local list of lists" % n, s)
                if x.id in loaded_names(s.body) or x.id in muts:
                    raise Unsupported("%s is used in the loop that updates its elements" % x.id, s)
                updated.append(j)
        accs = [n for n in muts if n in env and n not in tnames and n != idx and n != file_var]
        for n in muts:
            if n == file_var:
                raise Unsupported("the file is consumed inside its own loop", s)
        caps = [n for n in loaded_names(s.body) if n in env and n not in accs and n not in tnames and n != idx]
        for n in caps:
            if self.res(env[n])[0] in ("file", "lines"):
                raise Unsupported("file used inside a loop", s)
        self.loops += 1
        lname = "%s_loop%d" % (ident(self.fn.name).strip("«»"), self.loops)
        acc_ty = {n: env[n] for n in accs}
        its = ["it%d__" % (j + 1) for j in range(len(iters))]
        upd_names = [tnames[j] for j in updated]
        tails = ["tail%d__" % (j + 1) for j in updated]

        def result_pack(acc_terms, upd_terms):
            xs = acc_terms + upd_terms
            if not xs:
                return "()"
            return xs[0] if len(xs) == 1 else "(%s)" % ", ".join(xs)
        res_tys = [acc_ty[n] for n in accs] + [LST(elem_tys[j]) for j in updated]
        res_ty = NONE if not res_tys else (res_tys[0] if len(res_tys) == 1 else TUP(res_tys))

        def k_loop(env2):
            for n in accs:
                if n in self.aliased:
                    raise Unsupported("%s is still stored in another list at the end of the loop body" % n, s)
                acc_ty[n] = self.unify(acc_ty[n], env2[n], s)
            for j in updated:
                elem_tys[j] = self.unify(elem_tys[j], env2[tnames[j]], s)
            args = [ident(c) for c in caps] + (["(%s + 1)" % ident(idx)] if idx else []) + \
                [self.coerce(E(ident(n), env2[n]), acc_ty[n], s) for n in accs] + its
            call = "%s @@ABS@@%s" % (lname, " ".join(args))
            if not updated:
                return [call]
            pat = result_pack([ident(n) for n in accs], tails)
            back = result_pack([ident(n) for n in accs], ["(%s :: %s)" % (ident(tnames[j]), t) for j, t in zip(updated, tails)])
            return ["let %s : %s ← %s" % (pat, self.lean_type(res_ty), call), "pure %s" % back]
        benv = {n: env[n] for n in caps}
        benv.update(acc_ty)
        if idx:
            benv[idx] = INT
        for n, t in zip(tnames, elem_tys):
            benv[n] = t
        self.loop_k.append(k_loop)
        try:
            body_lines = self.stmts(s.body, benv, k_loop)
        finally:
            self.loop_k.pop()
        res_tys = [acc_ty[n] for n in accs] + [LST(elem_tys[j]) for j in updated]
        res_ty = NONE if not res_tys else (res_tys[0] if len(res_tys) == 1 else TUP(res_tys))
        sig_parts = ["(%s : %s)" % (ident(c), self.lean_type(env[c])) for c in caps]
        arrow = (["Int"] if idx else []) + [self.lean_type(acc_ty[n]) for n in accs] + \
            [self.lean_type(LST(t)) for t in elem_tys] + ["Mir.PyIO.R %s" % self.lean_type(res_ty)]
        pat_cons = ([ident(idx)] if idx else []) + [ident(n) for n in accs] + \
            ["%s :: %s" % (ident(n), i) for n, i in zip(tnames, its)]
        if len(iters) == 1:
            pat_nil = (["_"] if idx else []) + [ident(n) for n in accs] + ["[]"]
            nil_upd = ["[]"] if updated else []
        else:
            pat_nil = (["_"] if idx else []) + [ident(n) for n in accs] + \
                [(its[j] if j in updated else "_") for j in range(len(iters))]
            nil_upd = [its[j] for j in updated]
        ret_nil = result_pack([ident(n) for n in accs], nil_upd)
        aux = ["/-- the `for` loop of `io.%s` at line %d: %sstate (%s), remaining elements%s -/"
               % (self.fn.name, s.lineno, "index, " if idx else "", ", ".join(accs) or "none",
                  "; the elements of %s are appended to in place" % ", ".join(iter_terms[j][0].id for j in updated) if updated else ""),
               "def %s %s: %s" % (lname, "@@BINDERS@@" + "".join(p + " " for p in sig_parts), " → ".join(arrow)),
               "  | %s => do" % ", ".join(pat_cons)] + indent(body_lines, 6) + [
               "  | %s => pure %s" % (", ".join(pat_nil), ret_nil)]
        self.aux.append(aux)
        call_args = [ident(c) for c in caps] + ([start] if idx else []) + \
            [self.coerce(E(ident(n), env[n]), acc_ty[n], s) for n in accs] + [e.term for _, e in iter_terms]
        env2 = dict(env)
        for n in accs:
            env2[n] = acc_ty[n]
        out_names = [ident(n) for n in accs] + [ident(iter_terms[j][0].id) for j in updated]
        for j in updated:
            env2[iter_terms[j][0].id] = LST(elem_tys[j])
        after = []
        if out_names:
            pat = out_names[0] if len(out_names) == 1 else "(%s)" % ", ".join(out_names)
            after.append("let %s : %s ← %s @@ABS@@%s" % (pat, self.lean_type(res_ty), lname, " ".join(call_args)))
        else:
            after.append("let _ : Unit ← %s @@ABS@@%s" % (lname, " ".join(call_args)))
        if file_var:
            after.append("let %s : (List (List Char)) := []" % ident(file_var))
        return self.bind_lines(binds) + after + cont(env2)

    # -- conditions -------------------------------------------------------------------------
    def cond(self, node, env, binds):
        """Bool-typed Lean term for the truth value of `node`; effects go to `binds` (short-circuit kept)."""
        if isinstance(node, ast.BoolOp):
            is_and = isinstance(node.op, ast.And)
            parts = []
            for v in node.values:
                b = []
                parts.append((b, self.cond(v, env, b)))
            b_acc, t_acc = parts[-1]
            for b_i, t_i in reversed(parts[:-1]):
                if not b_acc:
                    b_acc, t_acc = b_i, "(%s %s %s)" % (t_i, "&&" if is_and else "||", t_acc)
                else:
                    tmp = self.fresh()
                    inner = "(do %s; pure %s)" % ("; ".join(self.bind_lines(b_acc)), t_acc)
                    if is_and:
                        term = "(if %s then %s else pure false)" % (t_i, inner)
                    else:
                        term = "(if %s then pure true else %s)" % (t_i, inner)
                    b_acc, t_acc = b_i + [(tmp, term, BOOL)], tmp
            binds += b_acc
            return t_acc
        if isinstance(node, ast.UnaryOp) and isinstance(node.op, ast.Not):
            return "(!%s)" % self.cond(node.operand, env, binds)
        # `m.match(line)`: only its truth value is used
        if isinstance(node, ast.Call) and isinstance(node.func, ast.Attribute) and node.func.attr == "match" \
                and len(node.args) == 1 and not node.keywords:
            r = self.expr(node.func.value, env, binds)
            a = self.expr(node.args[0], env, binds)
            rt = self.res(r.ty)
            if self.res(a.ty) == STR and rt in (MATCHER, OPT(MATCHER), NONE):
                if rt == MATCHER:
                    return "(Mir.PyIO.Matcher.matches %s %s)" % (r.term, a.term)
                tmp = self.fresh()
                binds.append((tmp, "Mir.PyIO.reMatch %s %s" % (self.coerce(r, OPT(MATCHER), node), a.term), BOOL))
                return tmp
            raise Unsupported(".match on a %s" % show_type(rt), node)
        e = self.expr(node, env, binds)
        t = self.res(e.ty)
        if t == BOOL:
            return e.term
        if t == INT:
            return "(decide (%s ≠ 0))" % e.term
        if t == STR or t[0] == "list":
            return "(!(List.isEmpty %s))" % e.term
        if t == NONE:
            return "false"
        if t == OPT(MATCHER):
            return "(Option.isSome %s)" % e.term
        raise Unsupported("truth value of a %s" % show_type(t), node)

    # -- expressions ------------------------------------------------------------------------
    def builtin(self, name):
        return name not in self.locals and name not in self.m.funcs and name not in self.m.assigned \
            and name not in self.m.imports

    def expr(self, node, env, binds):
        if isinstance(node, ast.Constant):
            v = node.value
            if v is None:
                return E("()", NONE)
            if type(v) is bool:
                return E("true" if v else "false", BOOL, lit=v)
            if type(v) is int:
                return E(lean_int(v), INT, lit=v)
            if type(v) is str:
                return E(lstr(v), STR, lit=v)
            raise Unsupported("literal of type %s" % type(v).__name__, node)
        if isinstance(node, ast.Name):
            if node.id in env:
                return E(ident(node.id), env[node.id])
            if node.id in self.locals:
                raise Unsupported("local %s may be unbound here" % node.id, node)
            if node.id in ("float", "int") and self.builtin(node.id):
                self.abstract.add(node.id + "_")
                return E(node.id + "_", CONV(NUM))
            raise Unsupported("unknown name %s" % node.id, node)
        if isinstance(node, ast.Tuple):
            elts = [self.expr(x, env, binds) for x in node.elts]
            if len(elts) < 2:
                raise Unsupported("tuple of length < 2", node)
            return E("(%s)" % ", ".join(x.term for x in elts), TUP([x.ty for x in elts]))
        if isinstance(node, ast.List):
            return self.list_display(node, env, binds)
        if isinstance(node, ast.ListComp) or isinstance(node, ast.GeneratorExp):
            e = self.empty_lists_of_range(node, env, binds) if isinstance(node, ast.ListComp) else None
            if e is None:
                raise Unsupported("comprehension other than `[] for _ in range(n)`", node)
            return e
        if isinstance(node, ast.UnaryOp) and isinstance(node.op, ast.Not):
            return E(self.cond(node, env, binds), BOOL)
        if isinstance(node, ast.UnaryOp) and isinstance(node.op, ast.USub) and isinstance(node.operand, ast.Constant) \
                and type(node.operand.value) is int:
            return E(lean_int(-node.operand.value), INT, lit=-node.operand.value)
        if isinstance(node, ast.BinOp) and isinstance(node.op, (ast.Add, ast.Sub)):
            a, b = self.expr(node.left, env, binds), self.expr(node.right, env, binds)
            if self.res(a.ty) == INT and self.res(b.ty) == INT:
                return E("(%s %s %s)" % (a.term, "+" if isinstance(node.op, ast.Add) else "-", b.term), INT)
            raise Unsupported("arithmetic on %s and %s" % (show_type(a.ty), show_type(b.ty)), node)
        if isinstance(node, ast.BoolOp):
            return E(self.cond(node, env, binds), BOOL) if all(self.is_boolish(v, env) for v in node.values) else \
                self.unsupported("`and`/`or` of non-bool operands used as a value", node)
        if isinstance(node, ast.Compare):
            return self.compare(node, env, binds)
        if isinstance(node, ast.Subscript):
            return self.subscript(node, env, binds)
        if isinstance(node, ast.Attribute) and node.attr == "T":
            c = node.value
            if isinstance(c, ast.Call) and self.is_np(c.func, "array") and len(c.args) == 1 and not c.keywords \
                    and isinstance(c.args[0], ast.List) and len(c.args[0].elts) == 2:
                a, b = [self.expr(x, env, binds) for x in c.args[0].elts]
                if self.res(a.ty) == LST(CELL) and self.res(b.ty) == LST(CELL):
                    tmp = self.fresh()
                    binds.append((tmp, "Mir.PyIO.npPairs %s %s" % (a.term, b.term), LST(PAIR)))
                    return E(tmp, LST(PAIR))
            raise Unsupported(".T of something other than np.array([<column>, <column>])", node)
        if isinstance(node, ast.Call):
            return self.call(node, env, binds)
        raise Unsupported("expression %s" % type(node).__name__, node)

    def unsupported(self, msg, node):
        raise Unsupported(msg, node)

    def is_boolish(self, node, env):
        if isinstance(node, (ast.Compare, ast.BoolOp)) or (isinstance(node, ast.UnaryOp) and isinstance(node.op, ast.Not)):
            return True
        return isinstance(node, ast.Name) and self.res(env.get(node.id, NONE)) == BOOL

    def list_display(self, node, env, binds):
        if not node.elts:
            return E("[]", LST(BOT((node.lineno, node.col_offset))))
        if all(isinstance(x, ast.Name) and x.id in ("float", "int", "str") and self.builtin(x.id) for x in node.elts):
            # a converter list: every column holds cells
            terms = []
            for x in node.elts:
                if x.id == "str":
                    terms.append("Mir.IO.strConv")
                else:
                    self.abstract.add(x.id + "_")
                    terms.append("(Mir.IO.numConv %s_)" % x.id)
            ty = LST(CONV(CELL))
            return E("([%s] : %s)" % (", ".join(terms), self.lean_type(ty)), ty)
        elts = [self.expr(x, env, binds) for x in node.elts]
        t = elts[0].ty
        for x in elts[1:]:
            t = self.unify(t, x.ty, node)
        if self.res(t)[0] in ("file", "lines", "conv"):
            raise Unsupported("list of %s" % show_type(t), node)
        return E("[%s]" % ", ".join(self.coerce(x, t, node) for x in elts), LST(t))

    def subscript(self, node, env, binds):
        x = self.expr(node.value, env, binds)
        t = self.res(x.ty)
        if t[0] != "list":
            raise Unsupported("subscript of a %s" % show_type(t), node)
        sl = node.slice
        if isinstance(sl, ast.Slice):
            if sl.upper is None and sl.step is None and isinstance(sl.lower, ast.Constant) \
                    and type(sl.lower.value) is int and sl.lower.value >= 0:
                return E("(Mir.PyIO.sliceFrom %s %d)" % (x.term, sl.lower.value), t)
            raise Unsupported("slice other than xs[k:]", node)
        i = self.expr(sl, env, binds)
        if self.res(i.ty) != INT:
            raise Unsupported("index of type %s" % show_type(i.ty), node)
        tmp = self.fresh()
        binds.append((tmp, "Mir.PyIO.index %s %s" % (x.term, i.term), t[1]))
        return E(tmp, t[1])

    def compare(self, node, env, binds):
        operands = [node.left] + list(node.comparators)
        # lo <= x <= hi on a converted number
        if len(node.ops) == 2 and all(isinstance(o, ast.LtE) for o in node.ops) \
                and all(isinstance(operands[k], ast.Constant) and type(operands[k].value) is int for k in (0, 2)):
            x = self.expr(operands[1], env, binds)
            xt = self.res(x.ty)
            lo, hi = lean_int(operands[0].value), lean_int(operands[2].value)
            if xt == NUM:
                self.abstract.add("between_")
                return E("(between_ %s %s %s)" % (lo, hi, x.term), BOOL)
            if xt == CELL:
                self.abstract.add("between_")
                tmp = self.fresh()
                binds.append((tmp, "Mir.PyIO.cellBetween between_ %s %s %s" % (lo, hi, x.term), BOOL))
                return E(tmp, BOOL)
        if len(node.ops) != 1:
            raise Unsupported("chained comparison", node)
        op, ln, rn = node.ops[0], operands[0], operands[1]
        if isinstance(op, (ast.Is, ast.IsNot)):
            if not (isinstance(rn, ast.Constant) and rn.value is None):
                raise Unsupported("`is` with anything but None", node)
            a = self.expr(ln, env, binds)
            t = self.res(a.ty)
            r = "true" if t == NONE else "(Option.isNone %s)" % a.term if t[0] == "opt" else "false"
            if t[0] == "bot":
                raise Unsupported("`is None` on a value of unknown type", node)
            return E(r if isinstance(op, ast.Is) else "(!%s)" % r, BOOL)
        if isinstance(op, (ast.In, ast.NotIn)):
            a, b = self.expr(ln, env, binds), self.expr(rn, env, binds)
            if self.res(a.ty) == STR and self.res(b.ty) == STR:
                r = "(Mir.PyIO.contains %s %s)" % (a.term, b.term)
                return E(r if isinstance(op, ast.In) else "(!%s)" % r, BOOL)
            raise Unsupported("`in` on %s and %s" % (show_type(a.ty), show_type(b.ty)), node)
        # comparison with the empty list display
        for x, y in ((ln, rn), (rn, ln)):
            if isinstance(y, ast.List) and not y.elts and isinstance(op, (ast.Eq, ast.NotEq)):
                a = self.expr(x, env, binds)
                if self.res(a.ty)[0] != "list":
                    raise Unsupported("comparison of a %s with []" % show_type(a.ty), node)
                r = "(List.isEmpty %s)" % a.term
                return E(r if isinstance(op, ast.Eq) else "(!%s)" % r, BOOL)
        a, b = self.expr(ln, env, binds), self.expr(rn, env, binds)
        if self.res(a.ty) != INT or self.res(b.ty) != INT:
            raise Unsupported("comparison of %s and %s" % (show_type(a.ty), show_type(b.ty)), node)
        if isinstance(op, (ast.Eq, ast.NotEq)):
            r = "(decide (%s = %s))" % (a.term, b.term)
            return E(r if isinstance(op, ast.Eq) else "(!%s)" % r, BOOL)
        sym = {ast.Lt: "<", ast.LtE: "≤", ast.Gt: ">", ast.GtE: "≥"}.get(type(op))
        if sym is None:
            raise Unsupported("comparison operator %s" % type(op).__name__, node)
        return E("(decide (%s %s %s))" % (a.term, sym, b.term), BOOL)

    # -- calls --------------------------------------------------------------------------------
    def empty_lists_of_range(self, node, env, binds):
        """`<list() | []> for _ in range(n)` -> term of n | None"""
        if not isinstance(node, (ast.GeneratorExp, ast.ListComp)) or len(node.generators) != 1:
            return None
        g = node.generators[0]
        e = node.elt
        empty = (isinstance(e, ast.List) and not e.elts) or (
            isinstance(e, ast.Call) and isinstance(e.func, ast.Name) and e.func.id == "list" and self.builtin("list")
            and not e.args and not e.keywords)
        if not (empty and not g.ifs and not g.is_async and isinstance(g.target, ast.Name)
                and isinstance(g.iter, ast.Call) and isinstance(g.iter.func, ast.Name) and g.iter.func.id == "range"
                and self.builtin("range") and len(g.iter.args) == 1 and not g.iter.keywords):
            return None
        n = self.expr(g.iter.args[0], env, binds)
        if self.res(n.ty) != INT:
            return None
        return E("(Mir.PyIO.emptyLists %s)" % n.term, LST(LST(BOT((node.lineno, node.col_offset)))))

    def anchored_marker(self, node, env, binds):
        """`"^{}".format(m)` / `"^" + m` / `"^%s" % m` for a marker m -> term of m | None"""
        m = None
        if isinstance(node, ast.Call) and isinstance(node.func, ast.Attribute) and node.func.attr == "format" \
                and isinstance(node.func.value, ast.Constant) and node.func.value.value in ("^{}", "^{0}") \
                and len(node.args) == 1 and not node.keywords:
            m = node.args[0]
        elif isinstance(node, ast.BinOp) and isinstance(node.op, ast.Add) and isinstance(node.left, ast.Constant) \
                and node.left.value == "^":
            m = node.right
        elif isinstance(node, ast.BinOp) and isinstance(node.op, ast.Mod) and isinstance(node.left, ast.Constant) \
                and node.left.value == "^%s":
            m = node.right
        if m is None:
            return None
        e = self.expr(m, env, binds)
        if self.res(e.ty) != MARKER:
            raise Unsupported("comment pattern built from a %s (a str that is not None is needed)" % show_type(e.ty), node)
        return e

    def call(self, node, env, binds):
        f = node.func
        args = node.args
        if any(isinstance(a, ast.Starred) for a in args) or any(k.arg is None for k in node.keywords):
            raise Unsupported("starred argument", node)
        if isinstance(f, ast.Attribute):
            return self.method(node, env, binds)
        if not isinstance(f, ast.Name):
            raise Unsupported("call of a computed function", node)
        if f.id in self.locals:
            raise Unsupported("call of a local outside a try", node)
        if f.id in self.m.funcs and f.id not in self.m.assigned and f.id not in self.m.imports:
            return self.call_translated(node, env, binds)
        if not self.builtin(f.id):
            raise Unsupported("call of %s" % f.id, node)
        if f.id == "len" and len(args) == 1 and not node.keywords:
            a = self.expr(args[0], env, binds)
            if self.res(a.ty) == STR or self.res(a.ty)[0] == "list":
                return E("(Mir.PyIO.len %s)" % a.term, INT)
            raise Unsupported("len of a %s" % show_type(a.ty), node)
        if f.id in ("tuple", "list") and len(args) == 1 and not node.keywords:
            e = self.empty_lists_of_range(args[0], env, binds)
            if e is not None:
                return e
        if f.id == "list" and not args and not node.keywords:
            return E("[]", LST(BOT((node.lineno, node.col_offset))))
        if f.id in ("float", "int") and len(args) == 1 and not node.keywords:
            a = self.expr(args[0], env, binds)
            if self.res(a.ty) != STR:
                raise Unsupported("%s of a %s" % (f.id, show_type(a.ty)), node)
            self.abstract.add(f.id + "_")
            tmp = self.fresh()
            binds.append((tmp, "Mir.PyIO.callConv %s_ %s" % (f.id, a.term), NUM))
            return E(tmp, NUM)
        raise Unsupported("call of %s" % f.id, node)

    def call_translated(self, node, env, binds):
        f = node.func
        sig = self.m.translate(f.id, node)
        given = {}
        if len(node.args) > len(sig.params):
            raise Unsupported("too many arguments for %s" % f.id, node)
        for (pn, _, _), a in zip(sig.params, node.args):
            given[pn] = a
        for kw in node.keywords:
            if kw.arg in given or kw.arg not in [p[0] for p in sig.params]:
                raise Unsupported("keyword %s of %s" % (kw.arg, f.id), node)
            given[kw.arg] = kw.value
        # arguments are evaluated in the order they are written
        order = list(node.args) + [kw.value for kw in node.keywords]
        vals = {id(a): self.expr(a, env, binds) for a in order}
        inst = None
        terms = []
        for pn, pt, pd in sig.params:
            if pn in given:
                e = vals[id(given[pn])]
                et = self.res(e.ty)
                if mentions(pt, "gamma"):
                    if pt == LST(CONV(GAMMA)) and et[0] == "list" and et[1][0] == "conv":
                        if inst is not None and inst != et[1][1]:
                            raise Unsupported("inconsistent instantiation of the cell type", node)
                        inst = et[1][1]
                        terms.append(e.term)
                        continue
                    raise Unsupported("argument %s of %s has type %s" % (pn, f.id, show_type(et)), node)
                terms.append(self.coerce(e, pt, node))
            elif pd is not None:
                terms.append(pd)
                if pd in ("float_", "int_"):
                    self.abstract.add(pd)
            else:
                raise Unsupported("missing argument %s of %s" % (pn, f.id), node)
        if sig.gamma and inst is None:
            raise Unsupported("cell type of %s not determined" % f.id, node)
        for n in sig.abstract:
            self.abstract.add(n)
        if sig.alpha and not sig.abstract and not any(mentions(p[1], "num") or mentions(p[1], "cell") for p in sig.params) \
                and not sig.gamma:
            raise Unsupported("callee %s has an undetermined number type" % f.id, node)
        ret = subst_gamma(sig.ret, inst) if inst is not None else sig.ret
        tmp = self.fresh()
        binds.append((tmp, "%s %s" % (ident(f.id), " ".join(sig.abstract + terms)), ret))
        return E(tmp, ret)

    def method(self, node, env, binds):
        f, args = node.func, node.args
        if node.keywords and not self.is_np(f, "array"):
            raise Unsupported("keyword arguments of .%s" % f.attr, node)
        # re.compile
        if f.attr == "compile" and isinstance(f.value, ast.Name) and f.value.id not in self.locals \
                and self.m.module_is(f.value.id, "re") and len(args) == 1:
            am = self.anchored_marker(args[0], env, binds)
            if am is not None:
                return E("(Mir.PyIO.reCompileStart %s)" % am.term, MATCHER)
            a = self.expr(args[0], env, binds)
            if self.res(a.ty) == DELIMSRC:
                return E("(Mir.PyIO.reCompile %s)" % a.term, SPLITTER)
            raise Unsupported("re.compile of a %s" % show_type(a.ty), node)
        if self.is_np(f, "array") and len(args) == 1 and not node.keywords:
            a = self.expr(args[0], env, binds)
            t = self.res(a.ty)
            if t == LST(NUM):
                return E(a.term, LST(NUM))
            prim = {COLS(CELL): "npArrayCols", LST(CELL): "npArray"}.get(t)
            if prim is None:
                raise Unsupported("np.array of a %s" % show_type(t), node)
            tmp = self.fresh()
            binds.append((tmp, "Mir.PyIO.%s %s" % (prim, a.term), LST(NUM)))
            return E(tmp, LST(NUM))
        if self.is_np(f, "concatenate") and len(args) == 1 and isinstance(args[0], ast.List) and len(args[0].elts) == 2:
            a, b = [self.expr(x, env, binds) for x in args[0].elts]
            if self.res(a.ty) == LST(CELL) and self.res(b.ty) == LST(CELL):
                tmp = self.fresh()
                binds.append((tmp, "Mir.PyIO.npConcat2 %s %s" % (a.term, b.term), LST(NUM)))
                return E(tmp, LST(NUM))
            raise Unsupported("np.concatenate of %s and %s" % (show_type(a.ty), show_type(b.ty)), node)
        # "...{}...".format(strings)
        if f.attr == "format" and isinstance(f.value, ast.Constant) and type(f.value.value) is str:
            pieces = f.value.value.split("{}")
            if len(pieces) != len(args) + 1 or any("{" in p or "}" in p for p in pieces):
                raise Unsupported("format template other than plain {} placeholders", node)
            parts = [lstr(pieces[0])] if pieces[0] else []
            for a, p in zip(args, pieces[1:]):
                e = self.expr(a, env, binds)
                t = self.res(e.ty)
                if t == CELL:
                    tmp = self.fresh()
                    binds.append((tmp, "Mir.PyIO.cellStr %s" % e.term, STR))
                    parts.append(tmp)
                elif t == STR:
                    parts.append(e.term)
                else:
                    raise Unsupported("format of a %s" % show_type(t), node)
                if p:
                    parts.append(lstr(p))
            return E("(%s)" % " ++ ".join(parts) if parts else lstr(""), STR)
        recv = self.expr(f.value, env, binds)
        rt = self.res(recv.ty)
        if rt == SPLITTER and f.attr == "split" and len(args) in (1, 2):
            s = self.expr(args[0], env, binds)
            if self.res(s.ty) != STR:
                raise Unsupported("split of a %s" % show_type(s.ty), node)
            if len(args) == 1:
                return E("(Mir.PyIO.reSplitAll %s %s)" % (recv.term, s.term), LST(STR))
            k = self.expr(args[1], env, binds)
            if self.res(k.ty) != INT:
                raise Unsupported("maxsplit of type %s" % show_type(k.ty), node)
            return E("(Mir.PyIO.reSplitMax %s %s %s)" % (recv.term, s.term, k.term), LST(STR))
        if rt == STR and f.attr in ("strip", "lstrip", "rstrip") and not args:
            return E("(Mir.PyIO.%s %s)" % (f.attr, recv.term), STR)
        if rt == STR and f.attr == "split" and len(args) == 1 and isinstance(args[0], ast.Constant) \
                and type(args[0].value) is str and args[0].value:
            return E("(Mir.PyIO.strSplit %s %s)" % (lstr(args[0].value), recv.term), LST(STR))
        if rt == LINES and f.attr == "readlines" and not args:
            raise Unsupported("readlines() outside a for statement", node)
        raise Unsupported("method .%s on a %s" % (f.attr, show_type(rt)), node)


# ----------------------------------------------------------------------------------------
# driver handler (protocol op `gen.io <function> <args...>`; numbers are tokens: α = List Char)

def val_decoder(ty, v):
    if ty == FILE:
        return "let %s ← (Val.asStr? %s).map String.toList" % (v, v)
    if ty == LST(CONV(GAMMA)):
        return "let %s ← (do Mir.IO.parseConvs (← Val.asStrs? %s))" % (v, v)
    if ty == DELIMSRC:
        return "let %s ← (do Mir.IO.parseDelim (← Val.asStr? %s))" % (v, v)
    if ty == OPT(MARKER):
        return "let %s ← Mir.IO.parseComment %s" % (v, v)
    if ty == CONV(NUM):
        return "let %s ← (do Mir.PyIO.convByName (← Val.asStr? %s))" % (v, v)
    if ty == BOOL:
        return "let %s ← Val.asBool? %s" % (v, v)
    raise Unsupported("no protocol decoder for %s" % show_type(ty))


def val_encoder(ty):
    k = ty[0]
    if k in ("num", "str"):
        return "Mir.IO.vStr"
    if k == "cell":
        return "Mir.IO.cellVal"
    if k == "int":
        return "Val.ofInt"
    if k == "bool":
        return "Val.bool"
    if k == "none":
        return "(fun _ => Val.none)"
    if k == "list":
        return "(fun xs => Val.list (List.map %s xs))" % val_encoder(ty[1])
    if k == "cols" and ty[1] in (CELL, GAMMA):
        return "Mir.PyIO.vCols"
    if k == "tup":
        vs = ["x%d" % i for i in range(len(ty[1]))]
        return "(fun (%s) => Val.list [%s])" % (
            ", ".join(vs), ", ".join("%s %s" % (val_encoder(t), v) for t, v in zip(ty[1], vs)))
    raise Unsupported("no protocol encoder for %s" % show_type(ty))


ABSTRACT_INSTANCE = {"float_": "Mir.IO.floatConv", "int_": "Mir.IO.intConv", "between_": "Mir.PyIO.betweenTok"}

HEADER = """import MirModel.PyIO
/-!
  GENERATED by harness/translate/ioload.py from mir_eval/io.py — do not edit.
  One shallow definition per translated loader (`Mir.Gen.io.<function>`), over `Mir.PyIO` (run-time library built on
  the primitives of the hand-written loader model `MirModel/IO.lean`).  Regenerated from the working tree on every run
  of ./check C20; `MirProofs/Props/C20_GenIO.lean` proves each of them equal to the hand-written model (errors compared
  through `Mir.PyIO.obs`: class + row named by the message), so C20's theorems are re-checked against what the source
  says now.  `filename` is the TEXT of the file; `float_` / `int_` are the abstract `float()` / `int()`; `between_ lo hi x`
  is the abstract test `lo <= x <= hi` on converted numbers; warnings (validate-then-warn blocks) are skipped.
-/
set_option linter.unusedVariables false
"""


def translate_all(repo, wanted=None):
    """-> (lean text, {function: Sig}, problems [(function, detail)])"""
    wanted = WANTED if wanted is None else wanted
    path = os.path.join(repo, "mir_eval", "io.py")
    problems, done = [], {}
    try:
        m = Module(open(path, encoding="utf-8").read())
    except (OSError, SyntaxError) as e:
        m = None
        problems = [(fn, "cannot read/parse %s: %s" % (path, e)) for fn in wanted]
    if m is not None:
        for fname in wanted:
            try:
                done[fname] = m.translate(fname)
            except Unsupported as e:
                problems.append((fname, e.detail))
    L = [HEADER, "namespace Mir.Gen.io", ""]
    rows = []
    if m is not None:
        for fname, lines in m.emitted:
            L += lines + [""]
            sig = m.sigs[fname]
            try:
                vs = ["a%d" % i for i in range(len(sig.params))]
                decs = [val_decoder(p[1], v) for p, v in zip(sig.params, vs)]
                ret = subst_gamma(sig.ret, CELL)
                enc = val_encoder(ret)
            except Unsupported:
                continue
            inst = "(α := List Char) " if sig.alpha else ""
            if sig.gamma:
                inst += "(γ := Mir.IO.Cell (List Char)) "
            rows.append("  | \"gen.io\", Val.str \"%s\" :: [%s] => do\n%s      Mir.PyIO.vResult %s (Mir.Gen.io.%s %s%s)" % (
                fname, ", ".join(vs), "".join("      %s\n" % d for d in decs), enc, ident(fname), inst,
                " ".join([ABSTRACT_INSTANCE[n] for n in sig.abstract] + vs)))
    L.append("end Mir.Gen.io")
    L.append("")
    L.append("namespace Mir.Gen.IOLoad")
    L.append("")
    L.append("/-- names of the translated functions (in emission order) -/")
    L.append("def names : List String := [%s]" % ", ".join('"%s"' % fn for fn, _ in (m.emitted if m else [])))
    L.append("")
    L.append("/-- protocol op `gen.io <function> <args...>` (arguments in the order of the Python parameters) -/")
    L.append("def handler : Handler := fun fn args =>")
    L.append("  match fn, args with")
    L += rows
    L.append("  | _, _ => none")
    L.append("")
    L.append("end Mir.Gen.IOLoad")
    return "\n".join(L) + "\n", done, problems


def generate(repo, outdir):
    text, done, problems = translate_all(repo)
    os.makedirs(outdir, exist_ok=True)
    write_if_changed(os.path.join(outdir, "IOLoad.lean"), text)
    obligations = ["Mir.Gen.io.%s" % fn for fn in WANTED if fn in done]
    probs = [{"name": "ioload: io.%s" % fn, "detail": "outside the translated subset: " + d} for fn, d in problems]
    return obligations, probs


if __name__ == "__main__":
    repo = sys.argv[1] if len(sys.argv) > 1 else "/repo"
    text, done, problems = translate_all(repo)
    sys.stdout.write(text)
    for p in problems:
        sys.stderr.write("PROBLEM io.%s: %s\n" % p)
