"""mir_eval.melody frame metrics, validation, `freq_to_voicing`, `constant_hop_timebase`, the glue of `evaluate` -> lean/MirGen/Melody.lean  (AST
based; mir_eval is never imported).  Translator part `melody` (C04 / C09 / C01).

One SHALLOW Lean definition per translated function, `Mir.Gen.melody.<function>`, over the run-time library
`lean/MirModel/PyMel.lean` (`Mir.PyMel`, + `Mir.PyM.divNp` / `Mir.PyS.divF`), plus a driver handler
(`Mir.Gen.Melody.handler`, protocol op `gen.melody <"function"> <args...>`; `gen.melody "?"` lists the translated functions, so
that suite `gen_melody` asks only for those: a function that left the subset is a translator problem, not a disagreement).  `MirProofs/Props/C04_GenMelody.lean`
proves every one of them equal to the hand-written model (`MirModel/Melody.lean`) for ALL inputs, so the melody theorems of
C04 / C09 / C01 / C07 are re-checked against what the source says *now* on every run.

An extension of the `segindex` / `multipitch` translators (whose outputs are untouched): statements, conditions, tuples,
scalar arithmetic, calls of other translated functions and above all the typing of `/` (exact quotient by a non-zero
literal | `divNp` when a NumPy scalar is involved: nan / +-inf, never raises | `PyS.divF` for two Python numbers:
ZeroDivisionError) are inherited.  Fails closed: anything not listed is `Unsupported` => the function is not emitted =>
translator problem => broken obligation.

ADDED SUBSET
  parameters   `np.ndarray` = a 1-D array whose element kind numpydoc cannot say: declared in ARRAY_PARAMS below per
               function, by position (float arrays `List Rat` | Hz arrays `List Melody.Freq` | a None-able float array) and
               checked against the documented text; `float`.
  statements   `warnings.warn(...)` statements and `if c: warnings.warn(...)` blocks are dropped (warnings are not
               modelled; `c` must be inside the subset and unable to raise);
               `raise <Builtin>Error(<literal message>)`;
               `for v in [x, y, ..]:` over a list display of local names is UNROLLED (`v = x; body; v = y; body; ..`; no
               break / continue / else; the body must not assign `v` or the listed names);
               `if p is [not] None: A else: B` for a None-able parameter `p` -> `match p with | some p => A.. | none => B..`;
               `x[mask] = <float literal>` on a float array the function has just copied (ownership as in `chordfns`).
  expressions  float arrays: `a + b`, `a - b`, `a * b` (NumPy broadcasting, `PyMel.bcast`: ValueError unless equal lengths
               or one operand of length 1), `a * mask` / `mask * a`, `a <op> s` / `s <op> a` for a scalar `s` (`/` only by a
               non-zero literal), `np.abs(a)`, `np.floor(a)`, `np.round(a, 10)`, `np.sum(a)` / `a.sum()` (a NumPy scalar),
               `a.size`, `a.shape[0]`, `len(a)`, `a[mask]` (IndexError unless the lengths agree or the mask is empty),
               `np.array(a, dtype=float)` (a copy);
               masks: `a <cmp> s` / `s <cmp> a`, `np.logical_and(m, n)`, `np.logical_or(m, n)` (broadcasting), `m.any()`,
               builtin `sum(m)`, `m.astype(float)`;
               Hz arrays: `f <cmp> 0` (the sign), `np.abs(f)`;
               NumPy scalars that may be nan / inf (`Segment.Num`): `+ - * /` (IEEE, `PyMel.nadd` ..), `np.floor(x)`,
               `int(x)` (ValueError on nan, OverflowError on inf), `np.round(x, 10)` of a finite float;
               `np.linspace(<float>, <float>, <int>)`.
               `**kwargs` is accepted when its only use is `util.filter_kwargs(<f>, <positional args>, **kwargs)`: it is
               read as one optional parameter per defaulted parameter of those callees beyond the positional arguments and
               `util.filter_kwargs(f, *a, **kw)` as `f(*a, **{k: v for k in kw if f has a parameter k})`;
               `d = collections.OrderedDict()`, `d[<string literal>] = <score>` (each key at most once: an append), `return d`;
               EXTERN (bound to the hand model, `PyMel.to_cent_voicing`): `util.filter_kwargs(to_cent_voicing, ...)` — the
               source's signature of `to_cent_voicing` must be exactly TCV_PARAMS / TCV_DEFAULTS below; `base_frequency`
               is the unit of the log domain and has no counterpart.
  NOT TRANSLATED (stay hand model + correspondence): `hz2cents` (a `log2`: the hand model works in the cent domain),
               `resample_melody_series`, `to_cent_voicing`.

`python harness/translate/melody.py [repo]` prints the generated file.
"""
import ast
import os
import re
import sys

try:
    from translate import write_if_changed
    from translate import segindex as SI
    from translate import multipitch as MP
except ImportError:  # run as a script
    sys.path.insert(0, os.path.dirname(os.path.dirname(os.path.abspath(__file__))))
    from translate import write_if_changed
    from translate import segindex as SI
    from translate import multipitch as MP

from translate.segindex import (Unsupported, E, NAT, INT, RAT, NUM, BOOL, NONE, NUMERIC, VEC, TUP, OPT, MASK, ident,  # noqa: E402
                                indent, coerce, const_expr, dotted, assigned_names, show_type, doc_param_types, Sig)

# functions of mir_eval/melody.py, in emission order; REQUIRED: one that leaves the subset is a translator problem
WANTED = ["validate_voicing", "validate", "voicing_recall", "voicing_false_alarm", "voicing_measures",
          "raw_pitch_accuracy", "raw_chroma_accuracy", "overall_accuracy", "freq_to_voicing", "constant_hop_timebase",
          "evaluate"]

FVEC = VEC(RAT)                 # a 1-D float array
BMASK = MASK("vec")             # a 1-D boolean array
FREQ = ("freq",)                # a frequency in Hz, in the log domain (Melody.Freq)
FREQS = VEC(FREQ)
KIND = ("kind",)                # the interpolation kind of the extern to_cent_voicing (Melody.Kind)
DICT = ("dict",)                # an OrderedDict with string-literal keys and score values: List (String × Num), in insertion order

# the element kind of the `np.ndarray` parameters, per function, in order (numpydoc says `np.ndarray` for all of them)
ARRAY_PARAMS = {
    "validate_voicing": [FVEC, FVEC],
    "validate": [FVEC, FVEC, FVEC, FVEC],
    "voicing_recall": [FVEC, FVEC],
    "voicing_false_alarm": [FVEC, FVEC],
    "voicing_measures": [FVEC, FVEC],
    "raw_pitch_accuracy": [FVEC, FVEC, FVEC, FVEC],
    "raw_chroma_accuracy": [FVEC, FVEC, FVEC, FVEC],
    "overall_accuracy": [FVEC, FVEC, FVEC, FVEC],
    "freq_to_voicing": [FREQS, OPT(FVEC)],
    "evaluate": [FVEC, FREQS, FVEC, FREQS, OPT(FVEC), OPT(FVEC)],
}

# the extern `to_cent_voicing` (NOT translated: bound to the hand model, MirModel/PyMel.lean): its parameter names and
# defaults must be exactly these, else the functions that call it leave the subset.  `base_frequency` is the unit of the
# log domain and has no counterpart in the model.
TCV_PARAMS = ["ref_time", "ref_freq", "est_time", "est_freq", "est_voicing", "ref_reward", "base_frequency", "hop", "kind"]
TCV_DEFAULTS = [None, None, 10.0, None, "linear"]

EXC = {"ValueError": "valueError", "IndexError": "indexError", "TypeError": "typeError", "KeyError": "keyError",
       "ZeroDivisionError": "zeroDivision"}

# segindex.lean_type / multipitch.lean_type know no `freq`; extend them (a pure extension: the kind never arises there)
_mp_lean_type = MP.lean_type


def lean_type(t):
    if t == FREQ:
        return "Mir.Melody.Freq"
    if t == KIND:
        return "Mir.Melody.Kind"
    if t == DICT:
        return "(List (String × Mir.Segment.Num))"
    return _mp_lean_type(t)


SI.lean_type = lean_type
MP.lean_type = lean_type

CMP = {ast.Eq: "=", ast.NotEq: "≠", ast.Lt: "<", ast.LtE: "≤", ast.Gt: ">", ast.GtE: "≥"}
FLIP = {ast.Eq: ast.Eq, ast.NotEq: ast.NotEq, ast.Lt: ast.Gt, ast.LtE: ast.GtE, ast.Gt: ast.Lt, ast.GtE: ast.LtE}


def is_warn(st):
    return isinstance(st, ast.Expr) and isinstance(st.value, ast.Call) and dotted(st.value.func) == "warnings.warn"


def is_none_test(t):
    """`x is None` -> (x, True); `x is not None` -> (x, False); else None"""
    if isinstance(t, ast.Compare) and len(t.ops) == 1 and isinstance(t.ops[0], (ast.Is, ast.IsNot)) \
            and isinstance(t.left, ast.Name) and isinstance(t.comparators[0], ast.Constant) \
            and t.comparators[0].value is None:
        return t.left.id, isinstance(t.ops[0], ast.Is)
    return None


def param_type(fname, text, node, np_kinds, default_none):
    t = text.strip().lower()
    if t == "np.ndarray":
        if not np_kinds:
            raise Unsupported("an np.ndarray parameter of %s whose element kind is not declared" % fname, node)
        k = np_kinds.pop(0)
        if (k[0] == "opt") != default_none:
            raise Unsupported("the declared kind %s of an np.ndarray parameter of %s does not fit its default" % (
                show_type(k), fname), node)
        return k
    if default_none:
        raise Unsupported("a parameter with default None that is not a declared np.ndarray", node)
    if t == "bool":
        return BOOL
    if re.match(r"^float\b", t) and not re.search(r"array|list|tuple|none|\bor\b", t):
        return RAT
    raise Unsupported("documented parameter type %r is outside the subset" % text, node)


class Module(MP.Module):
    def extern_sig(self, fname, node):
        """the signature of the extern `to_cent_voicing`, after checking that the source still has it"""
        if fname != "to_cent_voicing":
            raise Unsupported("no extern %s" % fname, node)
        defs = self.funcs.get(fname)
        if not defs or len(defs) != 1 or fname in self.assigned:
            raise Unsupported("%s is not a single top-level function" % fname, node)
        a = defs[0].args
        if a.vararg or a.kwarg or a.kwonlyargs or a.posonlyargs or [p.arg for p in a.args] != TCV_PARAMS \
                or [getattr(d, "value", Ellipsis) for d in a.defaults] != TCV_DEFAULTS \
                or not all(isinstance(d, ast.Constant) for d in a.defaults):
            raise Unsupported("the signature of the extern %s changed" % fname, node)
        none = const_expr(ast.Constant(value=None))
        params = [("ref_time", FVEC, None), ("ref_freq", FREQS, None), ("est_time", FVEC, None), ("est_freq", FREQS, None),
                  ("est_voicing", OPT(FVEC), none), ("ref_reward", OPT(FVEC), none), ("hop", OPT(RAT), none),
                  ("kind", KIND, E("Mir.Melody.Kind.linear", KIND))]
        return Sig(fname, params, TUP([FVEC, FVEC, FVEC, FVEC]))

    def translate(self, fname, node=None):
        if fname in self.sigs:
            return self.sigs[fname]
        if fname in self.failed:
            raise Unsupported("callee %s is outside the subset (%s)" % (fname, self.failed[fname]), node)
        defs = self.funcs.get(fname)
        if not defs:
            raise Unsupported("no top-level function %s in melody.py" % fname, node)
        if len(defs) != 1 or fname in self.assigned:
            raise Unsupported("%s is defined more than once" % fname, node)
        if fname in self.in_progress:
            raise Unsupported("recursive call of %s" % fname, node)
        self.in_progress.add(fname)
        try:
            self.check_globals(defs[0])
            sigs_lines = translate_def(self, defs[0])
        except Unsupported as e:
            self.failed[fname] = e.detail
            raise
        except RecursionError:
            self.failed[fname] = "expression too deep"
            raise Unsupported(self.failed[fname], node)
        finally:
            self.in_progress.discard(fname)
        for sig, lines in sigs_lines:
            self.sigs[sig.name] = sig
            self.emitted.append((sig.name, lines))
        return self.sigs[fname]


class Body(MP.Body):
    # -- statements -----------------------------------------------------------------------------------------------------
    def stmts(self, sts, env, k):
        if not sts:
            return k(env)
        s, rest = sts[0], sts[1:]

        def cont(env2):
            return self.stmts(rest, env2, k)

        if is_warn(s):
            return cont(env)
        if isinstance(s, ast.Raise):
            return self.raise_stmt(s)
        if isinstance(s, ast.If) and not s.orelse and s.body and all(is_warn(x) for x in s.body):
            # `if c: warnings.warn(..)`: dropped; c must be inside the subset and must not be able to raise
            binds = []
            self.cond(s.test, env, binds)
            if binds:
                raise Unsupported("the condition of a warning can raise", s)
            return cont(env)
        if isinstance(s, ast.If) and is_none_test(s.test):
            return self.if_none(s, env, cont)
        if isinstance(s, ast.For) and isinstance(s.iter, (ast.List, ast.Tuple)):
            return self.stmts(self.unroll(s, env) + list(rest), env, k)
        if isinstance(s, ast.Assign) and len(s.targets) == 1 and isinstance(s.targets[0], ast.Subscript):
            t = s.targets[0]
            if isinstance(t.value, ast.Name) and t.value.id in env and env[t.value.id][0] == DICT:
                return self.dict_store(s, env, cont)
            return self.mask_store(s, env, cont)
        return MP.Body.stmts(self, sts, env, k)

    def dict_store(self, s, env, cont):
        """`d[<string literal>] = <score>` on an OrderedDict created by this function; a key is stored at most once, so the
        store is an append (insertion order = source order)"""
        t = s.targets[0]
        x = t.value.id
        key = t.slice
        if not (isinstance(key, ast.Constant) and isinstance(key.value, str)) or '"' in key.value or "\\" in key.value:
            raise Unsupported("a dict key that is not a plain string literal", s)
        keys = self.dict_keys.setdefault(x, set())
        if key.value in keys:
            raise Unsupported("dict key %r is stored twice" % key.value, s)
        keys.add(key.value)
        binds = []
        v = self.expr(s.value, env, binds)
        if v.ty not in NUMERIC:
            raise Unsupported("a dict value of type %s" % show_type(v.ty), s)
        line = "let %s : %s := (%s ++ [(\"%s\", %s)])" % (ident(x), lean_type(DICT), ident(x), key.value, coerce(v, NUM, s))
        return self.bind_lines(binds) + [line] + cont(dict(env))

    def translate(self):
        self.dict_keys = {}
        # (MP.Body.translate runs the body twice — typing pass, emission pass — so the key sets are reset by `assign`)
        return MP.Body.translate(self)

    def assign(self, target, value, env, cont, node):
        if isinstance(target, ast.Name) and isinstance(value, ast.Call) and dotted(value.func) == "collections.OrderedDict":
            self.dict_keys[target.id] = set()
        return MP.Body.assign(self, target, value, env, cont, node)

    def filter_kwargs(self, node, env, binds):
        args = node.args
        if not args or not isinstance(args[0], ast.Name) or args[0].id in self.locals:
            raise Unsupported("util.filter_kwargs whose first argument is not a function of this module", node)
        star = [k for k in node.keywords if k.arg is None]
        if len(star) != 1 or len(node.keywords) != 1 or not (isinstance(star[0].value, ast.Name)
                                                              and star[0].value.id == self.kwarg_name()):
            raise Unsupported("util.filter_kwargs with anything but exactly the **kwargs of the enclosing function", node)
        callee = args[0].id
        extern = callee == "to_cent_voicing"
        sig = self.m.extern_sig(callee, node) if extern else self.m.translate(callee, node)
        pos = args[1:]
        if len(pos) > len(sig.params):
            raise Unsupported("too many arguments for %s" % sig.name, node)
        terms = []
        for i, (pn, pt, pd) in enumerate(sig.params):
            if i < len(pos):
                e = self.expr(pos[i], env, binds)
                if pt[0] == "opt" and e.ty == pt[1]:
                    terms.append("(some %s)" % e.term)
                elif pt[0] == "opt" and e.ty == NONE:
                    terms.append("none")
                else:
                    terms.append(coerce(e, pt, node))
            elif pd is None:
                raise Unsupported("missing argument %s of %s" % (pn, sig.name), node)
            elif pn in self.kwparams:
                want = pt if pt[0] == "opt" else OPT(pt)
                if env.get(pn, (None,))[0] != want:
                    raise Unsupported("keyword parameter %s of %s has another type here" % (pn, sig.name), node)
                terms.append(ident(pn) if pt[0] == "opt" else "(Option.getD %s %s)" % (ident(pn), self.default_term(pd, pt)))
            else:
                terms.append(self.default_term(pd, pt))
        fn = "Mir.PyMel.to_cent_voicing" if extern else self.callee(sig)
        tmp = self.bind(binds, "%s %s" % (fn, " ".join(terms)), sig.ret, node)
        return E(tmp, sig.ret, np=(not extern and sig.ret_np))

    def raise_stmt(self, s):
        x = s.exc
        if s.cause is not None or not (isinstance(x, ast.Call) and isinstance(x.func, ast.Name) and x.func.id in EXC
                                       and x.func.id not in self.locals and x.func.id not in self.m.funcs
                                       and x.func.id not in self.m.assigned and x.func.id not in self.m.imports):
            raise Unsupported("raise of anything but a builtin exception class called on a message", s)
        if x.keywords or not all(isinstance(a, ast.Constant) and isinstance(a.value, str) for a in x.args):
            raise Unsupported("exception message that is not a string literal", s)
        return ["throw PyErr.%s" % EXC[x.func.id]]

    def unroll(self, s, env):
        if s.orelse or not isinstance(s.target, ast.Name) or not s.iter.elts:
            raise Unsupported("for over a list display: else clause / structured target / empty display", s)
        for nd in ast.walk(s):
            if isinstance(nd, (ast.Break, ast.Continue, ast.Yield, ast.YieldFrom)):
                raise Unsupported("break / continue inside a for loop", nd)
            if nd is not s and isinstance(nd, (ast.For, ast.While)):
                raise Unsupported("nested loop", nd)
        names = []
        for e in s.iter.elts:
            if not (isinstance(e, ast.Name) and e.id in env):
                raise Unsupported("for over a list display of anything but local names", s)
            names.append(e.id)
        written = assigned_names(s.body)
        if s.target.id in written or set(names) & set(written) or s.target.id in names:
            raise Unsupported("the loop body assigns the loop target or a listed name", s)
        out = []
        for e in s.iter.elts:
            a = ast.Assign(targets=[ast.Name(id=s.target.id, ctx=ast.Store())], value=e)
            ast.copy_location(a, s)
            ast.copy_location(a.targets[0], s)
            out.append(a)
            out += list(s.body)
        return out

    def if_none(self, s, env, cont):
        x, is_none = is_none_test(s.test)
        if x not in env or env[x][0][0] != "opt":
            raise Unsupported("`is None` on a value that is not a None-able parameter", s)
        inner = env[x][0][1]
        some_body, none_body = (s.orelse, s.body) if is_none else (s.body, s.orelse)
        env_some, env_none = dict(env), dict(env)
        env_some[x] = (inner, False, False)
        env_none[x] = (NONE, False, False)
        self.fresh_arrays.discard(x)
        saved = set(self.fresh_arrays)
        some_lines = self.stmts(list(some_body), env_some, cont)
        self.fresh_arrays = set(saved)
        none_lines = self.stmts(list(none_body), env_none, cont)
        self.fresh_arrays = saved
        return ["match %s with" % ident(x), "| some %s => do" % ident(x)] + indent(some_lines, 4) + [
            "| none => do"] + indent(none_lines, 4)

    def mask_store(self, s, env, cont):
        t = s.targets[0]
        if not (isinstance(t.value, ast.Name) and t.value.id in env):
            raise Unsupported("item assignment to anything but a local array", s)
        x = t.value.id
        if env[x][0] != FVEC:
            raise Unsupported("item assignment into a %s" % show_type(env[x][0]), s)
        if x not in self.fresh_arrays:
            raise Unsupported("item assignment into %s, whose value may be shared with the caller" % x, s)
        binds = []
        m = self.expr(t.slice, env, binds)
        c = const_expr(s.value)
        if m.ty != BMASK or c.ty not in (NAT, INT, RAT):
            raise Unsupported("%s[<%s>] = <%s>" % (x, show_type(m.ty), show_type(c.ty)), s)
        self.effect_lines.add(s.lineno)
        line = "let %s : %s ← Mir.PyMel.maskAssign %s %s %s" % (ident(x), lean_type(FVEC), ident(x), m.term, coerce(c, RAT, s))
        return self.bind_lines(binds) + [line] + cont(dict(env))

    # -- expressions ----------------------------------------------------------------------------------------------------
    def compare(self, node, env, binds):
        if len(node.ops) == 1:
            saved, b = self.tmp, []
            a0 = self.expr(node.left, env, b)
            b0 = self.expr(node.comparators[0], env, b)
            arr = [e.ty in (FVEC, FREQS, BMASK) for e in (a0, b0)]
            if any(arr):
                binds += b
                op = type(node.ops[0])
                if arr[0] and arr[1]:
                    raise Unsupported("comparison of two arrays", node)
                if arr[1]:
                    a0, b0, op = b0, a0, FLIP.get(op)
                sym = CMP.get(op)
                if sym is None:
                    raise Unsupported("comparison operator %s" % type(node.ops[0]).__name__, node)
                if a0.ty == FVEC:
                    if b0.ty not in (NAT, INT, RAT):
                        raise Unsupported("float array compared with a %s" % show_type(b0.ty), node)
                    return E("(List.map (fun _v => decide (_v %s %s)) %s)" % (sym, coerce(b0, RAT, node), a0.term), BMASK)
                if a0.ty == FREQS:
                    if b0.lit is None or type(b0.lit) not in (int, float) or b0.lit != 0:
                        raise Unsupported("an Hz array compared with anything but the literal 0", node)
                    return E("(List.map (fun _f => decide (Mir.Melody.Freq.sgn _f %s (0 : Int))) %s)" % (sym, a0.term), BMASK)
                raise Unsupported("comparison on a boolean array", node)
            self.tmp = saved
        return MP.Body.compare(self, node, env, binds)

    def binop(self, node, env, binds):
        op = node.op
        if isinstance(op, ast.Pow):
            return SI.Body.binop(self, node, env, binds)
        if not isinstance(op, (ast.Add, ast.Sub, ast.Mult, ast.Div)):
            raise Unsupported("operator %s" % type(op).__name__, node)
        if isinstance(node.left, (ast.List, ast.ListComp)) or isinstance(node.right, (ast.List, ast.ListComp)):
            raise Unsupported("arithmetic on a list display", node)
        a = self.expr(node.left, env, binds)
        b = self.expr(node.right, env, binds)
        if a.ty[0] in ("vec", "mat", "mask") or b.ty[0] in ("vec", "mat", "mask"):
            return self.array_op(op, a, b, binds, node)
        return self.scalar_op(op, self.number(a, node, allow_num=True), self.number(b, node, allow_num=True), binds, node)

    def scalar_op(self, op, a, b, binds, node):
        if NUM in (a.ty, b.ty):
            prim = {ast.Add: "nadd", ast.Sub: "nsub", ast.Mult: "nmul", ast.Div: "ndiv"}[type(op)]
            return E("(Mir.PyMel.%s %s %s)" % (prim, coerce(a, NUM, node), coerce(b, NUM, node)), NUM, np=True)
        return SI.Body.scalar_op(self, op, a, b, binds, node)

    def array_op(self, op, a, b, binds, node):
        sym = {ast.Add: "+", ast.Sub: "-", ast.Mult: "*", ast.Div: "/"}[type(op)]
        if a.ty == FVEC and b.ty == FVEC:
            if isinstance(op, ast.Div):
                raise Unsupported("elementwise division of two arrays", node)
            prim = {ast.Add: "vadd", ast.Sub: "vsub", ast.Mult: "vmul"}[type(op)]
            return E(self.bind(binds, "Mir.PyMel.%s %s %s" % (prim, a.term, b.term), FVEC, node), FVEC)
        if isinstance(op, ast.Mult) and {a.ty, b.ty} == {FVEC, BMASK}:
            x, m = (a, b) if a.ty == FVEC else (b, a)
            return E(self.bind(binds, "Mir.PyMel.vmulMask %s %s" % (x.term, m.term), FVEC, node), FVEC)
        if a.ty == FVEC and b.ty in (NAT, INT, RAT):
            if isinstance(op, ast.Div) and not (b.lit is not None and b.lit != 0):
                raise Unsupported("an array divided by anything but a non-zero literal", node)
            return E("(List.map (fun _v => (_v %s %s)) %s)" % (sym, coerce(b, RAT, node), a.term), FVEC)
        if b.ty == FVEC and a.ty in (NAT, INT, RAT):
            if isinstance(op, ast.Div):
                raise Unsupported("a scalar divided by an array", node)
            return E("(List.map (fun _v => (%s %s _v)) %s)" % (coerce(a, RAT, node), sym, b.term), FVEC)
        raise Unsupported("array arithmetic %s %s %s" % (show_type(a.ty), type(op).__name__, show_type(b.ty)), node)

    def subscript(self, node, env, binds):
        idx = node.slice
        is_mask_name = isinstance(idx, ast.Name) and idx.id in env and env[idx.id][0] == BMASK
        if is_mask_name or isinstance(idx, ast.Compare):
            a = self.expr(node.value, env, binds)          # Python evaluates the value first, then the index
            m = self.expr(idx, env, binds)
            if m.ty != BMASK or a.ty != FVEC:
                raise Unsupported("%s indexed by a %s" % (show_type(a.ty), show_type(m.ty)), node)
            return E(self.bind(binds, "Mir.PyMel.getMask %s %s" % (a.term, m.term), FVEC, node), FVEC)
        return MP.Body.subscript(self, node, env, binds)

    def is_builtin(self, f, name):
        return (isinstance(f, ast.Name) and f.id == name and f.id not in self.locals and f.id not in self.m.funcs
                and f.id not in self.m.assigned and f.id not in self.m.imports)

    def call(self, node, env, binds):
        f = node.func
        if any(isinstance(a, ast.Starred) for a in node.args):
            raise Unsupported("starred argument", node)
        name = dotted(f)
        args = node.args
        nokw = not node.keywords
        # ---- methods of local values ------------------------------------------------------------------------------------
        if isinstance(f, ast.Attribute) and (name is None or name.split(".")[0] in env):
            recv = self.expr(f.value, env, binds)
            if recv.ty == FVEC and f.attr == "sum" and not args and nokw:
                return E("(Mir.PyMel.rsum %s)" % recv.term, RAT, np=True)
            if recv.ty == BMASK and f.attr == "any" and not args and nokw:
                return E("(Mir.PyMel.anyB %s)" % recv.term, BOOL)
            if recv.ty == BMASK and f.attr == "astype" and len(args) == 1 and nokw and isinstance(args[0], ast.Name) \
                    and self.is_builtin(args[0], "float"):
                return E("(Mir.PyMel.astypeFloat %s)" % recv.term, FVEC)
            raise Unsupported("method .%s on a %s" % (f.attr, show_type(recv.ty)), node)
        # ---- builtins -----------------------------------------------------------------------------------------------------
        if self.is_builtin(f, "sum") and len(args) == 1 and nokw and not isinstance(args[0], ast.GeneratorExp):
            a = self.expr(args[0], env, binds)
            if a.ty == BMASK:
                return E("(Mir.PyMel.countTrue %s)" % a.term, NAT, np=True)
            raise Unsupported("builtin sum of a %s" % show_type(a.ty), node)
        if self.is_builtin(f, "int") and len(args) == 1 and nokw:
            a = self.expr(args[0], env, binds)
            if a.ty == NUM:
                return E(self.bind(binds, "Mir.PyMel.pyInt %s" % a.term, INT, node), INT)
            raise Unsupported("int() of a %s" % show_type(a.ty), node)
        if isinstance(f, ast.Name) and f.id not in self.locals and f.id in self.m.funcs:
            return SI.Body.call(self, node, env, binds)      # a translated function of melody.py (positional / keywords)
        # ---- numpy --------------------------------------------------------------------------------------------------------
        if name == "np.sum" and len(args) == 1 and nokw:
            a = self.expr(args[0], env, binds)
            if a.ty == FVEC:
                return E("(Mir.PyMel.rsum %s)" % a.term, RAT, np=True)
            raise Unsupported("np.sum of a %s" % show_type(a.ty), node)
        if name in ("np.logical_and", "np.logical_or") and len(args) == 2 and nokw:
            a, b = self.expr(args[0], env, binds), self.expr(args[1], env, binds)
            if a.ty != BMASK or b.ty != BMASK:
                raise Unsupported("%s on (%s, %s)" % (name, show_type(a.ty), show_type(b.ty)), node)
            prim = "logicalAnd" if name == "np.logical_and" else "logicalOr"
            return E(self.bind(binds, "Mir.PyMel.%s %s %s" % (prim, a.term, b.term), BMASK, node), BMASK)
        if name == "np.abs" and len(args) == 1 and nokw:
            a = self.expr(args[0], env, binds)
            if a.ty == FVEC:
                return E("(List.map Rat.abs %s)" % a.term, FVEC)
            if a.ty == FREQS:
                return E("(List.map Mir.Melody.Freq.abs %s)" % a.term, FREQS)
            raise Unsupported("np.abs of a %s" % show_type(a.ty), node)
        if name == "np.floor" and len(args) == 1 and nokw:
            a = self.expr(args[0], env, binds)
            if a.ty == FVEC:
                return E("(List.map Mir.PyMel.floorR %s)" % a.term, FVEC)
            if a.ty == NUM:
                return E("(Mir.PyMel.npFloor %s)" % a.term, NUM, np=True)
            if a.ty in (NAT, INT, RAT):
                return E("(Mir.PyMel.floorR %s)" % coerce(a, RAT, node), RAT, np=True)
            raise Unsupported("np.floor of a %s" % show_type(a.ty), node)
        if name == "np.round" and len(args) == 2 and nokw:
            k = args[1]
            if not (isinstance(k, ast.Constant) and type(k.value) is int and k.value == 10):
                raise Unsupported("np.round(x, d) with d other than the literal 10", node)
            a = self.expr(args[0], env, binds)
            if a.ty == FVEC:
                return E("(List.map Mir.PyMel.round10 %s)" % a.term, FVEC)
            if a.ty in (NAT, INT, RAT):
                return E("(Mir.PyMel.round10 %s)" % coerce(a, RAT, node), RAT, np=True)
            raise Unsupported("np.round of a %s" % show_type(a.ty), node)
        if name == "np.array" and len(args) == 1 and [k.arg for k in node.keywords] == ["dtype"]:
            dt = node.keywords[0].value
            a = self.expr(args[0], env, binds)
            if a.ty == FVEC and isinstance(dt, ast.Name) and self.is_builtin(dt, "float"):
                return E(a.term, FVEC)                        # a copy: the caller (assign) marks it as owned
            raise Unsupported("np.array other than a float copy of a float array", node)
        if name == "np.linspace" and len(args) == 3 and nokw:
            a, b, n = [self.expr(x, env, binds) for x in args]
            if a.ty not in (NAT, INT, RAT) or b.ty not in (NAT, INT, RAT) or n.ty not in (NAT, INT):
                raise Unsupported("np.linspace on (%s, %s, %s)" % (show_type(a.ty), show_type(b.ty), show_type(n.ty)), node)
            tmp = self.bind(binds, "Mir.PyMel.linspace %s %s %s" % (coerce(a, RAT, node), coerce(b, RAT, node),
                                                                    coerce(n, INT, node)), FVEC, node)
            return E(tmp, FVEC)
        if name == "collections.OrderedDict" and not args and nokw:
            if self.m.imports.get("collections") != "collections" or "collections" in self.m.assigned \
                    or "collections" in self.m.funcs or "collections" in self.locals:
                raise Unsupported("`collections` is not the module collections", node)
            return E("([] : %s)" % lean_type(DICT), DICT)
        if name == "util.filter_kwargs":
            return self.filter_kwargs(node, env, binds)
        if name is not None and name.split(".")[0] in ("np", "scipy", "util", "warnings", "collections"):
            raise Unsupported("call of %s" % name, node)
        return MP.Body.call(self, node, env, binds)           # len, float, ...


# ----------------------------------------------------------------------------------------
# a whole function

def translate_def(module, fn):
    """-> [(Sig, lines)]"""
    if fn.decorator_list:
        raise Unsupported("decorated function", fn)
    a = fn.args
    if a.vararg or a.kwonlyargs or a.posonlyargs:
        raise Unsupported("*args / keyword-only parameters", fn)
    doc = doc_param_types(fn)
    np_kinds = list(ARRAY_PARAMS.get(fn.name, []))
    params = []
    ndef = len(a.defaults)
    for i, p in enumerate(a.args):
        if p.arg not in doc:
            raise Unsupported("parameter %s has no documented type" % p.arg, fn)
        d = None
        k = i - (len(a.args) - ndef)
        if k >= 0:
            d = const_expr(a.defaults[k])
        ty = param_type(fn.name, doc[p.arg], fn, np_kinds, default_none=(d is not None and d.ty == NONE))
        if d is not None and d.ty != NONE:
            coerce(d, ty, fn)
        params.append((p.arg, ty, d))
    if np_kinds:
        raise Unsupported("%s has fewer np.ndarray parameters than declared" % fn.name, fn)
    body = [s for s in fn.body
            if not (isinstance(s, ast.Expr) and isinstance(s.value, ast.Constant) and isinstance(s.value.value, str))]
    where = "`melody.%s` (mir_eval/melody.py)" % fn.name
    kwp = []
    if a.kwarg:
        kwp = kwargs_params(module, fn)
        local = set(assigned_names(body)) | {n for n, _, _ in params}
        for n, _, _ in kwp:
            if n in local:
                raise Unsupported("keyword %s of **%s collides with a local" % (n, a.kwarg.arg), fn)
        where += "; **%s is read as the optional keyword(s) %s of the functions reached through util.filter_kwargs" % (
            a.kwarg.arg, ", ".join(n for n, _, _ in kwp))
        if "to_cent_voicing" in {c.args[0].id for c in ast.walk(fn) if isinstance(c, ast.Call)
                                 and dotted(c.func) == "util.filter_kwargs" and c.args and isinstance(c.args[0], ast.Name)}:
            where += " (`base_frequency` is the unit of the log domain: no parameter)"
    return Body(module, fn, fn.name, params + kwp, body, what=where, kwparams=[n for n, _, _ in kwp]).translate()


def kwargs_params(module, fn):
    """the optional parameters `**kwargs` stands for: the defaulted parameters of the functions reached through
    util.filter_kwargs beyond the positional arguments given there -> [(name, OPT type, None-default E)]"""
    kw = fn.args.kwarg.arg
    uses = [nd for nd in ast.walk(fn) if isinstance(nd, ast.Name) and nd.id == kw]
    calls = [nd for nd in ast.walk(fn) if isinstance(nd, ast.Call) and dotted(nd.func) == "util.filter_kwargs"]
    starred = [k.value for c in calls for k in c.keywords if k.arg is None]
    if len(uses) != len(starred) or any(u not in starred for u in uses):
        raise Unsupported("**%s is used other than as util.filter_kwargs(f, ..., **%s)" % (kw, kw), fn)
    out = []
    for c in calls:
        if not c.args or not isinstance(c.args[0], ast.Name):
            raise Unsupported("util.filter_kwargs whose first argument is not a plain function name", c)
        callee = c.args[0].id
        sig = module.extern_sig(callee, c) if callee == "to_cent_voicing" else module.translate(callee, c)
        for pn, pt, pd in sig.params[len(c.args) - 1:]:
            if pd is None:
                continue
            want = pt if pt[0] == "opt" else OPT(pt)
            prev = [t for n, t in out if n == pn]
            if prev:
                if prev[0] != want:
                    raise Unsupported("keyword %s has different types in the callees" % pn, fn)
                continue
            out.append((pn, want))
    return [(n, t, const_expr(ast.Constant(value=None))) for n, t in out]


# ----------------------------------------------------------------------------------------
# driver handler

def val_decoder(ty, v, default=None):
    dec = {RAT: "Val.asRat?", NAT: "Val.asNat?", INT: "Val.asInt?", BOOL: "Val.asBool?", FVEC: "Val.asRats?",
           FREQS: "Mir.Melody.asFreqs?", OPT(FVEC): "Mir.Melody.asOptRats?", OPT(RAT): "Val.asOptRat?",
           OPT(KIND): "Mir.PyMel.asOptKind?"}.get(ty)
    if dec is None:
        raise Unsupported("no protocol decoder for %s" % show_type(ty))
    if default is not None and ty[0] != "opt":
        return "let %s ← (match %s with | Val.none => some %s | _v => %s _v)" % (v, v, default, dec)
    return "let %s ← %s %s" % (v, dec, v)


def val_encoder(ty):
    if ty == FVEC:
        return "Val.ofRats"
    if ty == FREQS:
        return "Mir.Melody.ofFreqs"
    if ty == DICT:
        return "Mir.PyMel.ofScores"
    if ty[0] == "tup":
        n = len(ty[1])
        vs = ["x%d" % i for i in range(n)]
        return "(fun ((%s) : %s) => Val.list [%s])" % (
            ", ".join(vs), lean_type(ty), ", ".join("%s %s" % (val_encoder(t), v) for t, v in zip(ty[1], vs)))
    return SI.val_encoder(ty)


HEADER = """import MirModel.PyScalar
import MirModel.PyMat
import MirModel.PyMel
/-!
  GENERATED by harness/translate/melody.py from mir_eval/melody.py — do not edit.
  One shallow definition per translated function (`Mir.Gen.melody.<function>`), over `Mir.PyMel` / `Mir.PyM`.
  Regenerated from the working tree on every run of ./check C04 (C09, C01, C07); `MirProofs/Props/C04_GenMelody.lean`
  proves each of them equal to the hand-written model (`MirModel/Melody.lean`) for all inputs.
-/
set_option linter.unusedVariables false
"""


def translate_all(repo, wanted=None):
    """-> (lean text, {name: Sig}, problems [(function, detail)])"""
    wanted = WANTED if wanted is None else wanted
    path = os.path.join(repo, "mir_eval", "melody.py")
    problems = []
    try:
        m = Module(open(path, encoding="utf-8").read())
    except (OSError, SyntaxError) as e:
        m = None
        problems = [(f, "cannot read/parse %s: %s" % (path, e)) for f in wanted]
    if m is not None:
        for fname in wanted:
            try:
                m.translate(fname)
            except Unsupported as e:
                problems.append((fname, e.detail))
    L = [HEADER, "namespace Mir.Gen.melody", ""]
    rows = []
    emitted = [] if m is None else m.emitted
    for name, lines in emitted:
        L += lines + [""]
    L += ["end Mir.Gen.melody", ""]
    public = [n for n, _ in emitted if n not in m.internal] if m is not None else []
    for name in public:
        sig = m.sigs[name]
        try:
            vs = ["a%d" % i for i in range(len(sig.params))]
            decs = []
            for (pn, pt, pd), v in zip(sig.params, vs):
                dflt = None
                if pd is not None and pt[0] != "opt":
                    dflt = coerce(pd, pt)
                decs.append(val_decoder(pt, v, dflt))
            enc = val_encoder(sig.ret)
        except Unsupported:
            continue
        rows.append("  | \"gen.melody\", Val.str \"%s\" :: [%s] => do\n%s      some (Except.map %s (Mir.Gen.melody.%s %s))" % (
            name, ", ".join(vs), "".join("      %s\n" % d for d in decs), enc, ident(name), " ".join(vs)))
    L.append("namespace Mir.Gen.Melody")
    L.append("")
    L.append("/-- names of the translated functions (in emission order) -/")
    L.append("def names : List String := [%s]" % ", ".join('"%s"' % n for n in public))
    L.append("")
    L.append("/-- protocol op `gen.melody <\"function\"> <args...>` (a defaulted parameter may be sent as `none`) -/")
    L.append("def handler : Handler := fun fn args =>")
    L.append("  match fn, args with")
    L.append("  | \"gen.melody\", [Val.str \"?\"] => some (.ok (Val.list (names.map Val.str)))     -- which functions were translated")
    L += rows
    L.append("  | _, _ => none")
    L.append("")
    L.append("end Mir.Gen.Melody")
    sigs = {} if m is None else {n: m.sigs[n] for n in public}
    return "\n".join(L) + "\n", sigs, problems


def generate(repo, outdir):
    text, done, problems = translate_all(repo)
    os.makedirs(outdir, exist_ok=True)
    write_if_changed(os.path.join(outdir, "Melody.lean"), text)
    obligations = ["Mir.Gen.melody.%s" % n for n in done]
    probs = [{"name": "melody: melody.%s" % f, "detail": "outside the translated subset: " + d} for f, d in problems]
    return obligations, probs


if __name__ == "__main__":
    repo = sys.argv[1] if len(sys.argv) > 1 else "/repo"
    text, done, problems = translate_all(repo)
    sys.stdout.write(text)
    for p in problems:
        sys.stderr.write("PROBLEM melody.%s: %s\n" % p)
