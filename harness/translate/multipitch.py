"""mir_eval.multipitch count-level functions, resampling and `metrics` -> lean/MirGen/Multipitch.lean  (AST based; mir_eval
is never imported).  Translator part `multipitch` (C18).

One SHALLOW Lean definition per translated function, `Mir.Gen.multipitch.<function>` (a `for` loop becomes an auxiliary
structurally recursive `<function>_loop<k>` carrying the loop state), over the run-time library
`lean/MirModel/PyMultipitch.lean` (`Mir.PyMP`, + `Mir.PyM.divNp` / `Mir.PyS.divF`), plus a driver handler
(`Mir.Gen.Multipitch.handler`, protocol op `gen.multipitch <"function"> <args...>`).
`MirProofs/Props/C18_Gen.lean` proves every one of them equal to the hand-written model (`MirModel/Multipitch.lean`) for
ALL inputs, so the C18 theorems are re-checked against what the source says *now* on every run.

This is an extension of the `segindex` translator (`harness/translate/segindex.py`, whose output is untouched): statements,
conditions, tuples, scalar arithmetic and above all the typing of `/` (exact quotient by a non-zero literal | `divNp` when a
NumPy scalar is involved: nan / +-inf, never raises | `PyS.divF` for two Python numbers: ZeroDivisionError) are inherited
from its `Body`.  Fails closed: anything not listed is `Unsupported` => the function is not emitted => translator problem.

ADDED SUBSET
  parameters   types from the function's own numpydoc: `list of np.ndarray` = frames (`List (List Rat)`, pitches in the
               log domain), `float`, `bool`; `np.ndarray` = a 1-D array whose element kind numpydoc cannot say: declared
               in ARRAY_PARAMS below per function, by position (count arrays `List Int` | time stamps `List Rat`) and
               checked against the documented text.  `**kwargs` is accepted when its only use is
               `util.filter_kwargs(<translated function>, <positional args>, [k=<e>,] **kwargs)`: it is read as one optional
               parameter per keyword parameter of those callees that NO call site sets explicitly (Python raises TypeError
               on a duplicate keyword, so those cannot be passed) and `util.filter_kwargs(f, *a, **kw)` as
               `f(*a, **{k: v for k in kw if f has a parameter k})`.
  statements   `warnings.warn(...)` statements are dropped (warnings are not modelled);
               `x[x <cmp> <int literal>] = <int literal>` on a freshly computed count array (ownership as in `chordfns`);
               `for [i,] t in [enumerate(] X | zip(X, Y) [)]:` whose body assigns loop-local names and stores items
               `acc[i] = e` into freshly allocated count arrays defined before the loop (no return / break / continue; the
               loop-local names must not be read after the loop);
               `if c: <name assignments that may raise>` -> one monadic conditional `let`.
  expressions  count arrays: `a + b`, `a - b` (NumPy broadcasting, `PyMP.bcast`: ValueError unless equal lengths or one
               operand of length 1), `a.sum()` (a NumPy scalar), `np.min([a, b], axis=0)` / `np.max([a, b], axis=0)`
               (ValueError when ragged), `np.zeros((n,))`, `np.array([<int> for v in xs])`;
               lists: `[e for v in xs]` (`List.map`, or `PyMP.mapPy` when `e` can raise), `xs + [e]`, `[e] * n`, `[]`,
               `np.array([])` (an empty frame), `xs[i]` for a natural `i` (IndexError), `f.size`, `len(xs)`,
               `np.arange(0, n)`, `x.astype(int)` of an array of naturals, `np.mod(frame, <literal>)`;
               EXTERNS (bound to the hand model, documented in `MirModel/PyMultipitch.lean`): `validate(...)`,
               `frequencies_to_midi(frames)`, `len(util.match_events(r, e, w[, distance=util._outer_distance_mod_n]))`
               (a matching is represented by its size; any other use of it leaves the subset),
               `np.allclose(a, b)` (only to the right of `a.size != b.size or ...`),
               `scipy.interpolate.interp1d(x, y, kind="nearest", bounds_error=False, assume_sorted=True,
               fill_value=<natural>)(t)`.

`python harness/translate/multipitch.py [repo]` prints the generated file.
"""
import ast
import os
import re
import sys

try:
    from translate import write_if_changed
    from translate import segindex as SI
except ImportError:  # run as a script
    sys.path.insert(0, os.path.dirname(os.path.dirname(os.path.abspath(__file__))))
    from translate import write_if_changed
    from translate import segindex as SI

from translate.segindex import (Unsupported, E, NAT, INT, RAT, NUM, BOOL, NONE, NUMERIC, VEC, TUP, OPT, ident, indent,  # noqa: E402
                                coerce, const_expr, dotted, assigned_names, read_names, show_type, doc_param_types,
                                Sig, lean_rat)

# functions of mir_eval/multipitch.py, in emission order; REQUIRED: one that leaves the subset is a translator problem
WANTED = ["compute_num_freqs", "compute_num_true_positives", "compute_accuracy", "compute_err_score",
          "resample_multipitch", "midi_to_chroma", "metrics"]

COUNTS, TIMES, FRAME = VEC(INT), VEC(RAT), VEC(RAT)
FRAMES = VEC(FRAME)
MATCHING = ("matching",)        # the result of util.match_events, observed through len() only: its size
EMPTY = ("emptylist",)          # the literal `[]` before it meets a typed list

# the element kind of the `np.ndarray` parameters, per function, in order (numpydoc says `np.ndarray` for all of them)
ARRAY_PARAMS = {
    "compute_accuracy": [COUNTS, COUNTS, COUNTS],
    "compute_err_score": [COUNTS, COUNTS, COUNTS],
    "resample_multipitch": [TIMES, TIMES],
    "metrics": [TIMES, TIMES],
    "validate": [TIMES, TIMES],
}

# more Lean tokens that a Python local may be called (an escaped identifier is always valid Lean)
SI.EXTRA_KEYWORDS |= {"rec", "nonrec", "prec", "forall", "exists", "mutual", "instance", "macro_rules", "syntax", "elab_rules",
                      "initialize", "variable", "universe", "section", "namespace", "noncomputable", "private", "protected",
                      "prefix", "postfix", "infix", "notation", "calc", "conv", "suffices", "show", "nomatch", "nofun", "termination_by",
                      "decreasing_by", "where", "mut", "from", "at", "in", "fun", "assume", "obtain", "rcases", "intro"}

# segindex.lean_type knows no `matching`; extend it (a pure extension: the kind never arises in segindex)
_si_lean_type = SI.lean_type


def lean_type(t):
    if t == MATCHING:
        return "Nat"
    if t[0] in ("vec", "opt") and t[1] == MATCHING:
        raise Unsupported("a container of matchings")
    return _si_lean_type(t)


SI.lean_type = lean_type


def join(a, b, node=None):
    if a == EMPTY and b[0] == "vec":
        return b
    if b == EMPTY and a[0] == "vec":
        return a
    if a[0] == "tup" and b[0] == "tup" and len(a[1]) == len(b[1]):
        return TUP([join(x, y, node) for x, y in zip(a[1], b[1])])
    return SI.join(a, b, node)


def is_warn(st):
    return (isinstance(st, ast.Expr) and isinstance(st.value, ast.Call) and dotted(st.value.func) == "warnings.warn")


def strip_warnings(stmts):
    """drop `warnings.warn(...)` statements (recursively); an emptied block becomes `pass`"""
    out = []
    for s in stmts:
        if is_warn(s):
            continue
        for fld in ("body", "orelse"):
            blk = getattr(s, fld, None)
            if isinstance(blk, list) and blk and isinstance(blk[0], ast.stmt):
                new = strip_warnings(blk)
                if not new and fld == "body":
                    new = [ast.copy_location(ast.Pass(), s)]
                setattr(s, fld, new)
        out.append(s)
    return out


def param_type(fname, text, node, np_kinds):
    t = text.strip().lower()
    if t == "bool":
        return BOOL
    if t == "list of np.ndarray":
        return FRAMES
    if t == "np.ndarray":
        if not np_kinds:
            raise Unsupported("an np.ndarray parameter of %s whose element kind is not declared" % fname, node)
        return np_kinds.pop(0)
    if re.match(r"^float\b", t) and not re.search(r"array|list|tuple|none|\bor\b", t):
        return RAT
    raise Unsupported("documented parameter type %r is outside the subset" % text, node)


class Module(SI.Module):
    modname = "multipitch"
    WANT = {"np": "numpy", "scipy": "scipy", "util": "..util", "warnings": "warnings"}
    REQUIRED = ("np", "scipy", "util", "warnings")

    def __init__(self, source):
        SI.Module.__init__(self, source)
        self.tr_funcs = set()          # no Transc-polymorphic functions here (log2 stays behind an extern)
        self.internal = set()

    def translate_def(self, fn):
        return translate_def(self, fn)

    def check_globals(self, node):
        for nm, src in self.WANT.items():
            got = self.imports.get(nm)
            if got is None and nm not in self.REQUIRED and nm not in self.assigned and nm not in self.funcs:
                continue
            if nm in self.assigned or nm in self.funcs:
                raise Unsupported("module-level name %s is rebound" % nm, node)
            if nm == "util":
                if got not in ("..util", ".util", "mir_eval.util"):
                    raise Unsupported("`util` is not mir_eval.util", node)
            elif got != src:
                raise Unsupported("`%s` is not the module %s" % (nm, src), node)

    def translate(self, fname, node=None):
        if fname in self.sigs:
            return self.sigs[fname]
        if fname in self.failed:
            raise Unsupported("callee %s is outside the subset (%s)" % (fname, self.failed[fname]), node)
        defs = self.funcs.get(fname)
        if not defs:
            raise Unsupported("no top-level function %s in %s.py" % (fname, self.modname), node)
        if len(defs) != 1 or fname in self.assigned:
            raise Unsupported("%s is defined more than once" % fname, node)
        if fname in self.in_progress:
            raise Unsupported("recursive call of %s" % fname, node)
        self.in_progress.add(fname)
        try:
            self.check_globals(defs[0])
            sigs_lines = self.translate_def(defs[0])
        except Unsupported as e:
            self.failed[fname] = e.detail
            raise
        except RecursionError:
            self.failed[fname] = "expression too deep"
            raise Unsupported(self.failed[fname], node)
        finally:
            self.in_progress.discard(fname)
        for sig, lines in sigs_lines:
            self.sigs[sig.name] = sig
            self.emitted.append((sig.name, lines))
        return self.sigs[fname]


class Body(SI.Body):
    def __init__(self, module, fn, name, params, body, what="", kwparams=()):
        SI.Body.__init__(self, module, fn, name, params, body, what=what)
        self.tr = False
        self.kwparams = set(kwparams)      # names of the optional parameters `**kwargs` stands for
        self.aux = []                      # [(Sig, lines)] of the loops, in emission order
        self.allclose_ok = set()
        self.nloops = 0

    # -- whole function (copy of segindex.Body.translate with the loop bookkeeping and the extended join) ----------
    def translate(self):
        env = {p[0]: (p[1], False, False) for p in self.params}

        def run():
            self.tmp = 0
            self.effect_lines = set()
            self.ret_np = True
            self.fresh_arrays = set()
            self.aux = []
            self.nloops = 0
            self.allclose_ok = set()
            return self.stmts(self.body, dict(env), self.fallthrough)
        self.ret_ty, self.ret_types = None, []
        run()
        if not self.ret_types:
            raise Unsupported("no path returns", self.fn)
        rt = self.ret_types[0]
        for t in self.ret_types[1:]:
            rt = join(rt, t, self.fn)
        if rt == EMPTY:
            raise Unsupported("every path returns the literal []", self.fn)
        self.ret_ty = rt
        lines = run()
        sig = Sig(self.name, self.params, rt, tr=False, ret_np=self.ret_np)
        plist = " ".join(
            "(%s : %s%s)" % (ident(n), lean_type(t), "" if d is None else " := %s" % self.default_term(d, t))
            for n, t, d in self.params)
        out = ["/-- %s -/" % self.what,
               "def %s %s : Py %s := do" % (ident(self.name), plist, lean_type(rt))]
        out += indent(lines)
        return self.aux + [(sig, out)]

    def emit_return(self, e, node):
        if self.ret_ty is not None and e.ty == EMPTY and self.ret_ty[0] == "vec":
            return ["pure ([] : %s)" % lean_type(self.ret_ty)]
        if self.ret_ty is not None and e.ty != self.ret_ty and e.ty[0] == "tup" and e.elts is None:
            raise Unsupported("returning a tuple value of type %s where %s is expected" % (
                show_type(e.ty), show_type(self.ret_ty)), node)
        return SI.Body.emit_return(self, e, node)

    # -- statements -------------------------------------------------------------------------------------------------
    def stmts(self, sts, env, k):
        if not sts:
            return k(env)
        s, rest = sts[0], sts[1:]

        def cont(env2):
            return self.stmts(rest, env2, k)

        if isinstance(s, ast.Assign) and len(s.targets) == 1 and isinstance(s.targets[0], ast.Subscript):
            return self.item_store(s, env, cont)
        if isinstance(s, ast.For):
            return self.for_loop(s, rest, env, cont)
        if isinstance(s, (ast.While, ast.Break, ast.Continue, ast.Try, ast.With, ast.Raise)):
            raise Unsupported("statement %s" % type(s).__name__, s)
        return SI.Body.stmts(self, sts, env, k)

    def item_store(self, s, env, cont):
        t = s.targets[0]
        if not (isinstance(t.value, ast.Name) and t.value.id in env):
            raise Unsupported("item assignment to anything but a local array", s)
        x = t.value.id
        if env[x][0] != COUNTS:
            raise Unsupported("item assignment into a %s" % show_type(env[x][0]), s)
        if x not in self.fresh_arrays:
            raise Unsupported("item assignment into %s, whose value may be shared with the caller" % x, s)
        idx = t.slice
        binds = []
        if isinstance(idx, ast.Compare):
            # x[x < k] = c
            if not (len(idx.ops) == 1 and isinstance(idx.left, ast.Name) and idx.left.id == x):
                raise Unsupported("masked assignment whose mask is not a comparison of the array itself", s)
            sym = {ast.Eq: "=", ast.NotEq: "≠", ast.Lt: "<", ast.LtE: "≤", ast.Gt: ">", ast.GtE: "≥"}.get(type(idx.ops[0]))
            kk, c = const_expr(idx.comparators[0]), const_expr(s.value)
            if sym is None or kk.ty not in (NAT, INT) or c.ty not in (NAT, INT):
                raise Unsupported("masked assignment other than x[x <cmp> <int literal>] = <int literal>", s)
            line = "let %s : %s := (Mir.PyMP.maskFill %s (List.map (fun _v => decide (_v %s %s)) %s) %s)" % (
                ident(x), lean_type(COUNTS), ident(x), sym, coerce(kk, INT, s), ident(x), coerce(c, INT, s))
            return [line] + cont(dict(env))
        i = self.expr(idx, env, binds)
        v = self.expr(s.value, env, binds)
        if i.ty != NAT or v.ty not in (NAT, INT):
            raise Unsupported("%s[<%s>] = <%s>" % (x, show_type(i.ty), show_type(v.ty)), s)
        self.effect_lines.add(s.lineno)
        line = "let %s : %s ← Mir.PyMP.setItem %s %s %s" % (ident(x), lean_type(COUNTS), ident(x), i.term, coerce(v, INT, s))
        return self.bind_lines(binds) + [line] + cont(dict(env))

    def for_loop(self, s, rest, env, cont):
        if s.orelse:
            raise Unsupported("for ... else", s)
        for nd in ast.walk(s):
            if isinstance(nd, (ast.Return, ast.Break, ast.Continue, ast.Yield, ast.YieldFrom)):
                raise Unsupported("return / break / continue inside a for loop", nd)
            if nd is not s and isinstance(nd, (ast.For, ast.While)):
                raise Unsupported("nested loop", nd)
        it, target = s.iter, s.target
        index = None

        def builtin_call(nd, name, nargs):
            return (isinstance(nd, ast.Call) and isinstance(nd.func, ast.Name) and nd.func.id == name
                    and nd.func.id not in self.locals and nd.func.id not in self.m.funcs and nd.func.id not in self.m.assigned
                    and nd.func.id not in self.m.imports and len(nd.args) == nargs and not nd.keywords)
        if builtin_call(it, "enumerate", 1):
            if not (isinstance(target, ast.Tuple) and len(target.elts) == 2 and isinstance(target.elts[0], ast.Name)):
                raise Unsupported("enumerate(...) without an `i, x` target", s)
            index, target, it = target.elts[0].id, target.elts[1], it.args[0]
        binds = []
        if builtin_call(it, "zip", 1) and isinstance(it.args[0], ast.Starred):
            # zip(*t) for a pair t of arrays / lists
            tv = self.expr(it.args[0].value, env, binds)
            if tv.ty[0] != "tup" or len(tv.ty[1]) != 2 or any(x[0] != "vec" for x in tv.ty[1]):
                raise Unsupported("zip(*<%s>)" % show_type(tv.ty), s)
            it = ast.Call(func=it.func, args=[ast.Subscript(value=it.args[0].value, slice=ast.Constant(value=0), ctx=ast.Load()),
                                              ast.Subscript(value=it.args[0].value, slice=ast.Constant(value=1), ctx=ast.Load())],
                          keywords=[])
            ast.fix_missing_locations(ast.copy_location(it, s))
            binds = []
        if builtin_call(it, "zip", 2):
            a, b = self.expr(it.args[0], env, binds), self.expr(it.args[1], env, binds)
            if a.ty[0] != "vec" or b.ty[0] != "vec":
                raise Unsupported("zip of (%s, %s)" % (show_type(a.ty), show_type(b.ty)), s)
            if not (isinstance(target, ast.Tuple) and len(target.elts) == 2 and all(isinstance(e, ast.Name) for e in target.elts)):
                raise Unsupported("zip(...) without an `(a, b)` target", s)
            items, item_ty = "(List.zip %s %s)" % (a.term, b.term), TUP([a.ty[1], b.ty[1]])
            tnames, ttys = [e.id for e in target.elts], [a.ty[1], b.ty[1]]
            pat = "(%s, %s)" % (ident(tnames[0]), ident(tnames[1]))
        else:
            a = self.expr(it, env, binds)
            if a.ty[0] != "vec" or not isinstance(target, ast.Name):
                raise Unsupported("for over a %s" % show_type(a.ty), s)
            items, item_ty = a.term, a.ty[1]
            tnames, ttys = [target.id], [a.ty[1]]
            pat = ident(target.id)
        if binds:
            raise Unsupported("a loop whose iterable can raise", s)
        if len(set(tnames + ([index] if index else []))) != len(tnames) + (1 if index else 0):
            raise Unsupported("repeated loop target", s)
        written = assigned_names(s.body)
        for nd in ast.walk(ast.Module(body=s.body, type_ignores=[])):
            if isinstance(nd, ast.Subscript) and isinstance(nd.ctx, ast.Store) and isinstance(nd.value, ast.Name) \
                    and nd.value.id not in written:
                written.append(nd.value.id)
        if set(written) & set(tnames + ([index] if index else [])):
            raise Unsupported("the loop body assigns a loop target", s)
        carried = [n for n in written if n in env]
        local = [n for n in written if n not in env] + tnames + ([index] if index else [])
        for n in carried:
            self.check_carried(n, env, s)
        after = set()
        for st in rest:
            after |= read_names(st, set(local))
        if after:
            raise Unsupported("loop-local name(s) %s are read after the loop" % ", ".join(sorted(after)), s)
        if not carried:
            raise Unsupported("a loop without effect on the function's state", s)
        free = [n for n in env if n not in carried and n not in local
                and n in read_names(ast.Module(body=s.body, type_ignores=[]), set(env))]
        self.nloops += 1
        lname = "%s_loop%d" % (self.name, self.nloops)
        env2 = dict(env)
        for n, t in zip(tnames, ttys):
            env2[n] = (t, False, False)
        if index:
            env2[index] = (NAT, False, False)
        cty = [env[n][0] for n in carried]
        cret = lean_type(cty[0]) if len(cty) == 1 else lean_type(TUP(cty))
        ctuple = ident(carried[0]) if len(carried) == 1 else "(%s)" % ", ".join(ident(n) for n in carried)
        free_args = " ".join(ident(n) for n in free)
        cargs = " ".join(ident(n) for n in carried)

        def again(envb):
            return ["%s %s%s rest__ %s" % (lname, free_args + " " if free else "",
                                           "(%s + 1)" % ident(index) if index else "", cargs)]
        saved = self.fresh_arrays
        self.fresh_arrays = set(saved)
        body_lines = self.stmts(list(s.body), env2, again)
        self.fresh_arrays = saved
        head = "def %s %s: %s%s → %s → Py %s" % (
            lname, "".join("(%s : %s) " % (ident(n), lean_type(env[n][0])) for n in free),
            "Nat → " if index else "", "List %s" % lean_type(item_ty), " → ".join(lean_type(t) for t in cty), cret)
        ipat = (ident(index) + ", ") if index else ""
        lines = ["/-- the `for` loop of `%s.%s` at source line %d: %sremaining items, loop state %s -/" % (
            self.m.modname, self.fn.name, s.lineno, "index, " if index else "", ", ".join(carried)),
            head,
            "  | %s[], %s => pure %s" % (ipat.replace(ident(index), "_") if index else "", ", ".join(ident(n) for n in carried), ctuple),
            "  | %s%s :: rest__, %s => do" % (ipat, pat, ", ".join(ident(n) for n in carried))]
        lines += indent(body_lines, 6)
        lsig = Sig(lname, [], TUP(cty) if len(cty) > 1 else cty[0])
        self.m.internal.add(lname)
        self.aux.append((lsig, lines))
        self.effect_lines.add(s.lineno)
        call = "let %s : %s ← %s %s%s%s %s" % (ctuple, cret, lname, free_args + " " if free else "",
                                               "(0 : Nat) " if index else "", items, cargs)
        return [call] + cont(dict(env))

    def check_carried(self, n, env, s):
        if env[n][0] != COUNTS or n not in self.fresh_arrays:
            raise Unsupported("loop-carried %s is not a freshly allocated count array" % n, s)

    def if_conversion(self, s, env):
        r = SI.Body.if_conversion(self, s, env)
        if r is not None:
            return r
        # `if c: <name assignments, possibly raising>` (no else)  ->  let (x, ..) ← if c then (do ..; pure (x, ..)) else pure (x, ..)
        def simple(sts):
            return all(isinstance(a, ast.Assign) and len(a.targets) == 1 and isinstance(a.targets[0], ast.Name) for a in sts)
        if not s.body or s.orelse or not simple(s.body):
            return None
        names = []
        for a in s.body:
            if a.targets[0].id not in names:
                names.append(a.targets[0].id)
        if any(n not in env for n in names):
            return None
        binds = []
        c = self.cond(s.test, env, binds)
        if binds:
            return None
        envb = dict(env)
        lines = []
        for a in s.body:
            b = []
            e = self.expr(a.value, envb, b)
            n = a.targets[0].id
            if e.ty != env[n][0]:
                return None
            lines += self.bind_lines(b) + ["let %s : %s := %s" % (ident(n), lean_type(e.ty), e.term)]
            envb[n] = (e.ty, e.np and env[n][1], False)
        tup = ident(names[0]) if len(names) == 1 else "(%s)" % ", ".join(ident(n) for n in names)
        ty = lean_type(env[names[0]][0]) if len(names) == 1 else lean_type(TUP([env[n][0] for n in names]))
        out = ["let %s : %s ← (if %s then (do" % (tup, ty, c)] + indent(lines + ["pure %s)" % tup], 4) + [
            "  else pure %s)" % tup]
        env2 = dict(env)
        for n in names:
            env2[n] = envb[n]
            self.fresh_arrays.discard(n)
        self.effect_lines.add(s.lineno)
        return out, env2

    # -- conditions -------------------------------------------------------------------------------------------------
    def cond(self, node, env, binds):
        if isinstance(node, ast.BoolOp) and isinstance(node.op, ast.Or) and len(node.values) == 2:
            first = node.values[0]
            if isinstance(first, ast.Compare) and len(first.ops) == 1 and isinstance(first.ops[0], ast.NotEq):
                def sized(x):
                    if isinstance(x, ast.Attribute) and x.attr == "size" and isinstance(x.value, ast.Name):
                        return x.value.id
                    if isinstance(x, ast.Call) and isinstance(x.func, ast.Name) and x.func.id == "len" and len(x.args) == 1 \
                            and isinstance(x.args[0], ast.Name):
                        return x.args[0].id
                    return None
                a, b = sized(first.left), sized(first.comparators[0])
                if a and b:
                    self.allclose_ok.add(frozenset((a, b)))
        return SI.Body.cond(self, node, env, binds)

    # -- expressions --------------------------------------------------------------------------------------------------
    def expr(self, node, env, binds):
        if isinstance(node, ast.List):
            if not node.elts:
                return E("[]", EMPTY)
            es = [self.expr(x, env, binds) for x in node.elts]
            t = es[0].ty
            for e in es[1:]:
                if e.ty != t:
                    raise Unsupported("list display of mixed types", node)
            if t[0] not in ("vec",) and t not in (NAT, INT, RAT):
                raise Unsupported("list display of %s" % show_type(t), node)
            return E("[%s]" % ", ".join(e.term for e in es), VEC(t), elts=es)
        if isinstance(node, ast.ListComp):
            return self.listcomp(node, env, binds)
        return SI.Body.expr(self, node, env, binds)

    def listcomp(self, node, env, binds, as_int=False):
        if len(node.generators) != 1:
            raise Unsupported("nested comprehension", node)
        c = node.generators[0]
        if c.ifs or c.is_async or not isinstance(c.target, ast.Name):
            raise Unsupported("comprehension with a filter / a structured target", node)
        it = self.expr(c.iter, env, binds)
        if it.ty[0] != "vec":
            raise Unsupported("comprehension over a %s" % show_type(it.ty), node)
        v = c.target.id
        if v in env:
            raise Unsupported("comprehension variable %s shadows a local" % v, node)
        env2 = dict(env)
        env2[v] = (it.ty[1], False, False)
        b = []
        body = self.expr(node.elt, env2, b)
        if body.ty == MATCHING or body.ty[0] in ("tup", "opt"):
            raise Unsupported("comprehension of %s" % show_type(body.ty), node)
        term, ty = body.term, body.ty
        if as_int:
            if ty not in (NAT, INT):
                raise Unsupported("np.array of a list of %s" % show_type(ty), node)
            term, ty = coerce(body, INT, node), INT
        if not b:
            return E("(List.map (fun %s => %s) %s)" % (ident(v), term, it.term), VEC(ty))
        if len(b) == 1 and b[0][0] == body.term and not as_int:
            fn = "(fun %s => %s)" % (ident(v), b[0][1])
        else:
            fn = "(fun %s => (do %s))" % (ident(v), "; ".join(self.bind_lines(b) + ["pure %s" % term]))
        tmp = self.bind(binds, "Mir.PyMP.mapPy %s %s" % (fn, it.term), VEC(ty), node)
        return E(tmp, VEC(ty))

    def binop(self, node, env, binds):
        op = node.op
        if isinstance(op, ast.Pow):
            return SI.Body.binop(self, node, env, binds)
        if not isinstance(op, (ast.Add, ast.Sub, ast.Mult, ast.Div)):
            raise Unsupported("operator %s" % type(op).__name__, node)
        a = self.expr(node.left, env, binds)
        b = self.expr(node.right, env, binds)
        lists = isinstance(node.left, ast.List) or isinstance(node.right, ast.List)
        if isinstance(op, ast.Mult) and isinstance(node.left, ast.List) and len(node.left.elts) == 1 and b.ty == NAT:
            return E("(List.replicate %s %s)" % (b.term, a.elts[0].term), a.ty)
        if isinstance(op, ast.Add) and lists and a.ty[0] == "vec" and b.ty == a.ty:
            # list concatenation: at least one operand is a list DISPLAY, the other a list of arrays (never an ndarray)
            if a.ty[1][0] != "vec":
                raise Unsupported("`+` between a list display and a 1-D array", node)
            return E("(%s ++ %s)" % (a.term, b.term), a.ty)
        if lists:
            raise Unsupported("arithmetic on a list display", node)
        if a.ty == COUNTS and b.ty == COUNTS and isinstance(op, (ast.Add, ast.Sub)):
            prim = "vadd" if isinstance(op, ast.Add) else "vsub"
            tmp = self.bind(binds, "Mir.PyMP.%s %s %s" % (prim, a.term, b.term), COUNTS, node)
            return E(tmp, COUNTS)
        if a.ty[0] in ("vec", "mat") or b.ty[0] in ("vec", "mat"):
            raise Unsupported("array arithmetic %s %s %s" % (show_type(a.ty), type(op).__name__, show_type(b.ty)), node)
        return self.scalar_op(op, self.number(a, node), self.number(b, node), binds, node)

    def subscript(self, node, env, binds):
        idx = node.slice
        if isinstance(idx, ast.Name) and idx.id in env and env[idx.id][0] == NAT:
            a = self.expr(node.value, env, binds)
            if a.ty[0] != "vec":
                raise Unsupported("%s indexed by a natural" % show_type(a.ty), node)
            tmp = self.bind(binds, "Mir.PyMP.listGet %s %s" % (a.term, ident(idx.id)), a.ty[1], node)
            return E(tmp, a.ty[1])
        return SI.Body.subscript(self, node, env, binds)

    def assign(self, target, value, env, cont, node):
        if isinstance(value, ast.List) and not value.elts:
            raise Unsupported("binding the literal [] (its element type is unknown)", node)
        return SI.Body.assign(self, target, value, env, cont, node)

    def call(self, node, env, binds):
        f = node.func
        if any(isinstance(a, ast.Starred) for a in node.args):
            raise Unsupported("starred argument", node)
        name = dotted(f)
        args = node.args
        kwnames = [k.arg for k in node.keywords]
        # ---- scipy.interpolate.interp1d(...)(t) ------------------------------------------------------------------
        if isinstance(f, ast.Call) and dotted(f.func) == "scipy.interpolate.interp1d":
            return self.interp1d(f, node, env, binds)
        if isinstance(f, ast.Name) and f.id not in self.locals:
            builtin = f.id not in self.m.funcs and f.id not in self.m.assigned and f.id not in self.m.imports
            if builtin and f.id == "len" and len(args) == 1 and not node.keywords:
                a = self.expr(args[0], env, binds)
                if a.ty == MATCHING:
                    return E(a.term, NAT)
                if a.ty[0] == "vec":
                    return E("(Mir.PyM.len %s)" % a.term, NAT)
                raise Unsupported("len of a %s" % show_type(a.ty), node)
            if not builtin and f.id == "validate" and len(args) == 4 and not node.keywords:
                es = [self.expr(a, env, binds) for a in args]
                if [e.ty for e in es] != [TIMES, FRAMES, TIMES, FRAMES]:
                    raise Unsupported("validate on %s" % ", ".join(show_type(e.ty) for e in es), node)
                self.check_extern_sig("validate", [TIMES, FRAMES, TIMES, FRAMES], node)
                tmp = self.bind(binds, "Mir.PyMP.validate %s" % " ".join(e.term for e in es), NONE, node)
                return E(tmp, NONE)
            if not builtin and f.id == "frequencies_to_midi" and len(args) == 1 and not node.keywords:
                a = self.expr(args[0], env, binds)
                if a.ty != FRAMES:
                    raise Unsupported("frequencies_to_midi on a %s" % show_type(a.ty), node)
                if f.id not in self.m.funcs or len(self.m.funcs[f.id]) != 1:
                    raise Unsupported("frequencies_to_midi is not a single top-level function", node)
                return E("(Mir.PyMP.frequencies_to_midi %s)" % a.term, FRAMES)
        # ---- methods of locals -----------------------------------------------------------------------------------
        if isinstance(f, ast.Attribute) and not (name and name.split(".")[0] not in env):
            recv_b = []
            recv = self.expr(f.value, env, recv_b)
            if recv.ty == COUNTS and f.attr == "sum" and not args and not node.keywords:
                binds += recv_b
                return E("(Mir.PyMP.vsum %s)" % recv.term, INT, np=True)
            if recv.ty == VEC(NAT) and f.attr == "astype" and len(args) == 1 and not node.keywords \
                    and isinstance(args[0], ast.Name) and args[0].id == "int" and "int" not in self.locals:
                binds += recv_b
                return E(recv.term, VEC(NAT))
            raise Unsupported("method .%s on a %s" % (f.attr, show_type(recv.ty)), node)
        # ---- numpy / util ----------------------------------------------------------------------------------------
        if name == "np.zeros" and len(args) == 1 and not node.keywords:
            sh = args[0]
            if isinstance(sh, ast.Tuple) and len(sh.elts) == 1:
                sh = sh.elts[0]
            n = self.expr(sh, env, binds)
            if n.ty != NAT:
                raise Unsupported("np.zeros of a %s" % show_type(n.ty), node)
            return E("(Mir.PyMP.zeros %s)" % n.term, COUNTS)
        if name == "np.array" and len(args) == 1 and not node.keywords:
            x = args[0]
            if isinstance(x, ast.List) and not x.elts:
                return E("([] : List Rat)", FRAME)
            if isinstance(x, ast.ListComp):
                return self.listcomp(x, env, binds, as_int=True)
            raise Unsupported("np.array of anything but [] or an integer comprehension", node)
        if name == "np.arange" and len(args) == 2 and not node.keywords:
            a, b = self.expr(args[0], env, binds), self.expr(args[1], env, binds)
            if a.ty != NAT or b.ty != NAT:
                raise Unsupported("np.arange on (%s, %s)" % (show_type(a.ty), show_type(b.ty)), node)
            return E("(Mir.PyMP.arange %s %s)" % (a.term, b.term), VEC(NAT))
        if name in ("np.min", "np.max") and len(args) == 1 and kwnames == ["axis"]:
            ax, x = node.keywords[0].value, args[0]
            if not (isinstance(ax, ast.Constant) and type(ax.value) is int and ax.value == 0):
                raise Unsupported("%s along an axis other than the literal 0" % name, node)
            if not (isinstance(x, ast.List) and len(x.elts) == 2):
                raise Unsupported("%s of anything but a list of two arrays" % name, node)
            a, b = self.expr(x.elts[0], env, binds), self.expr(x.elts[1], env, binds)
            if a.ty != COUNTS or b.ty != COUNTS:
                raise Unsupported("%s on [%s, %s]" % (name, show_type(a.ty), show_type(b.ty)), node)
            prim = "stackMin" if name == "np.min" else "stackMax"
            tmp = self.bind(binds, "Mir.PyMP.%s %s %s" % (prim, a.term, b.term), COUNTS, node)
            return E(tmp, COUNTS)
        if name == "np.mod" and len(args) == 2 and not node.keywords:
            a, k = self.expr(args[0], env, binds), const_expr(args[1])
            if a.ty != FRAME or k.ty not in (NAT, RAT) or not k.lit:
                raise Unsupported("np.mod other than np.mod(<frame>, <non-zero literal>)", node)
            return E("(Mir.PyMP.npMod %s %s)" % (a.term, coerce(k, RAT, node)), FRAME)
        if name == "np.allclose" and len(args) == 2 and not node.keywords:
            if not (all(isinstance(x, ast.Name) for x in args) and frozenset(x.id for x in args) in self.allclose_ok):
                raise Unsupported("np.allclose(a, b) that is not guarded by `a.size != b.size or ...`", node)
            a, b = self.expr(args[0], env, binds), self.expr(args[1], env, binds)
            if a.ty != TIMES or b.ty != TIMES:
                raise Unsupported("np.allclose on (%s, %s)" % (show_type(a.ty), show_type(b.ty)), node)
            return E("(Mir.PyMP.allclose %s %s)" % (a.term, b.term), BOOL)
        if name == "util.match_events" and len(args) == 3:
            r, e, w = [self.expr(a, env, binds) for a in args]
            if r.ty != FRAME or e.ty != FRAME or w.ty not in (NAT, INT, RAT):
                raise Unsupported("util.match_events on (%s, %s, %s)" % (show_type(r.ty), show_type(e.ty), show_type(w.ty)), node)
            if not node.keywords:
                prim = "match_events_len"
            elif kwnames == ["distance"] and dotted(node.keywords[0].value) == "util._outer_distance_mod_n":
                prim = "match_events_mod_len"
            else:
                raise Unsupported("util.match_events with keywords other than distance=util._outer_distance_mod_n", node)
            return E("(Mir.PyMP.%s %s %s %s)" % (prim, r.term, e.term, coerce(w, RAT, node)), MATCHING)
        if name == "util.filter_kwargs":
            return self.filter_kwargs(node, env, binds)
        return SI.Body.call(self, node, env, binds)

    def check_extern_sig(self, fname, tys, node):
        """an extern of this module must still be ONE top-level function with that many documented parameters"""
        defs = self.m.funcs.get(fname)
        if not defs or len(defs) != 1 or fname in self.m.assigned:
            raise Unsupported("%s is not a single top-level function" % fname, node)
        a = defs[0].args
        if a.vararg or a.kwarg or a.kwonlyargs or a.posonlyargs or a.defaults or len(a.args) != len(tys):
            raise Unsupported("the signature of %s changed" % fname, node)

    def interp1d(self, c, node, env, binds):
        if len(node.args) != 1 or node.keywords or len(c.args) != 2:
            raise Unsupported("interp1d(x, y, ...)(t) expected", node)
        kw = {}
        for k in c.keywords:
            if k.arg is None or k.arg in kw:
                raise Unsupported("interp1d keyword", node)
            kw[k.arg] = k.value
        if set(kw) != {"kind", "bounds_error", "assume_sorted", "fill_value"}:
            raise Unsupported("interp1d keywords other than kind, bounds_error, assume_sorted, fill_value", node)

        def lit(x, v):
            return isinstance(x, ast.Constant) and x.value is v or (isinstance(x, ast.Constant) and type(v) is str and x.value == v)
        if not (lit(kw["kind"], "nearest") and lit(kw["bounds_error"], False) and lit(kw["assume_sorted"], True)):
            raise Unsupported("interp1d other than kind='nearest', bounds_error=False, assume_sorted=True", node)
        x, y = self.expr(c.args[0], env, binds), self.expr(c.args[1], env, binds)
        fill = self.expr(kw["fill_value"], env, binds)
        t = self.expr(node.args[0], env, binds)
        if [x.ty, y.ty, fill.ty, t.ty] != [TIMES, VEC(NAT), NAT, TIMES]:
            raise Unsupported("interp1d(nearest) on (%s)" % ", ".join(show_type(v.ty) for v in (x, y, fill, t)), node)
        tmp = self.bind(binds, "Mir.PyMP.interp1d_nearest %s %s %s %s" % (x.term, y.term, fill.term, t.term), VEC(NAT), node)
        return E(tmp, VEC(NAT))

    def filter_kwargs(self, node, env, binds):
        args = node.args
        if not args or not isinstance(args[0], ast.Name) or args[0].id in self.locals:
            raise Unsupported("util.filter_kwargs whose first argument is not a function of this module", node)
        star = [k for k in node.keywords if k.arg is None]
        if len(star) != 1 or not (isinstance(star[0].value, ast.Name) and star[0].value.id == self.kwarg_name()):
            raise Unsupported("util.filter_kwargs without exactly one **kwargs of the enclosing function", node)
        sig = self.m.translate(args[0].id, node)
        pos = args[1:]
        explicit = {}
        for k in node.keywords:
            if k.arg is not None:
                if k.arg in explicit:
                    raise Unsupported("repeated keyword", node)
                explicit[k.arg] = k.value
        if len(pos) > len(sig.params):
            raise Unsupported("too many arguments for %s" % sig.name, node)
        pnames = [p[0] for p in sig.params]
        for k in explicit:
            if k not in pnames[len(pos):]:
                raise Unsupported("keyword %s is not a remaining parameter of %s" % (k, sig.name), node)
        terms = []
        for i, (pn, pt, pd) in enumerate(sig.params):
            if i < len(pos):
                terms.append(coerce(self.expr(pos[i], env, binds), pt, node))
            elif pn in explicit:
                terms.append(coerce(self.expr(explicit[pn], env, binds), pt, node))
            elif pd is None:
                raise Unsupported("missing argument %s of %s" % (pn, sig.name), node)
            elif pn in self.kwparams:
                if env.get(pn, (None,))[0] != OPT(pt):
                    raise Unsupported("keyword parameter %s of %s has another type here" % (pn, sig.name), node)
                terms.append("(Option.getD %s %s)" % (ident(pn), self.default_term(pd, pt)))
            else:
                terms.append(self.default_term(pd, pt))
        tmp = self.bind(binds, "%s %s" % (self.callee(sig), " ".join(terms)), sig.ret, node)
        return E(tmp, sig.ret, np=sig.ret_np)

    def kwarg_name(self):
        return self.fn.args.kwarg.arg if self.fn.args.kwarg else None


# ----------------------------------------------------------------------------------------
# a whole function

def kwargs_params(module, fn):
    """the optional parameters `**kwargs` stands for: keyword parameters of the functions reached through
    util.filter_kwargs that no call site sets explicitly -> [(name, OPT type, None-default E)]"""
    kw = fn.args.kwarg.arg
    uses = [nd for nd in ast.walk(fn) if isinstance(nd, ast.Name) and nd.id == kw]
    calls = [nd for nd in ast.walk(fn) if isinstance(nd, ast.Call) and dotted(nd.func) == "util.filter_kwargs"]
    starred = [k.value for c in calls for k in c.keywords if k.arg is None]
    if len(uses) != len(starred) or any(u not in starred for u in uses):
        raise Unsupported("**%s is used other than as util.filter_kwargs(f, ..., **%s)" % (kw, kw), fn)
    explicit, cands = set(), []
    for c in calls:
        if not c.args or not isinstance(c.args[0], ast.Name):
            raise Unsupported("util.filter_kwargs whose first argument is not a plain function name", c)
        sig = module.translate(c.args[0].id, c)
        explicit |= {k.arg for k in c.keywords if k.arg is not None}
        npos = len(c.args) - 1
        for pn, pt, pd in sig.params[npos:]:
            if pd is not None:
                cands.append((pn, pt))
    out = []
    for pn, pt in cands:
        if pn in explicit:
            continue
        prev = [t for n, t in out if n == pn]
        if prev:
            if prev[0] != pt:
                raise Unsupported("keyword %s has different types in the callees" % pn, fn)
            continue
        out.append((pn, pt))
    return [(n, OPT(t), const_expr(ast.Constant(value=None))) for n, t in out]


def translate_def(module, fn):
    """-> [(Sig, lines)] in emission order (loops first)"""
    if fn.decorator_list:
        raise Unsupported("decorated function", fn)
    a = fn.args
    if a.vararg or a.kwonlyargs or a.posonlyargs:
        raise Unsupported("*args / keyword-only parameters", fn)
    doc = doc_param_types(fn)
    np_kinds = list(ARRAY_PARAMS.get(fn.name, []))
    params = []
    ndef = len(a.defaults)
    for i, p in enumerate(a.args):
        if p.arg not in doc:
            raise Unsupported("parameter %s has no documented type" % p.arg, fn)
        d = None
        k = i - (len(a.args) - ndef)
        if k >= 0:
            d = const_expr(a.defaults[k])
            if d.ty == NONE:
                raise Unsupported("a parameter with default None", fn)
        ty = param_type(fn.name, doc[p.arg], fn, np_kinds)
        if d is not None:
            coerce(d, ty, fn)
        params.append((p.arg, ty, d))
    if np_kinds:
        raise Unsupported("%s has fewer np.ndarray parameters than declared" % fn.name, fn)
    body = strip_warnings([s for s in fn.body
                           if not (isinstance(s, ast.Expr) and isinstance(s.value, ast.Constant) and isinstance(s.value.value, str))])
    kwp = []
    if a.kwarg:
        kwp = kwargs_params(module, fn)
        local = set(assigned_names(body)) | {n for n, _, _ in params}
        for n, _, _ in kwp:
            if n in local:
                raise Unsupported("keyword %s of **%s collides with a local" % (n, a.kwarg.arg), fn)
    where = "`multipitch.%s` (mir_eval/multipitch.py)" % fn.name
    if kwp:
        where += "; **%s is read as the optional keyword(s) %s of the functions reached through util.filter_kwargs" % (
            a.kwarg.arg, ", ".join(n for n, _, _ in kwp))
    b = Body(module, fn, fn.name, params + kwp, body, what=where, kwparams=[n for n, _, _ in kwp])
    return b.translate()


# ----------------------------------------------------------------------------------------
# driver handler

def val_decoder(ty, v, default=None):
    dec = {RAT: "Val.asRat?", NAT: "Val.asNat?", INT: "Val.asInt?", BOOL: "Val.asBool?", COUNTS: "Val.asInts?",
           TIMES: "Val.asRats?", FRAMES: "Mir.PyMP.asFrames?", OPT(RAT): "Val.asOptRat?"}.get(ty)
    if dec is None:
        raise Unsupported("no protocol decoder for %s" % show_type(ty))
    if default is not None and ty[0] != "opt":
        return "let %s ← (match %s with | Val.none => some %s | _v => %s _v)" % (v, v, default, dec)
    return "let %s ← %s %s" % (v, dec, v)


def val_encoder(ty):
    if ty == COUNTS:
        return "Val.ofInts"
    if ty == FRAMES:
        return "Mir.PyMP.ofFrames"
    if ty == TIMES:
        return "Val.ofRats"
    return SI.val_encoder(ty)


HEADER = """import MirModel.PyScalar
import MirModel.PyMat
import MirModel.PyMultipitch
/-!
  GENERATED by harness/translate/multipitch.py from mir_eval/multipitch.py — do not edit.
  One shallow definition per translated function (`Mir.Gen.multipitch.<function>`; a `for` loop is the auxiliary
  `<function>_loop<k>`), over `Mir.PyMP` / `Mir.PyM`.  Regenerated from the working tree on every run of ./check C18;
  `MirProofs/Props/C18_Gen.lean` proves each of them equal to the hand-written model (`MirModel/Multipitch.lean`).
-/
set_option linter.unusedVariables false
"""


def translate_all(repo, wanted=None):
    """-> (lean text, {name: Sig}, problems [(function, detail)])"""
    wanted = WANTED if wanted is None else wanted
    path = os.path.join(repo, "mir_eval", "multipitch.py")
    problems = []
    try:
        m = Module(open(path, encoding="utf-8").read())
    except (OSError, SyntaxError) as e:
        m = None
        problems = [(f, "cannot read/parse %s: %s" % (path, e)) for f in wanted]
    if m is not None:
        for fname in wanted:
            try:
                m.translate(fname)
            except Unsupported as e:
                problems.append((fname, e.detail))
    L = [HEADER, "namespace Mir.Gen.multipitch", ""]
    rows = []
    emitted = [] if m is None else m.emitted
    for name, lines in emitted:
        L += lines + [""]
    L += ["end Mir.Gen.multipitch", ""]
    public = [n for n, _ in emitted if n not in m.internal] if m is not None else []
    for name in public:
        sig = m.sigs[name]
        try:
            vs = ["a%d" % i for i in range(len(sig.params))]
            decs = []
            for (pn, pt, pd), v in zip(sig.params, vs):
                dflt = None
                if pd is not None and pt[0] != "opt":
                    dflt = coerce(pd, pt)
                decs.append(val_decoder(pt, v, dflt))
            enc = val_encoder(sig.ret)
        except Unsupported:
            continue
        rows.append("  | \"gen.multipitch\", Val.str \"%s\" :: [%s] => do\n%s      some (Except.map %s (Mir.Gen.multipitch.%s %s))" % (
            name, ", ".join(vs), "".join("      %s\n" % d for d in decs), enc, ident(name), " ".join(vs)))
    L.append("namespace Mir.Gen.Multipitch")
    L.append("")
    L.append("/-- names of the translated functions (in emission order) -/")
    L.append("def names : List String := [%s]" % ", ".join('"%s"' % n for n in public))
    L.append("")
    L.append("/-- protocol op `gen.multipitch <\"function\"> <args...>` (a defaulted parameter may be sent as `none`) -/")
    L.append("def handler : Handler := fun fn args =>")
    L.append("  match fn, args with")
    L += rows
    L.append("  | _, _ => none")
    L.append("")
    L.append("end Mir.Gen.Multipitch")
    sigs = {} if m is None else {n: m.sigs[n] for n in public}
    return "\n".join(L) + "\n", sigs, problems


def generate(repo, outdir):
    text, done, problems = translate_all(repo)
    os.makedirs(outdir, exist_ok=True)
    write_if_changed(os.path.join(outdir, "Multipitch.lean"), text)
    obligations = ["Mir.Gen.multipitch.%s" % n for n in done]
    probs = [{"name": "multipitch: multipitch.%s" % f, "detail": "outside the translated subset: " + d} for f, d in problems]
    return obligations, probs


if __name__ == "__main__":
    repo = sys.argv[1] if len(sys.argv) > 1 else "/repo"
    text, done, problems = translate_all(repo)
    sys.stdout.write(text)
    for p in problems:
        sys.stderr.write("PROBLEM multipitch.%s: %s\n" % p)
